//! C12 under Miri: the lexer / parser monitors L1-L4 of harness/src/engines/c12.rs on small inputs, interpreted by Miri
//! so that undefined behaviour, use-after-free, out-of-bounds accesses, uninitialised reads and data races inside the
//! `unsafe` code of the dependencies the parser stands on (rowan's green tree and cursors, logos' generated lexer,
//! smol_str, text-size) become reports.  argv: <seed> <count>.  Prints `MIRI-RESULT {json}` at the end; a monitor
//! violation prints `MIRI-VIOLATION <sig> <detail>`.
use trust_syntax::parser::parse;
use trust_syntax::lex;

const FIXED: &[&str] = &[
    "PROGRAM P VAR x : INT; END_VAR x := x + 1; IF x > 3 THEN x := 0; ELSIF x < 0 THEN x := 1; ELSE x := 2; END_IF; END_PROGRAM",
    "FUNCTION F : INT VAR_INPUT a, b : INT; END_VAR F := 2 ** 3 ** 2 + a * (b - 1) MOD 3; END_FUNCTION",
    "FUNCTION_BLOCK FB VAR_INPUT i : BOOL; END_VAR VAR_OUTPUT q : BOOL; END_VAR VAR t : TON; END_VAR t(IN := i, PT := T#1s, Q => q); END_FUNCTION_BLOCK",
    "TYPE S : STRUCT a : INT; b : ARRAY[0..3, 1..2] OF REAL; END_STRUCT; E : (A, B, C) := A; R : INT(0..10); END_TYPE",
    "CONFIGURATION C VAR_GLOBAL g AT %QX0.1 : BOOL; END_VAR RESOURCE R ON PLC TASK T(INTERVAL := T#10ms, PRIORITY := 1); PROGRAM P1 WITH T : P; END_RESOURCE END_CONFIGURATION",
    "PROGRAM Q VAR i : INT; a : ARRAY[0..9] OF INT; END_VAR FOR i := 0 TO 9 BY 2 DO a[i] := i; IF i = 4 THEN CONTINUE; END_IF; END_FOR; WHILE i > 0 DO i := i - 1; END_WHILE; REPEAT i := i + 1; UNTIL i >= 3 END_REPEAT; CASE i OF 1: i := 2; 2, 3: i := 4; 5..7: EXIT; ELSE RETURN; END_CASE; END_PROGRAM",
    "CLASS C EXTENDS B IMPLEMENTS I METHOD PUBLIC M : INT VAR_INPUT x : INT; END_VAR M := SUPER.M(x) + THIS.y; END_METHOD END_CLASS INTERFACE I METHOD M : INT END_METHOD END_INTERFACE",
    "NAMESPACE N.M USING A.B; FUNCTION G : BOOL G := TRUE AND NOT FALSE XOR (1 <= 2) OR 3 <> 4; END_FUNCTION END_NAMESPACE",
    "x := (1 +", "(* a (* b *)", "PROGRAM", "END_PROGRAM END_PROGRAM ;;; := := IF THEN", "VAR x : ; END_VAR", "a := 1.", "IF #x THEN", "{attribute 'a'\n 'b'}",
    "(* \u{1F600} *) x := '\u{65e5}\u{672c}$N'; // \u{e9}\r\ny := \"w$\"\";", "\u{feff}PROGRAM P END_PROGRAM", "\u{0}\u{2028}@?!\\", "", " ", "\r\n\t",
    "x := 16#FF + 2#1010 + 8#77 + INT#5 + 1e10 + 1.0E-3; t := T#1h2m3s4ms + TIME#-5ms; d := D#2024-01-01; tod := TOD#12:00:00; dt := DT#2024-01-01-12:00:00;",
    "p := REF(x); p^ := 1; q ?= p; r := ADR(a[1].f.g[2]); %IX0.0 := %MW4 > 3; JMP l; l: ;",
    "((((((((((((((((((((1))))))))))))))))))))", "a[b[c[d[e[f[g[0]]]]]]] := -(-(-(-(-(-1)))));",
    "IF a THEN IF b THEN IF c THEN IF d THEN x := 1; END_IF END_IF END_IF END_IF",
];

const VOCAB: &[&str] = &[
    "PROGRAM", "END_PROGRAM", "FUNCTION", "END_FUNCTION", "FUNCTION_BLOCK", "END_FUNCTION_BLOCK", "VAR", "VAR_INPUT", "VAR_OUTPUT", "VAR_IN_OUT", "END_VAR",
    "IF", "THEN", "ELSIF", "ELSE", "END_IF", "CASE", "OF", "END_CASE", "FOR", "TO", "BY", "DO", "END_FOR", "WHILE", "END_WHILE", "REPEAT", "UNTIL", "END_REPEAT",
    "EXIT", "RETURN", "TYPE", "END_TYPE", "STRUCT", "END_STRUCT", "ARRAY", "INT", "REAL", "BOOL", "CLASS", "END_CLASS", "METHOD", "END_METHOD", "NAMESPACE",
    "END_NAMESPACE", "AND", "OR", "NOT", "MOD", "TRUE", "x", "y", "foo", ":=", "=>", ":", ";", ",", ".", "..", "(", ")", "[", "]", "+", "-", "*", "/", "**", "=", "<>",
    "<", "#", "1", "1.5", "1.", "16#FF", "INT#5", "T#1s", "'str'", "\"w\"", "%IX0.0", "(* c *)", "// l\n", "{p}", "(*", "'", "$", "@", "\n", " ", "\u{e9}", "\u{1F600}",
];

struct Rng(u64);
impl Rng {
    fn next(&mut self) -> u64 {
        self.0 ^= self.0 << 13;
        self.0 ^= self.0 >> 7;
        self.0 ^= self.0 << 17;
        self.0
    }
    fn below(&mut self, n: usize) -> usize {
        (self.next() % n as u64) as usize
    }
}

fn check_one(s: &str) -> Result<(usize, usize, usize), (String, String)> {
    let toks = lex(s);
    let mut pos: u32 = 0;
    for t in &toks {
        let (a, b) = (u32::from(t.range.start()), u32::from(t.range.end()));
        if a != pos || b <= a || b as usize > s.len() || !s.is_char_boundary(b as usize) {
            return Err(("L1|token-tiling".into(), format!("token {:?} {a}..{b}, expected start {pos}, len {}", t.kind, s.len())));
        }
        pos = b;
    }
    if pos as usize != s.len() {
        return Err(("L1|tokens-do-not-cover-input".into(), format!("covered {pos} of {}", s.len())));
    }
    let p = parse(s);
    let root = p.syntax();
    if root.text().to_string() != s {
        return Err(("L2|tree-text-differs".into(), format!("input {s:?}")));
    }
    for e in p.errors() {
        let (a, b) = (u32::from(e.range.start()) as usize, u32::from(e.range.end()) as usize);
        if a > b || b > s.len() {
            return Err(("L3|error-range-out-of-bounds".into(), format!("{a}..{b} len {}", s.len())));
        }
    }
    // walk the whole tree through rowan's cursor API (allocates and frees cursor nodes), forwards and via ancestors / siblings
    let mut nodes = 0usize;
    for ev in root.preorder_with_tokens() {
        if let rowan::WalkEvent::Enter(el) = ev {
            nodes += 1;
            match el {
                rowan::NodeOrToken::Node(n) => {
                    let _ = n.ancestors().count();
                    let _ = n.first_token().map(|t| t.text().len());
                    let _ = n.next_sibling_or_token().map(|x| x.kind());
                }
                rowan::NodeOrToken::Token(t) => {
                    let _ = t.parent().map(|p| p.text_range());
                    let _ = t.prev_token().map(|x| x.text_range());
                }
            }
        }
    }
    // a detached mutable clone: exercises rowan's clone_for_update / splice path
    let m = root.clone_for_update();
    if m.text().to_string() != s {
        return Err(("L2|clone-for-update-text-differs".into(), format!("input {s:?}")));
    }
    Ok((toks.len(), nodes, p.errors().len()))
}

fn dump(s: &str) -> (String, Vec<String>) {
    let p = parse(s);
    (format!("{:?}", p.syntax()), p.errors().iter().map(|e| e.to_string()).collect())
}

fn main() {
    let args: Vec<String> = std::env::args().collect();
    let seed: u64 = args.get(1).and_then(|s| s.parse().ok()).unwrap_or(1);
    let count: usize = args.get(2).and_then(|s| s.parse().ok()).unwrap_or(40);
    let mut rng = Rng(seed.wrapping_mul(0x9E3779B97F4A7C15) | 1);
    let mut inputs: Vec<String> = Vec::new();
    // every process takes a slice of the fixed inputs, so that a set of seeds covers all of them
    for (i, s) in FIXED.iter().enumerate() {
        if (i as u64 + seed) % 4 == 0 {
            inputs.push((*s).to_string());
        }
    }
    while inputs.len() < count {
        let base = FIXED[rng.below(FIXED.len())];
        let s = match rng.below(4) {
            0 => {
                // token soup
                let n = 1 + rng.below(14);
                (0..n).map(|_| VOCAB[rng.below(VOCAB.len())]).collect::<Vec<_>>().join(if rng.below(2) == 0 { " " } else { "" })
            }
            1 => {
                // truncation at a char boundary
                let mut k = rng.below(base.len() + 1);
                while !base.is_char_boundary(k) {
                    k -= 1;
                }
                base[..k].to_string()
            }
            2 => {
                // splice a vocabulary item into a fixed input
                let mut k = rng.below(base.len() + 1);
                while !base.is_char_boundary(k) {
                    k -= 1;
                }
                format!("{}{}{}", &base[..k], VOCAB[rng.below(VOCAB.len())], &base[k..])
            }
            _ => {
                // nesting
                let d = 1 + rng.below(24);
                match rng.below(3) {
                    0 => format!("x := {}1{};", "(".repeat(d), ")".repeat(d)),
                    1 => format!("{}x := 1;{}", "IF a THEN ".repeat(d), " END_IF;".repeat(d)),
                    _ => format!("x := {}1;", "NOT -".repeat(d)),
                }
            }
        };
        inputs.push(s);
    }
    let (mut tokens, mut nodes, mut errors, mut purity) = (0usize, 0usize, 0usize, 0usize);
    let mut violations = 0;
    for (i, s) in inputs.iter().enumerate() {
        match check_one(s) {
            Ok((t, n, e)) => {
                tokens += t;
                nodes += n;
                errors += e;
            }
            Err((sig, detail)) => {
                println!("MIRI-VIOLATION {sig} {detail}");
                violations += 1;
            }
        }
        if i % 4 == 0 {
            // L4 purity, the second parse on another thread while this one parses too (Miri's data-race detector watches
            // the lexer's and the interner's statics)
            let s2 = s.clone();
            let h = std::thread::spawn(move || dump(&s2));
            let a = dump(s);
            let b = h.join().expect("parser thread panicked");
            if a != b {
                println!("MIRI-VIOLATION L4|parse-not-pure input {s:?}");
                violations += 1;
            }
            purity += 1;
        }
    }
    println!("MIRI-RESULT {{\"inputs\": {}, \"tokens\": {tokens}, \"tree_elements_walked\": {nodes}, \"syntax_errors_reported\": {errors}, \"purity_pairs_on_two_threads\": {purity}, \"violations\": {violations}}}", inputs.len());
    if violations > 0 {
        std::process::exit(1);
    }
}
