#!/bin/sh
# Build the framework offline from files on disk (run once in /verif after a fresh restore).
set -e
cd "$(dirname "$0")"
export CARGO_NET_OFFLINE=true
mkdir -p target evidence replays
[ -f harness/Cargo.lock ] || cp /repo/Cargo.lock harness/Cargo.lock
(cd harness && cargo build --offline --profile verif)
cc -O1 -shared -fPIC -o target/libcrashpoint.so shim/crashpoint.c -ldl 2>/dev/null || true
(cd /repo && CARGO_PROFILE_DEV_OPT_LEVEL=1 CARGO_PROFILE_DEV_DEBUG=line-tables-only CARGO_PROFILE_DEV_INCREMENTAL=false \
  cargo build --offline -p trust-lsp --bin trust-lsp --target-dir /verif/target/repo)
echo setup done
