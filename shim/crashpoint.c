// LD_PRELOAD crash-point injector (C10).
//
// Counts the file-system calls a process makes on paths under $CRASH_DIR and kills the
// process (_exit(137), no atexit handlers, no buffered flushes: "process death") at call
// number $CRASH_AT:
//   CRASH_MODE=before      die before performing call n
//   CRASH_MODE=after       perform call n, then die
//   CRASH_MODE=partial:K   (write-family only) perform the first K bytes of call n, then die
// With CRASH_AT=0 nothing dies; every intercepted call is logged to $CRASH_LOG as
// "<n> <name> <len>" so that the supervisor learns the call sequence (dry run).
#define _GNU_SOURCE
#include <dlfcn.h>
#include <errno.h>
#include <fcntl.h>
#include <stdarg.h>
#include <stdio.h>
#include <stdlib.h>
#include <string.h>
#include <sys/stat.h>
#include <sys/types.h>
#include <sys/uio.h>
#include <unistd.h>

#define MAXFD 4096
static char tracked[MAXFD];
static long counter = 0;
static int initialised = 0;
static const char *dir = NULL;
static long crash_at = 0;
static int mode = 0; /* 0 before, 1 after, 2 partial */
static long partial_k = 0;
static int logfd = -1;

static int (*real_open)(const char *, int, ...);
static int (*real_open64)(const char *, int, ...);
static int (*real_openat)(int, const char *, int, ...);
static int (*real_openat64)(int, const char *, int, ...);
static int (*real_creat)(const char *, mode_t);
static ssize_t (*real_write)(int, const void *, size_t);
static ssize_t (*real_pwrite)(int, const void *, size_t, off_t);
static ssize_t (*real_pwrite64)(int, const void *, size_t, off_t);
static ssize_t (*real_writev)(int, const struct iovec *, int);
static int (*real_rename)(const char *, const char *);
static int (*real_renameat)(int, const char *, int, const char *);
static int (*real_ftruncate)(int, off_t);
static int (*real_ftruncate64)(int, off_t);
static int (*real_fsync)(int);
static int (*real_fdatasync)(int);
static int (*real_unlink)(const char *);
static int (*real_close)(int);
static int (*real_link)(const char *, const char *);

static void init(void) {
  if (initialised) return;
  initialised = 1;
  real_open = dlsym(RTLD_NEXT, "open");
  real_open64 = dlsym(RTLD_NEXT, "open64");
  real_openat = dlsym(RTLD_NEXT, "openat");
  real_openat64 = dlsym(RTLD_NEXT, "openat64");
  real_creat = dlsym(RTLD_NEXT, "creat");
  real_write = dlsym(RTLD_NEXT, "write");
  real_pwrite = dlsym(RTLD_NEXT, "pwrite");
  real_pwrite64 = dlsym(RTLD_NEXT, "pwrite64");
  real_writev = dlsym(RTLD_NEXT, "writev");
  real_rename = dlsym(RTLD_NEXT, "rename");
  real_renameat = dlsym(RTLD_NEXT, "renameat");
  real_ftruncate = dlsym(RTLD_NEXT, "ftruncate");
  real_ftruncate64 = dlsym(RTLD_NEXT, "ftruncate64");
  real_fsync = dlsym(RTLD_NEXT, "fsync");
  real_fdatasync = dlsym(RTLD_NEXT, "fdatasync");
  real_unlink = dlsym(RTLD_NEXT, "unlink");
  real_close = dlsym(RTLD_NEXT, "close");
  real_link = dlsym(RTLD_NEXT, "link");
  dir = getenv("CRASH_DIR");
  const char *at = getenv("CRASH_AT");
  if (at) crash_at = atol(at);
  const char *m = getenv("CRASH_MODE");
  if (m) {
    if (!strcmp(m, "after")) mode = 1;
    else if (!strncmp(m, "partial:", 8)) { mode = 2; partial_k = atol(m + 8); }
  }
  const char *lg = getenv("CRASH_LOG");
  if (lg && real_open) logfd = real_open(lg, O_WRONLY | O_CREAT | O_APPEND, 0644);
}

static int under(const char *path) {
  if (!dir || !path) return 0;
  size_t n = strlen(dir);
  return strncmp(path, dir, n) == 0;
}

static void logcall(long n, const char *name, long len) {
  if (logfd >= 0) {
    char buf[128];
    int k = snprintf(buf, sizeof buf, "%ld %s %ld\n", n, name, len);
    real_write(logfd, buf, k);
  }
}

/* returns: 0 proceed normally, 1 die before, 2 die after, 3 partial */
static int tick(const char *name, long len) {
  long n = ++counter;
  logcall(n, name, len);
  if (crash_at == 0 || n != crash_at) return 0;
  if (mode == 0) _exit(137);
  if (mode == 1) return 2;
  return 3;
}

static void track(int fd, int on) { if (fd >= 0 && fd < MAXFD) tracked[fd] = (char)on; }
static int is_tracked(int fd) { return fd >= 0 && fd < MAXFD && tracked[fd]; }

#define OPEN_BODY(CALL, NAME)                          \
  init();                                              \
  mode_t md = 0;                                       \
  if (flags & (O_CREAT | O_TMPFILE)) {                 \
    va_list ap; va_start(ap, flags);                   \
    md = va_arg(ap, mode_t); va_end(ap);               \
  }                                                    \
  if (!under(path)) return CALL;                       \
  int t = tick(NAME, flags);                           \
  int fd = CALL;                                       \
  track(fd, 1);                                        \
  if (t >= 2) _exit(137);                              \
  return fd;

int open(const char *path, int flags, ...) { OPEN_BODY(real_open(path, flags, md), "open") }
int open64(const char *path, int flags, ...) { OPEN_BODY(real_open64(path, flags, md), "open") }
int openat(int dfd, const char *path, int flags, ...) { OPEN_BODY(real_openat(dfd, path, flags, md), "open") }
int openat64(int dfd, const char *path, int flags, ...) { OPEN_BODY(real_openat64(dfd, path, flags, md), "open") }

int creat(const char *path, mode_t md) {
  init();
  if (!under(path)) return real_creat(path, md);
  int t = tick("open", 0);
  int fd = real_creat(path, md);
  track(fd, 1);
  if (t >= 2) _exit(137);
  return fd;
}

ssize_t write(int fd, const void *buf, size_t len) {
  init();
  if (!is_tracked(fd)) return real_write(fd, buf, len);
  int t = tick("write", (long)len);
  if (t == 3) {
    size_t k = (size_t)partial_k < len ? (size_t)partial_k : len;
    real_write(fd, buf, k);
    _exit(137);
  }
  ssize_t r = real_write(fd, buf, len);
  if (t == 2) _exit(137);
  return r;
}

ssize_t pwrite(int fd, const void *buf, size_t len, off_t off) {
  init();
  if (!is_tracked(fd)) return real_pwrite(fd, buf, len, off);
  int t = tick("write", (long)len);
  if (t == 3) {
    size_t k = (size_t)partial_k < len ? (size_t)partial_k : len;
    real_pwrite(fd, buf, k, off);
    _exit(137);
  }
  ssize_t r = real_pwrite(fd, buf, len, off);
  if (t == 2) _exit(137);
  return r;
}
ssize_t pwrite64(int fd, const void *buf, size_t len, off_t off) {
  init();
  if (!is_tracked(fd)) return real_pwrite64(fd, buf, len, off);
  int t = tick("write", (long)len);
  if (t == 3) {
    size_t k = (size_t)partial_k < len ? (size_t)partial_k : len;
    real_pwrite64(fd, buf, k, off);
    _exit(137);
  }
  ssize_t r = real_pwrite64(fd, buf, len, off);
  if (t == 2) _exit(137);
  return r;
}

ssize_t writev(int fd, const struct iovec *iov, int cnt) {
  init();
  if (!is_tracked(fd)) return real_writev(fd, iov, cnt);
  long total = 0;
  for (int i = 0; i < cnt; i++) total += (long)iov[i].iov_len;
  int t = tick("write", total);
  if (t == 3) {
    long left = partial_k;
    for (int i = 0; i < cnt && left > 0; i++) {
      size_t k = (size_t)left < iov[i].iov_len ? (size_t)left : iov[i].iov_len;
      real_write(fd, iov[i].iov_base, k);
      left -= (long)k;
    }
    _exit(137);
  }
  ssize_t r = real_writev(fd, iov, cnt);
  if (t == 2) _exit(137);
  return r;
}

int rename(const char *a, const char *b) {
  init();
  if (!under(a) && !under(b)) return real_rename(a, b);
  int t = tick("rename", 0);
  int r = real_rename(a, b);
  if (t >= 2) _exit(137);
  return r;
}
int renameat(int da, const char *a, int db, const char *b) {
  init();
  if (!under(a) && !under(b)) return real_renameat(da, a, db, b);
  int t = tick("rename", 0);
  int r = real_renameat(da, a, db, b);
  if (t >= 2) _exit(137);
  return r;
}
int link(const char *a, const char *b) {
  init();
  if (!under(a) && !under(b)) return real_link(a, b);
  int t = tick("link", 0);
  int r = real_link(a, b);
  if (t >= 2) _exit(137);
  return r;
}
int ftruncate(int fd, off_t len) {
  init();
  if (!is_tracked(fd)) return real_ftruncate(fd, len);
  int t = tick("ftruncate", (long)len);
  int r = real_ftruncate(fd, len);
  if (t >= 2) _exit(137);
  return r;
}
int ftruncate64(int fd, off_t len) {
  init();
  if (!is_tracked(fd)) return real_ftruncate64(fd, len);
  int t = tick("ftruncate", (long)len);
  int r = real_ftruncate64(fd, len);
  if (t >= 2) _exit(137);
  return r;
}
int fsync(int fd) {
  init();
  if (!is_tracked(fd)) return real_fsync(fd);
  int t = tick("fsync", 0);
  int r = real_fsync(fd);
  if (t >= 2) _exit(137);
  return r;
}
int fdatasync(int fd) {
  init();
  if (!is_tracked(fd)) return real_fdatasync(fd);
  int t = tick("fsync", 0);
  int r = real_fdatasync(fd);
  if (t >= 2) _exit(137);
  return r;
}
int unlink(const char *p) {
  init();
  if (!under(p)) return real_unlink(p);
  int t = tick("unlink", 0);
  int r = real_unlink(p);
  if (t >= 2) _exit(137);
  return r;
}
int close(int fd) {
  init();
  if (!is_tracked(fd)) return real_close(fd);
  int t = tick("close", 0);
  track(fd, 0);
  int r = real_close(fd);
  if (t >= 2) _exit(137);
  return r;
}
