//! Storage walker: canonical traversal of a runtime's variable storage by *name path*.
//! Instance ids never appear in the output (they are history dependent); references are rendered
//! through the ordinal of the instance they point into.

use crate::vals::canon;
use std::collections::HashMap;
use trust_runtime::memory::{InstanceId, MemoryLocation, VariableStorage};
use trust_runtime::value::Value;

pub struct Walker<'a> {
    st: &'a VariableStorage,
    ord: HashMap<u32, usize>,
    visiting: Vec<u32>,
}

impl<'a> Walker<'a> {
    pub fn new(st: &'a VariableStorage) -> Self {
        Walker { st, ord: HashMap::new(), visiting: Vec::new() }
    }

    fn ordinal(&mut self, id: InstanceId) -> usize {
        let n = self.ord.len();
        *self.ord.entry(id.0).or_insert(n)
    }

    /// Visit every leaf (non-container) value reachable from globals and the retain map.
    /// `f(path, value, hidden)`; hidden = name starts with `__` (internal FB state).
    pub fn leaves(&mut self, f: &mut dyn FnMut(&str, &Value, bool)) {
        let globals: Vec<(String, Value)> = self.st.globals().iter().map(|(k, v)| (k.to_string(), v.clone())).collect();
        for (k, v) in globals {
            let hidden = k.starts_with("__");
            self.value(&k, &v, hidden, f);
        }
        let retain: Vec<(String, Value)> = self.st.retain().iter().map(|(k, v)| (format!("<retain>.{k}"), v.clone())).collect();
        for (k, v) in retain {
            self.value(&k, &v, false, f);
        }
    }

    fn value(&mut self, path: &str, v: &Value, hidden: bool, f: &mut dyn FnMut(&str, &Value, bool)) {
        match v {
            Value::Array(a) => {
                for (i, e) in a.elements.iter().enumerate() {
                    self.value(&format!("{path}[{i}]"), e, hidden, f);
                }
            }
            Value::Struct(s) => {
                for (k, e) in s.fields.iter() {
                    self.value(&format!("{path}.{k}"), e, hidden, f);
                }
            }
            Value::Instance(id) => {
                self.ordinal(*id);
                if self.visiting.contains(&id.0) {
                    f(path, &Value::Null, hidden);
                    return;
                }
                self.visiting.push(id.0);
                if let Some(inst) = self.st.get_instance(*id) {
                    let vars: Vec<(String, Value)> = inst.variables.iter().map(|(k, v)| (k.to_string(), v.clone())).collect();
                    for (k, e) in vars {
                        let h = hidden || k.starts_with("__");
                        self.value(&format!("{path}.{k}"), &e, h, f);
                    }
                    // inherited variables live in the parent instance (EXTENDS): same name path
                    if let Some(parent) = inst.parent {
                        self.value(path, &Value::Instance(parent), hidden, f);
                    }
                }
                self.visiting.pop();
            }
            other => f(path, other, hidden),
        }
    }

    pub fn render_leaf(&mut self, v: &Value) -> String {
        match v {
            Value::Reference(None) => "REF#NULL".to_string(),
            Value::Reference(Some(r)) => {
                let loc = match &r.location {
                    MemoryLocation::Instance(id) => format!("inst#{}", self.ordinal(*id)),
                    MemoryLocation::Local(_) => "local".to_string(),
                    other => format!("{other:?}"),
                };
                format!("REF#{loc}+{}{:?}", r.offset, r.path)
            }
            other => canon(other),
        }
    }
}

/// Canonical (path, rendered value) list; hidden FB state included (flagged with a leading '~').
pub fn snapshot(st: &VariableStorage) -> Vec<(String, String)> {
    let mut leaves: Vec<(String, Value, bool)> = Vec::new();
    let mut w = Walker::new(st);
    w.leaves(&mut |p, v, h| leaves.push((p.to_string(), v.clone(), h)));
    leaves.into_iter().map(|(p, v, h)| (if h { format!("~{p}") } else { p }, w.render_leaf(&v))).collect()
}

pub fn digest(st: &VariableStorage) -> u64 {
    crate::ctx::fnv(&snapshot(st))
}

/// First difference between two snapshots, for messages.
pub fn first_diff(a: &[(String, String)], b: &[(String, String)]) -> Option<String> {
    let ma: HashMap<&str, &str> = a.iter().map(|(k, v)| (k.as_str(), v.as_str())).collect();
    let mb: HashMap<&str, &str> = b.iter().map(|(k, v)| (k.as_str(), v.as_str())).collect();
    for (k, v) in a {
        match mb.get(k.as_str()) {
            None => return Some(format!("{k} = {v} vs <absent>")),
            Some(w) if *w != v => return Some(format!("{k} = {v} vs {w}")),
            _ => {}
        }
    }
    for (k, v) in b {
        if !ma.contains_key(k.as_str()) {
            return Some(format!("{k} = <absent> vs {v}"));
        }
    }
    None
}
