//! Small deterministic PRNG (xoshiro256** seeded by splitmix64).

#[derive(Clone, Debug)]
pub struct Rng {
    s: [u64; 4],
}

fn splitmix(x: &mut u64) -> u64 {
    *x = x.wrapping_add(0x9E3779B97F4A7C15);
    let mut z = *x;
    z = (z ^ (z >> 30)).wrapping_mul(0xBF58476D1CE4E5B9);
    z = (z ^ (z >> 27)).wrapping_mul(0x94D049BB133111EB);
    z ^ (z >> 31)
}

impl Rng {
    pub fn new(seed: u64) -> Rng {
        let mut x = seed;
        Rng {
            s: [splitmix(&mut x), splitmix(&mut x), splitmix(&mut x), splitmix(&mut x)],
        }
    }
    /// Derive an independent stream for sub-case `n`.
    pub fn fork(&self, n: u64) -> Rng {
        Rng::new(self.s[0] ^ n.wrapping_mul(0xA24BAED4963EE407) ^ self.s[2].rotate_left(17))
    }
    pub fn next(&mut self) -> u64 {
        let r = self.s[1].wrapping_mul(5).rotate_left(7).wrapping_mul(9);
        let t = self.s[1] << 17;
        self.s[2] ^= self.s[0];
        self.s[3] ^= self.s[1];
        self.s[1] ^= self.s[2];
        self.s[0] ^= self.s[3];
        self.s[2] ^= t;
        self.s[3] = self.s[3].rotate_left(45);
        r
    }
    /// Uniform in [0, n). n must be > 0.
    pub fn below(&mut self, n: u64) -> u64 {
        if n == 0 {
            return 0;
        }
        self.next() % n
    }
    pub fn usize(&mut self, n: usize) -> usize {
        self.below(n as u64) as usize
    }
    /// Inclusive range.
    pub fn range(&mut self, lo: i64, hi: i64) -> i64 {
        if hi <= lo {
            return lo;
        }
        let span = (hi as i128 - lo as i128 + 1) as u128;
        (lo as i128 + (self.next() as u128 % span) as i128) as i64
    }
    pub fn bool(&mut self) -> bool {
        self.next() & 1 == 1
    }
    /// True with probability num/den.
    pub fn chance(&mut self, num: u64, den: u64) -> bool {
        self.below(den) < num
    }
    pub fn pick<'a, T>(&mut self, xs: &'a [T]) -> &'a T {
        &xs[self.usize(xs.len())]
    }
    pub fn shuffle<T>(&mut self, xs: &mut [T]) {
        for i in (1..xs.len()).rev() {
            let j = self.usize(i + 1);
            xs.swap(i, j);
        }
    }
    pub fn f64(&mut self) -> f64 {
        (self.next() >> 11) as f64 / (1u64 << 53) as f64
    }
}
