//! Instrumented I/O driver: logs every call with a global sequence number and a copy of the image,
//! delivers scripted input bytes, can be told to fail.  Monitor state is a Mutex-protected log
//! shared with the engine (all access happens on the cycle thread or after it returned).

use std::sync::atomic::{AtomicU64, Ordering};
use std::sync::{Arc, Mutex};
use trust_runtime::error::RuntimeError;
use trust_runtime::io::IoDriver;

#[derive(Clone, Debug, PartialEq, Eq)]
pub enum Kind {
    Read,
    Write,
}

#[derive(Clone, Debug)]
pub struct Ev {
    pub seq: u64,
    pub driver: usize,
    pub kind: Kind,
    pub image: Vec<u8>,
    pub stmt_count: u64,
}

#[derive(Default)]
pub struct Log {
    pub seq: AtomicU64,
    pub events: Mutex<Vec<Ev>>,
}

impl Log {
    pub fn take(&self) -> Vec<Ev> {
        std::mem::take(&mut *self.events.lock().unwrap())
    }
}

#[derive(Default)]
pub struct Script {
    /// bytes this driver delivers at `lo..lo+bytes.len()` of the input image on the next read
    pub lo: usize,
    pub bytes: Vec<u8>,
    pub reads_this_cycle: u32,
    pub fail_read: bool,
    pub fail_write: bool,
}

pub struct ProbeDriver {
    pub id: usize,
    pub log: Arc<Log>,
    pub script: Arc<Mutex<Script>>,
}

impl ProbeDriver {
    pub fn new(id: usize, log: Arc<Log>) -> (ProbeDriver, Arc<Mutex<Script>>) {
        let script = Arc::new(Mutex::new(Script::default()));
        (ProbeDriver { id, log, script: script.clone() }, script)
    }
}

impl IoDriver for ProbeDriver {
    fn read_inputs(&mut self, inputs: &mut [u8]) -> Result<(), RuntimeError> {
        let mut s = self.script.lock().unwrap();
        s.reads_this_cycle += 1;
        let flip = if s.reads_this_cycle > 1 { 0xff } else { 0 };
        for (i, b) in s.bytes.iter().enumerate() {
            if let Some(slot) = inputs.get_mut(s.lo + i) {
                *slot = *b ^ flip;
            }
        }
        let seq = self.log.seq.fetch_add(1, Ordering::SeqCst);
        self.log.events.lock().unwrap().push(Ev { seq, driver: self.id, kind: Kind::Read, image: inputs.to_vec(), stmt_count: trust_runtime::verif::stmt_count() });
        if s.fail_read {
            return Err(RuntimeError::IoDriver("probe read failure".into()));
        }
        Ok(())
    }
    fn write_outputs(&mut self, outputs: &[u8]) -> Result<(), RuntimeError> {
        let s = self.script.lock().unwrap();
        let seq = self.log.seq.fetch_add(1, Ordering::SeqCst);
        self.log.events.lock().unwrap().push(Ev { seq, driver: self.id, kind: Kind::Write, image: outputs.to_vec(), stmt_count: trust_runtime::verif::stmt_count() });
        if s.fail_write {
            return Err(RuntimeError::IoDriver("probe write failure".into()));
        }
        Ok(())
    }
}
