//! Counting global allocator: live bytes, peak, largest single request, and a cap above which
//! a request is refused (returns null -> `handle_alloc_error` -> abort, attributed by the
//! supervisor through the case journal).  Used by the totality monitors (C10, C11, C12).

use std::alloc::{GlobalAlloc, Layout, System};
use std::sync::atomic::{AtomicUsize, Ordering::Relaxed};

pub struct CountingAlloc;

static LIVE: AtomicUsize = AtomicUsize::new(0);
static PEAK: AtomicUsize = AtomicUsize::new(0);
static LARGEST: AtomicUsize = AtomicUsize::new(0);
static CAP: AtomicUsize = AtomicUsize::new(usize::MAX);

fn note(size: usize) {
    let live = LIVE.fetch_add(size, Relaxed) + size;
    PEAK.fetch_max(live, Relaxed);
    LARGEST.fetch_max(size, Relaxed);
}

fn refuse(size: usize) -> bool {
    if size > CAP.load(Relaxed) {
        // best effort diagnostic without allocating
        let mut buf = [0u8; 96];
        let msg = b"tpv-alloc: refused single request above cap, bytes=";
        buf[..msg.len()].copy_from_slice(msg);
        let mut n = size;
        let mut digits = [0u8; 24];
        let mut d = 0;
        loop {
            digits[d] = b'0' + (n % 10) as u8;
            n /= 10;
            d += 1;
            if n == 0 {
                break;
            }
        }
        let mut p = msg.len();
        while d > 0 {
            d -= 1;
            buf[p] = digits[d];
            p += 1;
        }
        buf[p] = b'\n';
        use std::io::Write;
        let _ = std::io::stderr().write_all(&buf[..=p]);
        true
    } else {
        false
    }
}

unsafe impl GlobalAlloc for CountingAlloc {
    unsafe fn alloc(&self, l: Layout) -> *mut u8 {
        if refuse(l.size()) {
            return std::ptr::null_mut();
        }
        let p = System.alloc(l);
        if !p.is_null() {
            note(l.size());
        }
        p
    }
    unsafe fn alloc_zeroed(&self, l: Layout) -> *mut u8 {
        if refuse(l.size()) {
            return std::ptr::null_mut();
        }
        let p = System.alloc_zeroed(l);
        if !p.is_null() {
            note(l.size());
        }
        p
    }
    unsafe fn dealloc(&self, p: *mut u8, l: Layout) {
        LIVE.fetch_sub(l.size(), Relaxed);
        System.dealloc(p, l)
    }
    unsafe fn realloc(&self, p: *mut u8, l: Layout, new: usize) -> *mut u8 {
        if new > l.size() && refuse(new) {
            return std::ptr::null_mut();
        }
        let q = System.realloc(p, l, new);
        if !q.is_null() {
            LIVE.fetch_sub(l.size(), Relaxed);
            note(new);
        }
        q
    }
}

/// Measure a region: returns (result, peak growth over the live size at entry, largest request).
pub fn measured<T>(cap: usize, f: impl FnOnce() -> T) -> (T, usize, usize) {
    let base = LIVE.load(Relaxed);
    PEAK.store(base, Relaxed);
    LARGEST.store(0, Relaxed);
    CAP.store(cap, Relaxed);
    let r = f();
    CAP.store(usize::MAX, Relaxed);
    let peak = PEAK.load(Relaxed).saturating_sub(base);
    (r, peak, LARGEST.load(Relaxed))
}
