//! Canonical, bit-exact rendering of runtime values (floats by bit pattern).

use trust_runtime::value::Value;

pub fn tag(v: &Value) -> &'static str {
    match v {
        Value::Bool(_) => "BOOL",
        Value::SInt(_) => "SINT",
        Value::Int(_) => "INT",
        Value::DInt(_) => "DINT",
        Value::LInt(_) => "LINT",
        Value::USInt(_) => "USINT",
        Value::UInt(_) => "UINT",
        Value::UDInt(_) => "UDINT",
        Value::ULInt(_) => "ULINT",
        Value::Real(_) => "REAL",
        Value::LReal(_) => "LREAL",
        Value::Byte(_) => "BYTE",
        Value::Word(_) => "WORD",
        Value::DWord(_) => "DWORD",
        Value::LWord(_) => "LWORD",
        Value::Time(_) => "TIME",
        Value::LTime(_) => "LTIME",
        Value::Date(_) => "DATE",
        Value::LDate(_) => "LDATE",
        Value::Tod(_) => "TOD",
        Value::LTod(_) => "LTOD",
        Value::Dt(_) => "DT",
        Value::Ldt(_) => "LDT",
        Value::String(_) => "STRING",
        Value::WString(_) => "WSTRING",
        Value::Char(_) => "CHAR",
        Value::WChar(_) => "WCHAR",
        Value::Array(_) => "ARRAY",
        Value::Struct(_) => "STRUCT",
        Value::Enum(_) => "ENUM",
        Value::Reference(_) => "REF",
        Value::Instance(_) => "INSTANCE",
        Value::Null => "NULL",
    }
}

pub fn canon(v: &Value) -> String {
    let mut s = String::new();
    canon_into(v, &mut s);
    s
}

pub fn canon_into(v: &Value, out: &mut String) {
    use std::fmt::Write;
    match v {
        Value::Real(f) => {
            let _ = write!(out, "REAL#{:08x}", f.to_bits());
        }
        Value::LReal(f) => {
            let _ = write!(out, "LREAL#{:016x}", f.to_bits());
        }
        Value::Array(a) => {
            let _ = write!(out, "ARRAY{:?}[", a.dimensions);
            for (i, e) in a.elements.iter().enumerate() {
                if i > 0 {
                    out.push(',');
                }
                canon_into(e, out);
            }
            out.push(']');
        }
        Value::Struct(s) => {
            let _ = write!(out, "STRUCT {}{{", s.type_name);
            for (i, (k, e)) in s.fields.iter().enumerate() {
                if i > 0 {
                    out.push(',');
                }
                let _ = write!(out, "{k}=");
                canon_into(e, out);
            }
            out.push('}');
        }
        other => {
            let _ = write!(out, "{}#{:?}", tag(other), other);
        }
    }
}
