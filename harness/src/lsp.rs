//! Minimal stdio JSON-RPC client for the trust-lsp binary + a UTF-16 editor buffer model.

use serde_json::{json, Value as J};
use std::io::{BufRead, BufReader, Read, Write};
use std::process::{Child, ChildStdin, Command, Stdio};
use std::sync::mpsc::{channel, Receiver};
use std::time::Duration;

pub struct Lsp {
    child: Child,
    stdin: ChildStdin,
    rx: Receiver<J>,
    next_id: u64,
    pub notifications: Vec<J>,
}

pub fn lsp_binary() -> std::path::PathBuf {
    let target = std::env::var("TPV_TARGET").unwrap_or_else(|_| "/verif/target".into());
    std::path::PathBuf::from(target).join("repo/debug/trust-lsp")
}

impl Lsp {
    pub fn start(init_options: J) -> Result<Lsp, String> {
        let bin = lsp_binary();
        if !bin.exists() {
            return Err(format!("{} not built", bin.display()));
        }
        let mut child = Command::new(bin).stdin(Stdio::piped()).stdout(Stdio::piped()).stderr(Stdio::null()).env("RUST_LOG", "off").spawn().map_err(|e| e.to_string())?;
        let stdin = child.stdin.take().unwrap();
        let stdout = child.stdout.take().unwrap();
        let (tx, rx) = channel();
        std::thread::spawn(move || {
            let mut r = BufReader::new(stdout);
            loop {
                let mut len = 0usize;
                loop {
                    let mut line = String::new();
                    match r.read_line(&mut line) {
                        Ok(0) | Err(_) => return,
                        Ok(_) => {}
                    }
                    let l = line.trim_end();
                    if l.is_empty() {
                        break;
                    }
                    if let Some(v) = l.strip_prefix("Content-Length:") {
                        len = v.trim().parse().unwrap_or(0);
                    }
                }
                let mut buf = vec![0u8; len];
                if r.read_exact(&mut buf).is_err() {
                    return;
                }
                if let Ok(v) = serde_json::from_slice::<J>(&buf) {
                    if tx.send(v).is_err() {
                        return;
                    }
                }
            }
        });
        let mut l = Lsp { child, stdin, rx, next_id: 1, notifications: Vec::new() };
        let caps = json!({"textDocument": {"diagnostic": {"dynamicRegistration": false}, "publishDiagnostics": {}, "semanticTokens": {"requests": {"full": true}, "tokenTypes": [], "tokenModifiers": [], "formats": ["relative"]}, "documentSymbol": {"hierarchicalDocumentSymbolSupport": true}, "rename": {"prepareSupport": true}}, "workspace": {"configuration": false}});
        l.request("initialize", json!({"processId": null, "rootUri": null, "capabilities": caps, "initializationOptions": init_options}))?;
        l.notify("initialized", json!({}));
        Ok(l)
    }

    fn send(&mut self, v: &J) {
        let body = v.to_string();
        let _ = write!(self.stdin, "Content-Length: {}\r\n\r\n{}", body.len(), body);
        let _ = self.stdin.flush();
    }

    pub fn notify(&mut self, method: &str, params: J) {
        self.send(&json!({"jsonrpc": "2.0", "method": method, "params": params}));
    }

    /// Send a request and wait for its response (server->client requests are answered with null).
    pub fn request(&mut self, method: &str, params: J) -> Result<J, String> {
        let id = self.next_id;
        self.next_id += 1;
        self.send(&json!({"jsonrpc": "2.0", "id": id, "method": method, "params": params}));
        loop {
            match self.rx.recv_timeout(Duration::from_secs(30)) {
                Ok(v) => {
                    if v.get("id").and_then(|i| i.as_u64()) == Some(id) && v.get("method").is_none() {
                        if let Some(e) = v.get("error") {
                            return Ok(json!({"__error": e["code"]}));
                        }
                        return Ok(v.get("result").cloned().unwrap_or(J::Null));
                    }
                    if v.get("method").is_some() && v.get("id").is_some() {
                        // a request from the server (e.g. workspace/configuration, registerCapability)
                        let rid = v["id"].clone();
                        self.send(&json!({"jsonrpc": "2.0", "id": rid, "result": null}));
                    } else if v.get("method").is_some() {
                        if self.notifications.len() < 1000 {
                            self.notifications.push(v);
                        }
                    }
                }
                Err(_) => return Err(format!("no response to {method} within 30 s")),
            }
        }
    }

    pub fn open(&mut self, uri: &str, text: &str) {
        self.notify("textDocument/didOpen", json!({"textDocument": {"uri": uri, "languageId": "st", "version": 1, "text": text}}));
    }
    pub fn close(&mut self, uri: &str) {
        self.notify("textDocument/didClose", json!({"textDocument": {"uri": uri}}));
    }
    pub fn alive(&mut self) -> bool {
        matches!(self.child.try_wait(), Ok(None))
    }
}

impl Drop for Lsp {
    fn drop(&mut self) {
        let _ = self.child.kill();
        let _ = self.child.wait();
    }
}

// ------------------------------------------------------------------ UTF-16 editor model

/// Lines are split on '\n' (a preceding '\r' belongs to the line terminator); columns count UTF-16 code units.
#[derive(Clone, Debug)]
pub struct Editor {
    pub text: String,
}

impl Editor {
    pub fn new(text: &str) -> Editor {
        Editor { text: text.to_string() }
    }
    /// byte offsets of line starts
    pub fn line_starts(&self) -> Vec<usize> {
        let mut v = vec![0];
        for (i, b) in self.text.bytes().enumerate() {
            if b == b'\n' {
                v.push(i + 1);
            }
        }
        v
    }
    /// content of a line without its terminator
    pub fn line(&self, n: usize) -> Option<&str> {
        let ls = self.line_starts();
        let start = *ls.get(n)?;
        let end = ls.get(n + 1).map(|e| e - 1).unwrap_or(self.text.len());
        let l = &self.text[start..end];
        Some(l.strip_suffix('\r').unwrap_or(l))
    }
    pub fn line_count(&self) -> usize {
        self.line_starts().len()
    }
    pub fn utf16_len(s: &str) -> usize {
        s.chars().map(|c| c.len_utf16()).sum()
    }
    /// (line, utf16 col) -> byte offset; None if out of bounds or inside a surrogate pair
    pub fn offset(&self, line: usize, col: usize) -> Option<usize> {
        let ls = self.line_starts();
        let start = *ls.get(line)?;
        let l = self.line(line)?;
        let mut c = 0usize;
        for (i, ch) in l.char_indices() {
            if c == col {
                return Some(start + i);
            }
            c += ch.len_utf16();
            if c > col {
                return None;
            }
        }
        if c == col {
            Some(start + l.len())
        } else {
            None
        }
    }
    pub fn position(&self, off: usize) -> (usize, usize) {
        let ls = self.line_starts();
        let line = match ls.binary_search(&off) {
            Ok(i) => i,
            Err(i) => i - 1,
        };
        let start = ls[line];
        (line, Self::utf16_len(&self.text[start..off]))
    }
    /// all valid (line, col) positions
    pub fn positions(&self) -> Vec<(usize, usize)> {
        let mut v = Vec::new();
        for n in 0..self.line_count() {
            let l = self.line(n).unwrap_or("");
            let mut c = 0;
            v.push((n, 0));
            for ch in l.chars() {
                c += ch.len_utf16();
                v.push((n, c));
            }
        }
        v
    }
    pub fn apply(&mut self, start: (usize, usize), end: (usize, usize), text: &str) -> bool {
        let (Some(a), Some(b)) = (self.offset(start.0, start.1), self.offset(end.0, end.1)) else { return false };
        if a > b {
            return false;
        }
        self.text.replace_range(a..b, text);
        true
    }
    /// Apply LSP TextEdits (non-overlapping, any order).
    pub fn apply_edits(&mut self, edits: &[J]) -> Result<(), String> {
        let mut es: Vec<(usize, usize, String)> = Vec::new();
        for e in edits {
            let r = &e["range"];
            let s = (r["start"]["line"].as_u64().unwrap_or(0) as usize, r["start"]["character"].as_u64().unwrap_or(0) as usize);
            let en = (r["end"]["line"].as_u64().unwrap_or(0) as usize, r["end"]["character"].as_u64().unwrap_or(0) as usize);
            let a = self.clamp_offset(s).ok_or(format!("edit start {s:?} not on a character boundary of the editor's text"))?;
            let b = self.clamp_offset(en).ok_or(format!("edit end {en:?} not on a character boundary of the editor's text"))?;
            if a > b {
                return Err(format!("edit range reversed {s:?}..{en:?}"));
            }
            es.push((a, b, e["newText"].as_str().unwrap_or("").to_string()));
        }
        es.sort_by(|x, y| y.0.cmp(&x.0));
        for w in es.windows(2) {
            if w[1].1 > w[0].0 {
                return Err("overlapping edits".into());
            }
        }
        for (a, b, t) in es {
            self.text.replace_range(a..b, &t);
        }
        Ok(())
    }
    /// like offset(), but a line == line_count with col 0 means end of text, and col past EOL clamps (LSP rule)
    pub fn clamp_offset(&self, p: (usize, usize)) -> Option<usize> {
        if p.0 >= self.line_count() {
            return Some(self.text.len());
        }
        let l = self.line(p.0)?;
        let len = Self::utf16_len(l);
        self.offset(p.0, p.1.min(len))
    }
    pub fn in_bounds(&self, p: (usize, usize)) -> bool {
        if p.0 == self.line_count() {
            return p.1 == 0;
        }
        match self.line(p.0) {
            Some(l) => p.1 <= Self::utf16_len(l) && self.offset(p.0, p.1).is_some(),
            None => false,
        }
    }
}
