//! Independent reference evaluator for the generated ST core (C02).
//!
//! Semantics follow IEC 61131-3 and docs/specs 05/06/10 as summarised in DESIGN.md (C02):
//! exact integer arithmetic in the promoted operand type with a fault on overflow, truncating
//! division, MOD with the sign of the dividend, faults on division by zero, REAL in IEEE single /
//! LREAL in double precision with non-finite results faulting, short-circuit AND/OR, FOR bounds
//! evaluated once and tested before each iteration, CASE first match, EXIT/CONTINUE innermost loop,
//! function locals re-initialised per call, FB state persistent, inputs by value, omitted FB inputs
//! keep their previous value.

use crate::gen::*;
use std::collections::BTreeMap;

#[derive(Clone, Debug, PartialEq, Eq)]
pub enum Fault {
    DivZero,
    Overflow,
    Index,
}
impl Fault {
    pub fn class(&self) -> &'static str {
        match self {
            Fault::DivZero => "div0",
            Fault::Overflow => "overflow",
            Fault::Index => "index",
        }
    }
}

#[derive(Clone, Debug)]
pub enum Cell {
    Scalar(Ty, Sv),
    Arr(Ty, i64, Vec<Sv>),
    Struct(Vec<(String, Ty, Sv)>),
    Inst(usize, BTreeMap<String, (Ty, Sv)>),
}

pub type Scope = BTreeMap<String, Cell>;

enum Flow {
    Normal,
    Exit,
    Continue,
    Return,
}

pub fn zero(t: Ty) -> Sv {
    if t.is_real() {
        Sv::F(0.0)
    } else {
        Sv::I(0)
    }
}

fn round(t: Ty, f: f64) -> f64 {
    if t == Ty::Real {
        f as f32 as f64
    } else {
        f
    }
}

/// Convert a value of static type `from` to type `to` (implicit widening conversions only).
pub fn convert(v: Sv, from: Ty, to: Ty) -> Sv {
    match (v, to.is_real()) {
        (Sv::I(x), true) if !from.is_real() => Sv::F(round(to, x as f64)),
        (Sv::F(f), true) => Sv::F(round(to, f)),
        (other, _) => other,
    }
}

pub struct Ref<'a> {
    pub p: &'a Program,
    pub main: Scope,
    pub steps: u64,
}

impl<'a> Ref<'a> {
    pub fn new(p: &'a Program) -> Ref<'a> {
        let mut main = Scope::new();
        for v in &p.vars {
            match v.arr {
                Some((lo, hi)) => {
                    main.insert(v.name.clone(), Cell::Arr(v.ty, lo, vec![zero(v.ty); (hi - lo + 1) as usize]));
                }
                None => {
                    main.insert(v.name.clone(), Cell::Scalar(v.ty, v.init.unwrap_or(zero(v.ty))));
                }
            }
        }
        for (n, fields) in &p.structs {
            main.insert(n.clone(), Cell::Struct(fields.clone()));
        }
        for (n, t) in &p.insts {
            let fb = &p.fbs[*t];
            let mut m = BTreeMap::new();
            for v in fb.inputs.iter().chain(&fb.outputs).chain(&fb.vars) {
                m.insert(v.name.clone(), (v.ty, v.init.unwrap_or(zero(v.ty))));
            }
            main.insert(n.clone(), Cell::Inst(*t, m));
        }
        Ref { p, main, steps: 0 }
    }

    pub fn set_input(&mut self, name: &str, v: Sv) {
        if let Some(Cell::Scalar(_, slot)) = self.main.get_mut(name) {
            *slot = v;
        }
    }

    /// Run one cycle of Main.
    pub fn cycle(&mut self) -> Result<(), Fault> {
        let body = self.p.body.clone();
        let mut scope = std::mem::take(&mut self.main);
        let r = self.block(&body, &mut scope);
        self.main = scope;
        r.map(|_| ())
    }

    fn block(&mut self, stmts: &[Stmt], sc: &mut Scope) -> Result<Flow, Fault> {
        for s in stmts {
            match self.stmt(s, sc)? {
                Flow::Normal => {}
                other => return Ok(other),
            }
        }
        Ok(Flow::Normal)
    }

    fn read_var(&self, sc: &Scope, n: &str) -> Sv {
        match sc.get(n) {
            Some(Cell::Scalar(_, v)) => *v,
            _ => Sv::I(0),
        }
    }

    fn write(&mut self, sc: &mut Scope, lv: &Lv, v: Sv) -> Result<(), Fault> {
        match lv {
            Lv::Var(n, _) => {
                if let Some(Cell::Scalar(_, slot)) = sc.get_mut(n) {
                    *slot = v;
                }
            }
            Lv::Idx(n, ie, _) => {
                let i = match self.eval(ie, sc)? {
                    Sv::I(i) => i,
                    _ => 0,
                };
                if let Some(Cell::Arr(_, lo, els)) = sc.get_mut(n) {
                    let off = i - *lo as i128;
                    if off < 0 || off as usize >= els.len() {
                        return Err(Fault::Index);
                    }
                    els[off as usize] = v;
                }
            }
            Lv::Field(n, f, _) => match sc.get_mut(n) {
                Some(Cell::Struct(fs)) => {
                    if let Some(slot) = fs.iter_mut().find(|x| x.0 == *f) {
                        slot.2 = v;
                    }
                }
                Some(Cell::Inst(_, m)) => {
                    if let Some(slot) = m.get_mut(f) {
                        slot.1 = v;
                    }
                }
                _ => {}
            },
        }
        Ok(())
    }

    fn stmt(&mut self, s: &Stmt, sc: &mut Scope) -> Result<Flow, Fault> {
        self.steps += 1;
        match s {
            Stmt::Assign(lv, e) => {
                let v = self.eval(e, sc)?;
                let v = convert(v, e.ty(), lv.ty());
                self.write(sc, lv, v)?;
            }
            Stmt::If(c, t, ei, el) => {
                if self.truth(c, sc)? {
                    return self.block(t, sc);
                }
                for (c2, b) in ei {
                    if self.truth(c2, sc)? {
                        return self.block(b, sc);
                    }
                }
                return self.block(el, sc);
            }
            Stmt::Case(sel, arms, el) => {
                let v = match self.eval(sel, sc)? {
                    Sv::I(i) => i,
                    _ => 0,
                };
                for (labels, b) in arms {
                    for l in labels {
                        let hit = match l {
                            Label::One(x) => *x as i128 == v,
                            Label::Range(a, b) => v >= *a as i128 && v <= *b as i128,
                        };
                        if hit {
                            return self.block(b, sc);
                        }
                    }
                }
                return self.block(el, sc);
            }
            Stmt::For { var, vty, from, to, by, body, reset } => {
                let int = |v: Sv| match v {
                    Sv::I(i) => i,
                    Sv::F(f) => f as i128,
                };
                let start = int(self.eval(from, sc)?);
                let end = int(self.eval(to, sc)?);
                let step = match by {
                    Some(b) => int(self.eval(b, sc)?),
                    None => 1,
                };
                let mut cur = start;
                let lv = Lv::Var(var.clone(), *vty);
                self.write(sc, &lv, Sv::I(cur))?;
                loop {
                    if (step > 0 && cur > end) || (step < 0 && cur < end) || step == 0 {
                        break;
                    }
                    match self.block(body, sc)? {
                        Flow::Exit => break,
                        Flow::Return => return Ok(Flow::Return),
                        _ => {}
                    }
                    cur += step;
                    if cur < vty.tmin() || cur > vty.tmax() {
                        // the end value has been passed: the loop is over (the control variable keeps its last value)
                        break;
                    }
                    self.write(sc, &lv, Sv::I(cur))?;
                }
                if *reset {
                    self.write(sc, &lv, Sv::I(0))?;
                }
            }
            Stmt::While { cond, guard, bound, body } => {
                let g = Lv::Var(guard.clone(), Ty::DInt);
                self.write(sc, &g, Sv::I(0))?;
                loop {
                    // (cond) AND (guard < bound): short-circuit
                    if !self.truth(cond, sc)? {
                        break;
                    }
                    let gv = match self.read_var(sc, guard) {
                        Sv::I(i) => i,
                        _ => 0,
                    };
                    if gv >= *bound as i128 {
                        break;
                    }
                    self.write(sc, &g, Sv::I(gv + 1))?;
                    match self.block(body, sc)? {
                        Flow::Exit => break,
                        Flow::Return => return Ok(Flow::Return),
                        _ => {}
                    }
                }
            }
            Stmt::Repeat { body, until, guard, bound } => {
                let g = Lv::Var(guard.clone(), Ty::DInt);
                self.write(sc, &g, Sv::I(0))?;
                loop {
                    let gv = match self.read_var(sc, guard) {
                        Sv::I(i) => i,
                        _ => 0,
                    };
                    self.write(sc, &g, Sv::I(gv + 1))?;
                    match self.block(body, sc)? {
                        Flow::Exit => break,
                        Flow::Return => return Ok(Flow::Return),
                        _ => {}
                    }
                    // (until) OR (guard >= bound): short-circuit
                    if self.truth(until, sc)? {
                        break;
                    }
                    let gv = match self.read_var(sc, guard) {
                        Sv::I(i) => i,
                        _ => 0,
                    };
                    if gv >= *bound as i128 {
                        break;
                    }
                }
            }
            Stmt::Exit => return Ok(Flow::Exit),
            Stmt::Continue => return Ok(Flow::Continue),
            Stmt::Return => return Ok(Flow::Return),
            Stmt::FbCall(inst, args, outs) => {
                // evaluate arguments in the caller's scope, by value
                let mut vals = Vec::new();
                for (n, e) in args {
                    vals.push((n.clone(), self.eval(e, sc)?, e.ty()));
                }
                self.run_fb(inst, vals, sc)?;
                // bound outputs are copied to their targets when the body completed (normally or through RETURN)
                for (n, target) in outs {
                    let v = match sc.get(inst) {
                        Some(Cell::Inst(_, m)) => m.get(n).map(|(_, v)| *v),
                        _ => None,
                    };
                    if let (Some(v), Lv::Var(name, _)) = (v, target) {
                        if let Some(Cell::Scalar(_, slot)) = sc.get_mut(name) {
                            *slot = v;
                        }
                    }
                }
            }
            Stmt::FbCallNoArgs(inst) => {
                self.run_fb(inst, vec![], sc)?;
            }
        }
        Ok(Flow::Normal)
    }

    fn run_fb(&mut self, inst: &str, vals: Vec<(String, Sv, Ty)>, sc: &mut Scope) -> Result<(), Fault> {
        let Some(Cell::Inst(t, m)) = sc.get(inst).cloned() else { return Ok(()) };
        let fb = &self.p.fbs[t];
        let mut local = Scope::new();
        for (k, (ty, v)) in &m {
            local.insert(k.clone(), Cell::Scalar(*ty, *v));
        }
        for (n, v, from) in vals {
            if let Some(Cell::Scalar(ty, slot)) = local.get_mut(&n) {
                *slot = convert(v, from, *ty);
            }
        }
        let body = fb.body.clone();
        let r = self.block(&body, &mut local);
        // state is kept even when the body faulted part-way
        let mut m2 = BTreeMap::new();
        for (k, c) in local {
            if let Cell::Scalar(ty, v) = c {
                m2.insert(k, (ty, v));
            }
        }
        sc.insert(inst.to_string(), Cell::Inst(t, m2));
        r.map(|_| ())
    }

    fn truth(&mut self, e: &Expr, sc: &mut Scope) -> Result<bool, Fault> {
        Ok(matches!(self.eval(e, sc)?, Sv::I(x) if x != 0))
    }

    fn as_f(v: Sv) -> f64 {
        match v {
            Sv::I(i) => i as f64,
            Sv::F(f) => f,
        }
    }

    pub fn eval(&mut self, e: &Expr, sc: &mut Scope) -> Result<Sv, Fault> {
        Ok(match e {
            Expr::Lit(_, v) => *v,
            Expr::RawInt(v) => Sv::I(*v as i128),
            Expr::Var(n, _) => self.read_var(sc, n),
            Expr::Idx(n, ie, _) => {
                let i = match self.eval(ie, sc)? {
                    Sv::I(i) => i,
                    _ => 0,
                };
                match sc.get(n) {
                    Some(Cell::Arr(_, lo, els)) => {
                        let off = i - *lo as i128;
                        if off < 0 || off as usize >= els.len() {
                            return Err(Fault::Index);
                        }
                        els[off as usize]
                    }
                    _ => Sv::I(0),
                }
            }
            Expr::Field(n, f, _) => match sc.get(n) {
                Some(Cell::Struct(fs)) => fs.iter().find(|x| x.0 == *f).map(|x| x.2).unwrap_or(Sv::I(0)),
                Some(Cell::Inst(_, m)) => m.get(f).map(|x| x.1).unwrap_or(Sv::I(0)),
                _ => Sv::I(0),
            },
            Expr::Un(UnOp::Not, x, _) => Sv::I(if self.truth(x, sc)? { 0 } else { 1 }),
            Expr::Un(UnOp::Neg, x, t) => match self.eval(x, sc)? {
                Sv::I(i) => {
                    let r = -i;
                    if r < t.tmin() || r > t.tmax() {
                        return Err(Fault::Overflow);
                    }
                    Sv::I(r)
                }
                Sv::F(f) => Sv::F(-f),
            },
            Expr::Bin(op, l, r, t) => {
                match op {
                    BinOp::And => {
                        if !self.truth(l, sc)? {
                            return Ok(Sv::I(0));
                        }
                        return Ok(Sv::I(self.truth(r, sc)? as i128));
                    }
                    BinOp::Or => {
                        if self.truth(l, sc)? {
                            return Ok(Sv::I(1));
                        }
                        return Ok(Sv::I(self.truth(r, sc)? as i128));
                    }
                    BinOp::Xor => {
                        let a = self.truth(l, sc)?;
                        let b = self.truth(r, sc)?;
                        return Ok(Sv::I((a ^ b) as i128));
                    }
                    _ => {}
                }
                let a = self.eval(l, sc)?;
                let b = self.eval(r, sc)?;
                let (lt, rt) = (l.ty(), r.ty());
                match op {
                    BinOp::Eq | BinOp::Ne | BinOp::Lt | BinOp::Le | BinOp::Gt | BinOp::Ge => {
                        let w = if lt.is_numeric() && rt.is_numeric() { Ty::wider(lt, rt) } else { lt };
                        let ord = if w.is_real() {
                            let (x, y) = (round(w, Self::as_f(a)), round(w, Self::as_f(b)));
                            x.partial_cmp(&y)
                        } else {
                            match (a, b) {
                                (Sv::I(x), Sv::I(y)) => Some(x.cmp(&y)),
                                _ => None,
                            }
                        };
                        use std::cmp::Ordering::*;
                        let res = match (op, ord) {
                            (BinOp::Eq, Some(Equal)) => true,
                            (BinOp::Ne, Some(Equal)) => false,
                            (BinOp::Ne, _) => true,
                            (BinOp::Lt, Some(Less)) => true,
                            (BinOp::Le, Some(Less | Equal)) => true,
                            (BinOp::Gt, Some(Greater)) => true,
                            (BinOp::Ge, Some(Greater | Equal)) => true,
                            _ => false,
                        };
                        Sv::I(res as i128)
                    }
                    _ if t.is_real() => {
                        let x = round(*t, Self::as_f(convert(a, lt, *t)));
                        let y = round(*t, Self::as_f(convert(b, rt, *t)));
                        if matches!(op, BinOp::Div) && y == 0.0 {
                            return Err(Fault::DivZero);
                        }
                        let r = match op {
                            BinOp::Add => x + y,
                            BinOp::Sub => x - y,
                            BinOp::Mul => x * y,
                            BinOp::Div => x / y,
                            _ => x,
                        };
                        let r = round(*t, r);
                        if !r.is_finite() {
                            return Err(Fault::Overflow);
                        }
                        Sv::F(r)
                    }
                    _ => {
                        let (Sv::I(x), Sv::I(y)) = (a, b) else { return Ok(Sv::I(0)) };
                        let r = match op {
                            BinOp::Add => x + y,
                            BinOp::Sub => x - y,
                            BinOp::Mul => x * y,
                            BinOp::Div => {
                                if y == 0 {
                                    return Err(Fault::DivZero);
                                }
                                x / y
                            }
                            BinOp::Mod => {
                                if y == 0 {
                                    return Err(Fault::DivZero);
                                }
                                x % y
                            }
                            _ => x,
                        };
                        if r < t.tmin() || r > t.tmax() {
                            return Err(Fault::Overflow);
                        }
                        Sv::I(r)
                    }
                }
            }
            Expr::Call(f, args, _, _) => {
                let func = self.p.funcs.iter().find(|x| x.name == *f).expect("function").clone();
                let mut local = Scope::new();
                for (i, p) in func.params.iter().enumerate() {
                    // named and positional calls bind the same parameter here (generator keeps declaration order)
                    let (_, ae) = &args[i];
                    let v = self.eval(ae, sc)?;
                    local.insert(p.name.clone(), Cell::Scalar(p.ty, convert(v, ae.ty(), p.ty)));
                }
                for l in &func.locals {
                    local.insert(l.name.clone(), Cell::Scalar(l.ty, l.init.unwrap_or(zero(l.ty))));
                }
                local.insert(func.name.clone(), Cell::Scalar(func.ret, zero(func.ret)));
                self.block(&func.body, &mut local)?;
                match local.get(&func.name) {
                    Some(Cell::Scalar(_, v)) => *v,
                    _ => zero(func.ret),
                }
            }
            Expr::Conv(..) | Expr::Std(..) => Sv::I(0),
        })
    }

    /// Canonical state: (path relative to Main, declared type, value)
    pub fn snapshot(&self) -> Vec<(String, Ty, Sv)> {
        let mut out = Vec::new();
        for (n, c) in &self.main {
            match c {
                Cell::Scalar(t, v) => out.push((n.clone(), *t, *v)),
                Cell::Arr(t, _, els) => {
                    for (i, v) in els.iter().enumerate() {
                        out.push((format!("{n}[{i}]"), *t, *v));
                    }
                }
                Cell::Struct(fs) => {
                    for (f, t, v) in fs {
                        out.push((format!("{n}.{f}"), *t, *v));
                    }
                }
                Cell::Inst(_, m) => {
                    for (k, (t, v)) in m {
                        out.push((format!("{n}.{k}"), *t, *v));
                    }
                }
            }
        }
        out
    }
}
