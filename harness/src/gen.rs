//! Typed ST program generator (own AST, independent of the repo's) + pretty printer.
//!
//! Well-typed by construction under the checker's rules: arithmetic only between operands of one
//! signedness family (or int/real where `types_compatible` widens), every identifier spelled as
//! declared, every literal typed — unless a *feature switch* deliberately deviates.  Every loop has
//! a static trip bound.  Features used by a program are recorded and become part of violation
//! signatures.

use crate::rng::Rng;
use std::collections::BTreeSet;
use std::fmt::Write;

#[derive(Clone, Copy, Debug, PartialEq, Eq, Hash, PartialOrd, Ord)]
pub enum Ty {
    Bool,
    SInt,
    Int,
    DInt,
    LInt,
    USInt,
    UInt,
    UDInt,
    ULInt,
    Real,
    LReal,
    Byte,
    Word,
    DWord,
    LWord,
    Time,
}
use Ty::*;

pub const INTS: [Ty; 8] = [SInt, Int, DInt, LInt, USInt, UInt, UDInt, ULInt];
pub const SIGNED: [Ty; 4] = [SInt, Int, DInt, LInt];
pub const UNSIGNED: [Ty; 4] = [USInt, UInt, UDInt, ULInt];
pub const BITS: [Ty; 4] = [Byte, Word, DWord, LWord];
pub const NUMERIC: [Ty; 10] = [SInt, Int, DInt, LInt, USInt, UInt, UDInt, ULInt, Real, LReal];
pub const ALL: [Ty; 16] = [Bool, SInt, Int, DInt, LInt, USInt, UInt, UDInt, ULInt, Real, LReal, Byte, Word, DWord, LWord, Time];

impl Ty {
    pub fn name(self) -> &'static str {
        match self {
            Bool => "BOOL",
            SInt => "SINT",
            Int => "INT",
            DInt => "DINT",
            LInt => "LINT",
            USInt => "USINT",
            UInt => "UINT",
            UDInt => "UDINT",
            ULInt => "ULINT",
            Real => "REAL",
            LReal => "LREAL",
            Byte => "BYTE",
            Word => "WORD",
            DWord => "DWORD",
            LWord => "LWORD",
            Time => "TIME",
        }
    }
    pub fn from_name(n: &str) -> Option<Ty> {
        ALL.iter().copied().find(|t| t.name() == n)
    }
    pub fn is_int(self) -> bool {
        INTS.contains(&self)
    }
    pub fn is_signed(self) -> bool {
        SIGNED.contains(&self)
    }
    pub fn is_unsigned(self) -> bool {
        UNSIGNED.contains(&self)
    }
    pub fn is_real(self) -> bool {
        matches!(self, Real | LReal)
    }
    pub fn is_numeric(self) -> bool {
        self.is_int() || self.is_real()
    }
    pub fn is_bits(self) -> bool {
        BITS.contains(&self)
    }
    pub fn tmin(self) -> i128 {
        match self {
            SInt => i8::MIN as i128,
            Int => i16::MIN as i128,
            DInt => i32::MIN as i128,
            LInt => i64::MIN as i128,
            Time => i64::MIN as i128,
            _ => 0,
        }
    }
    pub fn tmax(self) -> i128 {
        match self {
            Bool => 1,
            SInt => i8::MAX as i128,
            Int => i16::MAX as i128,
            DInt => i32::MAX as i128,
            LInt | Time => i64::MAX as i128,
            USInt | Byte => u8::MAX as i128,
            UInt | Word => u16::MAX as i128,
            UDInt | DWord => u32::MAX as i128,
            ULInt | LWord => u64::MAX as i128,
            Real | LReal => 0,
        }
    }
    /// rank in the checker's / runtime's widening order
    pub fn rank(self) -> u8 {
        NUMERIC.iter().position(|t| *t == self).map(|p| p as u8).unwrap_or(255)
    }
    pub fn wider(a: Ty, b: Ty) -> Ty {
        if a.rank() >= b.rank() {
            a
        } else {
            b
        }
    }
    /// Types the checker lets you assign to a variable of this type (incl. itself).
    pub fn sources(self) -> Vec<Ty> {
        let mut v = vec![self];
        match self {
            Int => v.extend([SInt]),
            DInt => v.extend([SInt, Int]),
            LInt => v.extend([SInt, Int, DInt]),
            UInt => v.extend([USInt]),
            UDInt => v.extend([USInt, UInt]),
            ULInt => v.extend([USInt, UInt, UDInt]),
            Real => v.extend([SInt, Int, DInt]),
            LReal => v.extend([SInt, Int, DInt, LInt, Real]),
            Word => v.extend([Byte]),
            DWord => v.extend([Byte, Word]),
            LWord => v.extend([Byte, Word, DWord]),
            _ => {}
        }
        v
    }
}

/// A scalar value in the reference domain: integers/bit strings/time/bool as i128, reals as f64.
#[derive(Clone, Copy, Debug, PartialEq)]
pub enum Sv {
    I(i128),
    F(f64),
}

pub fn lit_text(t: Ty, v: Sv) -> String {
    match (t, v) {
        (Bool, Sv::I(x)) => (if x != 0 { "TRUE" } else { "FALSE" }).to_string(),
        (Real | LReal, Sv::F(f)) => {
            let mut s = format!("{f:?}");
            if !s.contains('.') && !s.contains('e') && !s.contains("inf") && !s.contains("NaN") {
                s.push_str(".0");
            }
            // Rust prints 1e30 as "1e30": ST needs a mantissa with a dot
            if s.contains('e') && !s.contains('.') {
                let (m, e) = s.split_once('e').unwrap();
                s = format!("{m}.0e{e}");
            }
            format!("{}#{}", t.name(), s)
        }
        (Byte | Word | DWord | LWord, Sv::I(x)) => format!("{}#16#{:X}", t.name(), x),
        (Time, Sv::I(x)) => {
            // nanoseconds, printed with ms/us/ns components so every i64 is expressible
            let neg = x < 0;
            let a = x.unsigned_abs();
            let (ms, us, ns) = (a / 1_000_000, (a / 1000) % 1000, a % 1000);
            let mut s = String::new();
            if ms > 0 || (us == 0 && ns == 0) {
                let _ = write!(s, "{ms}ms");
            }
            if us > 0 {
                let _ = write!(s, "{us}us");
            }
            if ns > 0 {
                let _ = write!(s, "{ns}ns");
            }
            format!("T#{}{}", if neg { "-" } else { "" }, s)
        }
        (_, Sv::I(x)) => format!("{}#{}", t.name(), x),
        (_, Sv::F(f)) => format!("{}#{}", t.name(), f),
    }
}

#[derive(Clone, Copy, Debug, PartialEq, Eq, Hash)]
pub enum UnOp {
    Neg,
    Not,
}
#[derive(Clone, Copy, Debug, PartialEq, Eq, Hash)]
pub enum BinOp {
    Add,
    Sub,
    Mul,
    Div,
    Mod,
    Pow,
    Eq,
    Ne,
    Lt,
    Le,
    Gt,
    Ge,
    And,
    Or,
    Xor,
}
impl BinOp {
    pub fn text(self) -> &'static str {
        match self {
            BinOp::Add => "+",
            BinOp::Sub => "-",
            BinOp::Mul => "*",
            BinOp::Div => "/",
            BinOp::Mod => "MOD",
            BinOp::Pow => "**",
            BinOp::Eq => "=",
            BinOp::Ne => "<>",
            BinOp::Lt => "<",
            BinOp::Le => "<=",
            BinOp::Gt => ">",
            BinOp::Ge => ">=",
            BinOp::And => "AND",
            BinOp::Or => "OR",
            BinOp::Xor => "XOR",
        }
    }
    pub fn prec(self) -> u8 {
        // IEC 61131-3 Table 71 (higher binds tighter)
        match self {
            BinOp::Pow => 8,
            BinOp::Mul | BinOp::Div | BinOp::Mod => 6,
            BinOp::Add | BinOp::Sub => 5,
            BinOp::Lt | BinOp::Le | BinOp::Gt | BinOp::Ge => 4,
            BinOp::Eq | BinOp::Ne => 3,
            BinOp::And => 2,
            BinOp::Xor => 1,
            BinOp::Or => 0,
        }
    }
}

#[derive(Clone, Debug)]
pub enum Expr {
    Lit(Ty, Sv),
    /// an untyped literal as written in source (feature `untyped-literal`); static type = smallest fit
    RawInt(i64),
    Var(String, Ty),
    Idx(String, Box<Expr>, Ty),
    Field(String, String, Ty),
    Un(UnOp, Box<Expr>, Ty),
    Bin(BinOp, Box<Expr>, Box<Expr>, Ty),
    /// user function call, positional (false) or named (true)
    Call(String, Vec<(String, Expr)>, bool, Ty),
    /// conversion function FROM_TO_TO
    Conv(Ty, Box<Expr>, Ty),
    /// standard function by name (C01 only; the reference does not evaluate these)
    Std(String, Vec<Expr>, Ty),
}

impl Expr {
    pub fn ty(&self) -> Ty {
        match self {
            Expr::Lit(t, _) | Expr::Var(_, t) | Expr::Idx(_, _, t) | Expr::Field(_, _, t) | Expr::Un(_, _, t) | Expr::Bin(_, _, _, t) | Expr::Call(_, _, _, t) | Expr::Conv(_, _, t) | Expr::Std(_, _, t) => *t,
            Expr::RawInt(v) => {
                if *v >= i8::MIN as i64 && *v <= i8::MAX as i64 {
                    SInt
                } else if *v >= i16::MIN as i64 && *v <= i16::MAX as i64 {
                    Int
                } else if *v >= i32::MIN as i64 && *v <= i32::MAX as i64 {
                    DInt
                } else {
                    LInt
                }
            }
        }
    }
}

#[derive(Clone, Debug)]
pub enum Lv {
    Var(String, Ty),
    Idx(String, Expr, Ty),
    Field(String, String, Ty),
}
impl Lv {
    pub fn ty(&self) -> Ty {
        match self {
            Lv::Var(_, t) | Lv::Idx(_, _, t) | Lv::Field(_, _, t) => *t,
        }
    }
}

#[derive(Clone, Debug)]
pub enum Label {
    One(i64),
    Range(i64, i64),
}

#[derive(Clone, Debug)]
pub enum Stmt {
    Assign(Lv, Expr),
    If(Expr, Vec<Stmt>, Vec<(Expr, Vec<Stmt>)>, Vec<Stmt>),
    Case(Expr, Vec<(Vec<Label>, Vec<Stmt>)>, Vec<Stmt>),
    /// FOR var := from TO to [BY by] DO body; `reset` re-assigns the control variable afterwards
    For { var: String, vty: Ty, from: Expr, to: Expr, by: Option<Expr>, body: Vec<Stmt>, reset: bool },
    /// WHILE cond AND guard < bound DO guard := guard + 1; body
    While { cond: Expr, guard: String, bound: i64, body: Vec<Stmt> },
    Repeat { body: Vec<Stmt>, until: Expr, guard: String, bound: i64 },
    Exit,
    Continue,
    Return,
    /// FB invocation: inst(in := e, ..., out => target, ...); outputs are also read through member access afterwards
    FbCall(String, Vec<(String, Expr)>, Vec<(String, Lv)>),
    /// fb() without arguments (feature)
    FbCallNoArgs(String),
}

#[derive(Clone, Debug)]
pub struct Var {
    pub name: String,
    pub ty: Ty,
    pub init: Option<Sv>,
    /// array bounds when this is ARRAY[lo..hi] OF ty
    pub arr: Option<(i64, i64)>,
    /// subrange bounds when declared as ty(lo..hi)
    pub sub: Option<(i64, i64)>,
    pub role: &'static str,
}

#[derive(Clone, Debug)]
pub struct Func {
    pub name: String,
    pub ret: Ty,
    pub params: Vec<Var>,
    pub locals: Vec<Var>,
    pub body: Vec<Stmt>,
}

#[derive(Clone, Debug)]
pub struct FbType {
    pub name: String,
    pub inputs: Vec<Var>,
    pub outputs: Vec<Var>,
    pub inouts: Vec<Var>,
    pub vars: Vec<Var>,
    pub body: Vec<Stmt>,
}

#[derive(Clone, Debug)]
pub struct Program {
    pub funcs: Vec<Func>,
    pub fbs: Vec<FbType>,
    pub vars: Vec<Var>,
    /// struct variables: (var name, [(field, ty, init)])
    pub structs: Vec<(String, Vec<(String, Ty, Sv)>)>,
    /// FB instances in Main: (instance name, fb type index)
    pub insts: Vec<(String, usize)>,
    pub body: Vec<Stmt>,
    /// names of Main variables the harness overwrites before every cycle
    pub inputs: Vec<String>,
    pub features: BTreeSet<String>,
    /// upper bound on executed statements per cycle
    pub step_bound: u64,
}

pub const STRUCT_FIELDS: [(&str, Ty); 4] = [("fa", Int), ("fb", DInt), ("fc", Bool), ("fd", Real)];

// ------------------------------------------------------------------ printing

pub fn expr_text(e: &Expr) -> String {
    print_expr(e, 0, false)
}

fn print_expr(e: &Expr, parent_prec: u8, right_side: bool) -> String {
    match e {
        Expr::Lit(t, v) => {
            let s = lit_text(*t, *v);
            s
        }
        Expr::RawInt(v) => {
            if *v < 0 {
                format!("({v})")
            } else {
                v.to_string()
            }
        }
        Expr::Var(n, _) => n.clone(),
        Expr::Idx(n, i, _) => format!("{n}[{}]", print_expr(i, 0, false)),
        Expr::Field(n, f, _) => format!("{n}.{f}"),
        Expr::Un(UnOp::Neg, x, _) => format!("-({})", print_expr(x, 0, false)),
        Expr::Un(UnOp::Not, x, _) => format!("NOT ({})", print_expr(x, 0, false)),
        Expr::Bin(op, l, r, _) => {
            let p = op.prec();
            // IEC: equal precedence associates left-to-right, so a right operand of equal precedence needs parentheses
            let s = format!("{} {} {}", print_expr(l, p, false), op.text(), print_expr(r, p, true));
            if p < parent_prec || (p == parent_prec && right_side) {
                format!("({s})")
            } else {
                s
            }
        }
        Expr::Call(f, args, named, _) => {
            let a: Vec<String> = args.iter().map(|(n, x)| if *named { format!("{n} := {}", print_expr(x, 0, false)) } else { print_expr(x, 0, false) }).collect();
            format!("{f}({})", a.join(", "))
        }
        Expr::Conv(from, x, to) => format!("{}_TO_{}({})", from.name(), to.name(), print_expr(x, 0, false)),
        Expr::Std(f, args, _) => format!("{f}({})", args.iter().map(|x| print_expr(x, 0, false)).collect::<Vec<_>>().join(", ")),
    }
}

fn lv_text(l: &Lv) -> String {
    match l {
        Lv::Var(n, _) => n.clone(),
        Lv::Idx(n, i, _) => format!("{n}[{}]", expr_text(i)),
        Lv::Field(n, f, _) => format!("{n}.{f}"),
    }
}

fn print_stmts(out: &mut String, stmts: &[Stmt], ind: usize) {
    let pad = "  ".repeat(ind);
    for s in stmts {
        match s {
            Stmt::Assign(l, e) => {
                let _ = writeln!(out, "{pad}{} := {};", lv_text(l), expr_text(e));
            }
            Stmt::If(c, t, ei, el) => {
                let _ = writeln!(out, "{pad}IF {} THEN", expr_text(c));
                print_stmts(out, t, ind + 1);
                for (c2, b) in ei {
                    let _ = writeln!(out, "{pad}ELSIF {} THEN", expr_text(c2));
                    print_stmts(out, b, ind + 1);
                }
                if !el.is_empty() {
                    let _ = writeln!(out, "{pad}ELSE");
                    print_stmts(out, el, ind + 1);
                }
                let _ = writeln!(out, "{pad}END_IF;");
            }
            Stmt::Case(sel, arms, el) => {
                let _ = writeln!(out, "{pad}CASE {} OF", expr_text(sel));
                for (labels, b) in arms {
                    let l: Vec<String> = labels
                        .iter()
                        .map(|l| match l {
                            Label::One(v) => v.to_string(),
                            Label::Range(a, b) => format!("{a}..{b}"),
                        })
                        .collect();
                    let _ = writeln!(out, "{pad}  {}:", l.join(", "));
                    print_stmts(out, b, ind + 2);
                }
                if !el.is_empty() {
                    let _ = writeln!(out, "{pad}ELSE");
                    print_stmts(out, el, ind + 2);
                }
                let _ = writeln!(out, "{pad}END_CASE;");
            }
            Stmt::For { var, vty, from, to, by, body, reset } => {
                let by_s = by.as_ref().map(|b| format!(" BY {}", expr_text(b))).unwrap_or_default();
                let _ = writeln!(out, "{pad}FOR {var} := {} TO {}{by_s} DO", expr_text(from), expr_text(to));
                print_stmts(out, body, ind + 1);
                let _ = writeln!(out, "{pad}END_FOR;");
                if *reset {
                    let _ = writeln!(out, "{pad}{var} := {};", lit_text(*vty, Sv::I(0)));
                }
            }
            Stmt::While { cond, guard, bound, body } => {
                let _ = writeln!(out, "{pad}{guard} := DINT#0;");
                let _ = writeln!(out, "{pad}WHILE ({}) AND ({guard} < DINT#{bound}) DO", expr_text(cond));
                let _ = writeln!(out, "{pad}  {guard} := {guard} + DINT#1;");
                print_stmts(out, body, ind + 1);
                let _ = writeln!(out, "{pad}END_WHILE;");
            }
            Stmt::Repeat { body, until, guard, bound } => {
                let _ = writeln!(out, "{pad}{guard} := DINT#0;");
                let _ = writeln!(out, "{pad}REPEAT");
                let _ = writeln!(out, "{pad}  {guard} := {guard} + DINT#1;");
                print_stmts(out, body, ind + 1);
                let _ = writeln!(out, "{pad}UNTIL ({}) OR ({guard} >= DINT#{bound}) END_REPEAT;", expr_text(until));
            }
            Stmt::Exit => {
                let _ = writeln!(out, "{pad}EXIT;");
            }
            Stmt::Continue => {
                let _ = writeln!(out, "{pad}CONTINUE;");
            }
            Stmt::Return => {
                let _ = writeln!(out, "{pad}RETURN;");
            }
            Stmt::FbCall(inst, args, outs) => {
                let mut a: Vec<String> = args.iter().map(|(n, e)| format!("{n} := {}", expr_text(e))).collect();
                a.extend(outs.iter().map(|(n, l)| format!("{n} => {}", lv_text(l))));
                let _ = writeln!(out, "{pad}{inst}({});", a.join(", "));
            }
            Stmt::FbCallNoArgs(inst) => {
                let _ = writeln!(out, "{pad}{inst}();");
            }
        }
    }
}

fn print_var(out: &mut String, v: &Var) {
    let ty = match (v.arr, v.sub) {
        (Some((lo, hi)), _) => format!("ARRAY[{lo}..{hi}] OF {}", v.ty.name()),
        (_, Some((lo, hi))) => format!("{}({lo}..{hi})", v.ty.name()),
        _ => v.ty.name().to_string(),
    };
    match (v.init, v.arr) {
        (Some(i), None) => {
            let _ = writeln!(out, "  {} : {ty} := {};", v.name, lit_text(v.ty, i));
        }
        _ => {
            let _ = writeln!(out, "  {} : {ty};", v.name);
        }
    }
}

pub fn program_text(p: &Program) -> String {
    let mut s = String::new();
    if !p.structs.is_empty() {
        s += "TYPE S0 : STRUCT\n";
        for (f, t) in STRUCT_FIELDS {
            let _ = writeln!(s, "  {f} : {};", t.name());
        }
        s += "END_STRUCT END_TYPE\n";
    }
    for f in &p.funcs {
        let _ = writeln!(s, "FUNCTION {} : {}", f.name, f.ret.name());
        s += "VAR_INPUT\n";
        for v in &f.params {
            print_var(&mut s, v);
        }
        s += "END_VAR\n";
        if !f.locals.is_empty() {
            s += "VAR\n";
            for v in &f.locals {
                print_var(&mut s, v);
            }
            s += "END_VAR\n";
        }
        print_stmts(&mut s, &f.body, 0);
        s += "END_FUNCTION\n";
    }
    for fb in &p.fbs {
        let _ = writeln!(s, "FUNCTION_BLOCK {}", fb.name);
        for (kw, vs) in [("VAR_INPUT", &fb.inputs), ("VAR_OUTPUT", &fb.outputs), ("VAR_IN_OUT", &fb.inouts), ("VAR", &fb.vars)] {
            if !vs.is_empty() {
                let _ = writeln!(s, "{kw}");
                for v in vs.iter() {
                    print_var(&mut s, v);
                }
                s += "END_VAR\n";
            }
        }
        print_stmts(&mut s, &fb.body, 0);
        s += "END_FUNCTION_BLOCK\n";
    }
    s += "PROGRAM Main\nVAR\n";
    for v in &p.vars {
        print_var(&mut s, v);
    }
    for (n, _) in &p.structs {
        let _ = writeln!(s, "  {n} : S0;");
    }
    for (n, t) in &p.insts {
        let _ = writeln!(s, "  {n} : {};", p.fbs[*t].name);
    }
    s += "END_VAR\n";
    print_stmts(&mut s, &p.body, 0);
    s += "END_PROGRAM\n";
    s
}

// ------------------------------------------------------------------ generation

pub fn boundary(rng: &mut Rng, t: Ty) -> Sv {
    match t {
        Real => Sv::F(*rng.pick(&[0.0, 1.0, -1.0, 0.5, 3.0e38, -3.0e38, 1.0e-30, 7.25, 100.0, -2.5]) as f32 as f64),
        LReal => Sv::F(*rng.pick(&[0.0, 1.0, -1.0, 0.5, 1.7e308, -1.7e308, 1.0e-300, 7.25, 1.0e10, -2.5])),
        Bool => Sv::I(rng.below(2) as i128),
        Time => Sv::I(*rng.pick(&[0i128, 1, 1_000_000, 5_000_000_000, -1_000_000, 86_400_000_000_000, 999])),
        _ => {
            let (lo, hi) = (t.tmin().max(i64::MIN as i128 + 1), t.tmax().min(i64::MAX as i128));
            Sv::I(match rng.below(12) {
                0 => lo,
                1 => lo + 1,
                2 => hi,
                3 => hi - 1,
                4 => 0.clamp(lo, hi),
                5 => 1,
                6 => (-1i128).clamp(lo, hi),
                7 => 2,
                8 => (hi / 2).max(lo),
                9 => rng.range(-20, 20) as i128,
                _ => (rng.range(0, 100) as i128).clamp(lo, hi),
            }
            .clamp(lo, hi))
        }
    }
}

fn small(rng: &mut Rng, t: Ty) -> Sv {
    match t {
        Real | LReal => Sv::F(*rng.pick(&[0.0, 1.0, -1.0, 0.5, 2.0, 7.25, -2.5, 10.0])),
        Bool => Sv::I(rng.below(2) as i128),
        _ => Sv::I((rng.range(-9, 9) as i128).clamp(t.tmin(), t.tmax())),
    }
}

pub struct Gen<'a> {
    pub rng: &'a mut Rng,
    /// variables in scope: (name, type, assignable, array bounds)
    scope: Vec<(String, Ty, bool, Option<(i64, i64)>)>,
    structs: Vec<String>,
    funcs: Vec<(String, Ty, Vec<(String, Ty)>)>,
    /// (inst, [(input, ty)], [(output, ty)])
    insts: Vec<(String, Vec<(String, Ty)>, Vec<(String, Ty)>)>,
    pub features: BTreeSet<String>,
    guards: usize,
    in_loop: usize,
    in_pou: bool,
    depth: usize,
    steps: u64,
    allow_return: bool,
    pub extended: bool, // allow C01-only constructs (std functions, pow, conversions, mixed signedness)
    protected: Vec<String>,
}

impl<'a> Gen<'a> {
    fn vars_of(&self, t: Ty) -> Vec<&(String, Ty, bool, Option<(i64, i64)>)> {
        self.scope.iter().filter(|v| v.1 == t && v.3.is_none()).collect()
    }

    pub fn expr(&mut self, t: Ty, depth: usize) -> Expr {
        let r = self.rng.below(if depth == 0 { 3 } else { 12 });
        match r {
            0 => Expr::Lit(t, if self.rng.chance(1, 3) { boundary(self.rng, t) } else { small(self.rng, t) }),
            1 | 2 | 3 => {
                // a variable of a source type (widening happens implicitly)
                let srcs = t.sources();
                let st = *self.rng.pick(&srcs);
                let cands: Vec<(String, Ty)> = self.vars_of(st).iter().map(|v| (v.0.clone(), v.1)).collect();
                if let Some((n, ty)) = cands.get(self.rng.usize(cands.len().max(1))).cloned() {
                    let e = Expr::Var(n, ty);
                    if ty == t {
                        e
                    } else {
                        // implicit widening is only legal in assignment/argument position; inside an
                        // expression the static type is the operand's own type
                        self.widen(e, t)
                    }
                } else {
                    Expr::Lit(t, small(self.rng, t))
                }
            }
            4 if t == Bool => {
                // comparison
                let ot = *self.rng.pick(&NUMERIC);
                let op = *self.rng.pick(&[BinOp::Eq, BinOp::Ne, BinOp::Lt, BinOp::Le, BinOp::Gt, BinOp::Ge]);
                let l = self.expr(ot, depth - 1);
                let r = self.expr(ot, depth - 1);
                Expr::Bin(op, Box::new(l), Box::new(r), Bool)
            }
            5 if t == Bool => {
                let op = *self.rng.pick(&[BinOp::And, BinOp::Or, BinOp::Xor]);
                // guarded pattern: (d <> 0) AND (n / d > 0) exercises short-circuit
                if self.rng.chance(1, 3) && matches!(op, BinOp::And | BinOp::Or) {
                    let it = *self.rng.pick(&[Int, DInt, UInt]);
                    let d = self.expr(it, 0);
                    let n = self.expr(it, 0);
                    let zero = Expr::Lit(it, Sv::I(0));
                    let (guard_op, div_cmp) = if op == BinOp::And { (BinOp::Ne, BinOp::Ge) } else { (BinOp::Eq, BinOp::Lt) };
                    let g = Expr::Bin(guard_op, Box::new(d.clone()), Box::new(zero.clone()), Bool);
                    let q = Expr::Bin(BinOp::Div, Box::new(n), Box::new(d), it);
                    let c = Expr::Bin(div_cmp, Box::new(q), Box::new(zero), Bool);
                    self.features.insert("short-circuit-guard".into());
                    return Expr::Bin(op, Box::new(g), Box::new(c), Bool);
                }
                let l = self.expr(Bool, depth - 1);
                let r = self.expr(Bool, depth - 1);
                Expr::Bin(op, Box::new(l), Box::new(r), Bool)
            }
            6 if t == Bool => Expr::Un(UnOp::Not, Box::new(self.expr(Bool, depth - 1)), Bool),
            4 | 5 | 6 if t.is_numeric() => {
                let mut ops = vec![BinOp::Add, BinOp::Sub, BinOp::Mul, BinOp::Div];
                if t.is_int() {
                    ops.push(BinOp::Mod);
                }
                if self.extended && self.rng.chance(1, 6) {
                    ops.push(BinOp::Pow);
                }
                let op = *self.rng.pick(&ops);
                if op == BinOp::Pow {
                    self.features.insert("pow".into());
                }
                // operands: both of type t, or one narrower source type of the same family
                let lt = self.operand_ty(t);
                let rt = if lt == t { self.operand_ty(t) } else { t };
                let (lt, rt) = if Ty::wider(lt, rt) == t { (lt, rt) } else { (t, t) };
                let l = self.expr_exact(lt, depth - 1);
                let r = self.expr_exact(rt, depth - 1);
                Expr::Bin(op, Box::new(l), Box::new(r), t)
            }
            7 if t.is_signed() || t.is_real() => Expr::Un(UnOp::Neg, Box::new(self.expr_exact(t, depth - 1)), t),
            8 => {
                // array element / struct field / fb output of the right type
                let arrs: Vec<(String, (i64, i64))> = self.scope.iter().filter(|v| v.1 == t && v.3.is_some()).map(|v| (v.0.clone(), v.3.unwrap())).collect();
                if !arrs.is_empty() && self.rng.bool() {
                    let (n, (lo, hi)) = arrs[self.rng.usize(arrs.len())].clone();
                    let idx = self.index_expr(lo, hi);
                    return Expr::Idx(n, Box::new(idx), t);
                }
                let fields: Vec<&str> = STRUCT_FIELDS.iter().filter(|f| f.1 == t).map(|f| f.0).collect();
                if !fields.is_empty() && !self.structs.is_empty() && self.rng.bool() {
                    let s = self.structs[self.rng.usize(self.structs.len())].clone();
                    return Expr::Field(s, fields[self.rng.usize(fields.len())].to_string(), t);
                }
                let outs: Vec<(String, String)> = self.insts.iter().flat_map(|i| i.2.iter().filter(|o| o.1 == t).map(move |o| (i.0.clone(), o.0.clone()))).collect();
                if !outs.is_empty() {
                    let (i, o) = outs[self.rng.usize(outs.len())].clone();
                    return Expr::Field(i, o, t);
                }
                Expr::Lit(t, small(self.rng, t))
            }
            9 => {
                // user function call
                let fs: Vec<(String, Ty, Vec<(String, Ty)>)> = self.funcs.iter().filter(|f| f.1 == t).cloned().collect();
                if fs.is_empty() || depth == 0 {
                    return Expr::Lit(t, small(self.rng, t));
                }
                let (name, _, params) = fs[self.rng.usize(fs.len())].clone();
                let named = self.rng.bool();
                let args: Vec<(String, Expr)> = params.iter().map(|(pn, pt)| (pn.clone(), self.expr(*pt, depth - 1))).collect();
                self.steps += 40;
                Expr::Call(name, args, named, t)
            }
            10 if self.extended && t.is_int() => {
                let from = *self.rng.pick(&INTS);
                if from == t {
                    return self.expr_exact(t, depth - 1);
                }
                self.features.insert("conversion".into());
                Expr::Conv(from, Box::new(self.expr_exact(from, depth - 1)), t)
            }
            11 if self.extended && t.is_numeric() => {
                self.features.insert("std-function".into());
                match self.rng.below(4) {
                    0 if t.is_signed() || t.is_real() => Expr::Std("ABS".into(), vec![self.expr_exact(t, depth - 1)], t),
                    1 => Expr::Std("MAX".into(), vec![self.expr_exact(t, depth - 1), self.expr_exact(t, depth - 1)], t),
                    2 => Expr::Std("MIN".into(), vec![self.expr_exact(t, depth - 1), self.expr_exact(t, depth - 1)], t),
                    _ => Expr::Std("SEL".into(), vec![self.expr(Bool, 0), self.expr_exact(t, depth - 1), self.expr_exact(t, depth - 1)], t),
                }
            }
            _ => Expr::Lit(t, small(self.rng, t)),
        }
    }

    /// an expression whose *static* type is exactly t
    fn expr_exact(&mut self, t: Ty, depth: usize) -> Expr {
        for _ in 0..4 {
            let e = self.expr(t, depth);
            if e.ty() == t {
                return e;
            }
        }
        Expr::Lit(t, small(self.rng, t))
    }

    fn widen(&mut self, e: Expr, t: Ty) -> Expr {
        // `e + T#0`-style widening keeps everything inside the language: binary op with a literal of type t
        if t.is_numeric() && e.ty().is_numeric() {
            Expr::Bin(BinOp::Add, Box::new(e), Box::new(Expr::Lit(t, if t.is_real() { Sv::F(0.0) } else { Sv::I(0) })), t)
        } else {
            // bit strings have no arithmetic: fall back to a literal
            Expr::Lit(t, small(self.rng, t))
        }
    }

    fn operand_ty(&mut self, t: Ty) -> Ty {
        // same type most of the time; sometimes a narrower member of the same family
        if self.rng.chance(1, 4) {
            // an integer operand of a REAL/LREAL operation must be exactly representable in the real type: IEC leaves open whether
            // DINT op REAL rounds the integer to single precision first (the runtime computes in double and rounds once)
            let exact = |s: Ty| !t.is_real() || s.is_real() || matches!(s, SInt | Int) || (t == LReal && s == DInt);
            let fam: Vec<Ty> = t.sources().into_iter().filter(|s| s.is_numeric() && (s.is_real() == t.is_real() || t.is_real()) && exact(*s)).collect();
            *self.rng.pick(&fam)
        } else {
            t
        }
    }

    fn index_expr(&mut self, lo: i64, hi: i64) -> Expr {
        match self.rng.below(10) {
            0 | 1 | 2 => {
                let cands: Vec<String> = self.vars_of(DInt).iter().map(|v| v.0.clone()).collect();
                if let Some(n) = cands.first() {
                    self.features.insert("index-maybe-out-of-bounds".into());
                    Expr::Var(n.clone(), DInt)
                } else {
                    Expr::Lit(DInt, Sv::I(lo as i128))
                }
            }
            _ => Expr::Lit(DInt, Sv::I(self.rng.range(lo, hi) as i128)),
        }
    }

    fn lvalue(&mut self) -> Option<Lv> {
        let prot = self.protected.clone();
        match self.rng.below(8) {
            0 => {
                let arrs: Vec<(String, Ty, (i64, i64))> = self.scope.iter().filter(|v| v.3.is_some() && v.2).map(|v| (v.0.clone(), v.1, v.3.unwrap())).collect();
                if arrs.is_empty() {
                    return None;
                }
                let (n, t, (lo, hi)) = arrs[self.rng.usize(arrs.len())].clone();
                let i = self.index_expr(lo, hi);
                Some(Lv::Idx(n, i, t))
            }
            1 if !self.structs.is_empty() => {
                let s = self.structs[self.rng.usize(self.structs.len())].clone();
                let (f, t) = *self.rng.pick(&STRUCT_FIELDS);
                Some(Lv::Field(s, f.to_string(), t))
            }
            _ => {
                let c: Vec<(String, Ty)> = self.scope.iter().filter(|v| v.2 && v.3.is_none() && !prot.contains(&v.0)).map(|v| (v.0.clone(), v.1)).collect();
                if c.is_empty() {
                    return None;
                }
                let (n, t) = c[self.rng.usize(c.len())].clone();
                Some(Lv::Var(n, t))
            }
        }
    }

    pub fn nstmts(&mut self, lo: usize, span: usize, depth: usize) -> Vec<Stmt> {
        let n = lo + self.rng.usize(span);
        self.stmts(n, depth)
    }

    pub fn stmts(&mut self, n: usize, depth: usize) -> Vec<Stmt> {
        let mut out = Vec::new();
        for _ in 0..n {
            if let Some(s) = self.stmt(depth) {
                out.push(s);
            }
        }
        out
    }

    fn stmt(&mut self, depth: usize) -> Option<Stmt> {
        self.steps += 1;
        let r = self.rng.below(if depth == 0 { 6 } else { 16 });
        Some(match r {
            0..=5 => {
                let lv = self.lvalue()?;
                let t = lv.ty();
                // sometimes assign an expression of a narrower source type directly (implicit widening)
                let srcs = t.sources();
                let e = if srcs.len() > 1 && self.rng.chance(1, 3) {
                    let st = *self.rng.pick(&srcs);
                    self.features.insert("widening-assign".into());
                    self.expr_exact(st, 1)
                } else {
                    self.expr(t, 2.min(self.depth))
                };
                Stmt::Assign(lv, e)
            }
            6 | 7 => {
                let c = self.expr(Bool, 2);
                let t = self.nstmts(1, 3, depth - 1);
                let ei = if self.rng.chance(1, 3) { vec![(self.expr(Bool, 1), self.nstmts(1, 2, depth - 1))] } else { vec![] };
                let el = if self.rng.bool() { self.nstmts(1, 2, depth - 1) } else { vec![] };
                Stmt::If(c, t, ei, el)
            }
            8 => {
                let st = if self.features.contains("case-unsigned-selector") || self.features.contains("case-unsigned-selector?") { *self.rng.pick(&INTS) } else { *self.rng.pick(&SIGNED) };
                if st.is_unsigned() {
                    self.features.insert("case-unsigned-selector".into());
                }
                let sel = self.expr_exact(st, 1);
                let mut arms = Vec::new();
                let lo = (-3i64).max(st.tmin() as i64);
                let mut next = lo;
                for _ in 0..1 + self.rng.usize(3) {
                    let mut labels = Vec::new();
                    for _ in 0..1 + self.rng.usize(2) {
                        if self.rng.chance(1, 3) {
                            labels.push(Label::Range(next, next + 2));
                            next += 3;
                        } else {
                            labels.push(Label::One(next));
                            next += 1 + self.rng.range(0, 1);
                        }
                    }
                    arms.push((labels, self.nstmts(1, 2, depth - 1)));
                }
                let el = if self.rng.bool() { self.stmts(1, depth - 1) } else { vec![] };
                Stmt::Case(sel, arms, el)
            }
            9 | 10 => {
                // FOR over a dedicated control variable
                let ctl: Vec<(String, Ty)> = self.scope.iter().filter(|v| v.0.starts_with("k_") && !self.protected.contains(&v.0)).map(|v| (v.0.clone(), v.1)).collect();
                if ctl.is_empty() {
                    return None;
                }
                let (var, vty) = ctl[self.rng.usize(ctl.len())].clone();
                let n = self.rng.range(0, 6);
                let a = if self.rng.chance(1, 8) {
                    self.features.insert("for-to-type-limit".into());
                    (vty.tmax().min(i64::MAX as i128) as i64) - n
                } else {
                    self.rng.range(-3, 3).max(vty.tmin() as i64)
                };
                let down = vty.is_signed() && self.rng.chance(1, 4);
                let step = 1 + self.rng.range(0, 2);
                let (from, to, by) = if down { (a + n, a, Some(-step)) } else { (a, a + n, if step == 1 && self.rng.bool() { None } else { Some(step) }) };
                // bounds may be expressions over variables that the body changes (evaluated once!)
                let mut pre_assign: Option<i64> = None;
                let to_e = if self.rng.chance(1, 4) {
                    let c: Vec<String> = self.vars_of(vty).iter().filter(|v| !v.0.starts_with("k_")).map(|v| v.0.clone()).collect();
                    if let Some(nm) = c.first() {
                        self.features.insert("for-bound-variable".into());
                        // clamp through MIN-free arithmetic is not available; use literal + (var - var)
                        Expr::Bin(BinOp::Add, Box::new(Expr::Lit(vty, Sv::I(to as i128))), Box::new(Expr::Bin(BinOp::Sub, Box::new(Expr::Var(nm.clone(), vty)), Box::new(Expr::Var(nm.clone(), vty)), vty)), vty)
                    } else {
                        Expr::Lit(vty, Sv::I(to as i128))
                    }
                } else if self.rng.chance(1, 6) && !self.features.contains("for-to-type-limit") && a.abs() < 100 {
                    // the end value reads the control variable itself: it is evaluated with the value the variable has before the loop
                    // (set to `pre` right before the FOR), not with the initial value of this loop
                    self.features.insert("for-bound-reads-control".into());
                    pre_assign = Some(1 + self.rng.range(0, 2));
                    Expr::Bin(BinOp::Add, Box::new(Expr::Lit(vty, Sv::I((to - pre_assign.unwrap()) as i128))), Box::new(Expr::Var(var.clone(), vty)), vty)
                } else {
                    Expr::Lit(vty, Sv::I(to as i128))
                };
                self.protected.push(var.clone());
                self.in_loop += 1;
                let before = self.steps;
                let body = self.nstmts(1, 3, depth - 1);
                let inner = self.steps - before;
                self.steps = before + (inner + 2) * (n as u64 + 2);
                self.in_loop -= 1;
                self.protected.pop();
                let f = Stmt::For { var: var.clone(), vty, from: Expr::Lit(vty, Sv::I(from as i128)), to: to_e, by: by.map(|b| Expr::Lit(vty, Sv::I(b as i128))), body, reset: true };
                match pre_assign {
                    Some(c) => Stmt::If(Expr::Lit(Bool, Sv::I(1)), vec![Stmt::Assign(Lv::Var(var, vty), Expr::Lit(vty, Sv::I(c as i128))), f], vec![], vec![]),
                    None => f,
                }
            }
            11 if self.guards < if self.in_pou { 6 } else { 16 } => {
                let guard = format!("g_{}", self.guards);
                self.guards += 1;
                let bound = 1 + self.rng.range(0, 5);
                let cond = self.expr(Bool, 1);
                self.in_loop += 1;
                let before = self.steps;
                let body = self.nstmts(1, 3, depth - 1);
                let inner = self.steps - before;
                self.steps = before + (inner + 3) * (bound as u64 + 1) + 2;
                self.in_loop -= 1;
                Stmt::While { cond, guard, bound, body }
            }
            12 if self.guards < if self.in_pou { 6 } else { 16 } => {
                let guard = format!("g_{}", self.guards);
                self.guards += 1;
                let bound = 1 + self.rng.range(0, 4);
                self.in_loop += 1;
                let before = self.steps;
                let body = self.nstmts(1, 2, depth - 1);
                let inner = self.steps - before;
                self.steps = before + (inner + 3) * (bound as u64 + 1) + 2;
                self.in_loop -= 1;
                let until = self.expr(Bool, 1);
                Stmt::Repeat { body, until, guard, bound }
            }
            13 if self.in_loop > 0 => {
                let c = self.expr(Bool, 1);
                Stmt::If(c, vec![if self.rng.bool() { Stmt::Exit } else { Stmt::Continue }], vec![], vec![])
            }
            14 if self.in_pou && self.allow_return => {
                let c = self.expr(Bool, 1);
                Stmt::If(c, vec![Stmt::Return], vec![], vec![])
            }
            15 if !self.insts.is_empty() && !self.in_pou => {
                let (inst, ins, outs_decl) = self.insts[self.rng.usize(self.insts.len())].clone();
                // some inputs omitted: they keep their previous value
                let mut args = Vec::new();
                for (n, t) in ins {
                    if !self.rng.chance(1, 4) {
                        args.push((n, self.expr(t, 1)));
                    }
                }
                self.steps += 30;
                if args.is_empty() {
                    if self.features.contains("fb-call-without-args?") {
                        self.features.insert("fb-call-without-args".into());
                        return Some(Stmt::FbCallNoArgs(inst));
                    }
                    return None;
                }
                // bind some outputs to plain variables of exactly the output's type (written back after the call, also after RETURN)
                let mut outs = Vec::new();
                let prot = self.protected.clone();
                for (n, t) in outs_decl {
                    if self.rng.chance(1, 3) {
                        let c: Vec<String> = self.scope.iter().filter(|v| v.1 == t && v.2 && v.3.is_none() && !prot.contains(&v.0)).map(|v| v.0.clone()).collect();
                        if !c.is_empty() && !outs.iter().any(|(_, l): &(String, Lv)| matches!(l, Lv::Var(x, _) if c.contains(x) && c.len() == 1)) {
                            let target = c[self.rng.usize(c.len())].clone();
                            if !outs.iter().any(|(_, l): &(String, Lv)| matches!(l, Lv::Var(x, _) if *x == target)) {
                                outs.push((n, Lv::Var(target, t)));
                                self.features.insert("fb-output-binding".into());
                            }
                        }
                    }
                }
                Stmt::FbCall(inst, args, outs)
            }
            _ => {
                let lv = self.lvalue()?;
                let t = lv.ty();
                let e = self.expr(t, 1);
                Stmt::Assign(lv, e)
            }
        })
    }
}

fn mkvar(name: String, ty: Ty, init: Option<Sv>, role: &'static str) -> Var {
    Var { name, ty, init, arr: None, sub: None, role }
}

/// Generate one program. `extended` enables constructs outside the C02 reference grammar;
/// `switches` are feature classes this program may use (each recorded when actually used).
pub fn generate(rng: &mut Rng, extended: bool, switches: &[&str]) -> Program {
    let mut features: BTreeSet<String> = BTreeSet::new();
    for s in switches {
        // a trailing '?' marks "allowed"; the generator inserts the plain name when it really uses it
        features.insert(format!("{s}?"));
    }
    // variable pool
    let mut vars: Vec<Var> = Vec::new();
    let ntypes = 4 + rng.usize(6);
    let mut types: Vec<Ty> = Vec::new();
    for _ in 0..ntypes {
        types.push(*rng.pick(&ALL));
    }
    types.extend([Bool, DInt, Int]);
    let mut inputs = Vec::new();
    for (i, t) in types.iter().enumerate() {
        let n = 1 + rng.usize(2);
        for j in 0..n {
            let name = format!("v{}_{}{}", t.name().to_lowercase(), i, j);
            let init = if rng.bool() { Some(boundary(rng, *t)) } else { None };
            vars.push(mkvar(name.clone(), *t, init, "assign"));
            if rng.chance(1, 4) && *t != Time {
                inputs.push(name);
            }
        }
    }
    // arrays
    for i in 0..rng.usize(3) {
        let t = *rng.pick(&[Int, DInt, Real, Bool, UInt, LInt]);
        let lo = rng.range(-2, 1);
        let hi = lo + rng.range(1, 4);
        vars.push(Var { name: format!("arr{i}"), ty: t, init: None, arr: Some((lo, hi)), sub: None, role: "array-element" });
    }
    // loop control variables
    for (i, t) in [DInt, Int, SInt, USInt, UDInt, LInt].iter().enumerate() {
        if i < 2 || rng.chance(1, 3) {
            vars.push(mkvar(format!("k_{i}"), *t, None, "for-control"));
        }
    }
    for i in 0..16 {
        vars.push(mkvar(format!("g_{i}"), DInt, None, "guard"));
    }
    let structs: Vec<(String, Vec<(String, Ty, Sv)>)> = (0..rng.usize(2)).map(|i| (format!("st{i}"), STRUCT_FIELDS.iter().map(|(f, t)| (f.to_string(), *t, if t.is_real() { Sv::F(0.0) } else { Sv::I(0) })).collect())).collect();

    // functions (leaf functions first so later ones may call earlier ones)
    let mut funcs: Vec<Func> = Vec::new();
    let mut fsigs: Vec<(String, Ty, Vec<(String, Ty)>)> = Vec::new();
    let mut total_steps = 0u64;
    for fi in 0..rng.usize(3) {
        let ret = *rng.pick(&[Int, DInt, Bool, Real, LInt, UInt, LReal]);
        let params: Vec<Var> = (0..1 + rng.usize(3)).map(|pi| mkvar(format!("p{pi}"), *rng.pick(&[Int, DInt, Bool, Real, UInt, SInt]), None, "parameter")).collect();
        let locals: Vec<Var> = (0..rng.usize(3)).map(|li| { let t = *rng.pick(&[Int, DInt, Bool, Real]); mkvar(format!("l{li}"), t, if rng.bool() { Some(small(rng, t)) } else { None }, "function-local") }).chain((0..6).map(|g| mkvar(format!("g_{g}"), DInt, None, "guard"))).chain([mkvar("k_0".into(), DInt, None, "for-control")]).collect();
        let name = format!("Fn{fi}");
        let mut g = Gen {
            rng,
            scope: params.iter().map(|p| (p.name.clone(), p.ty, false, None)).chain(locals.iter().map(|l| (l.name.clone(), l.ty, !l.name.starts_with("g_"), None))).chain([(name.clone(), ret, true, None)]).collect(),
            structs: vec![],
            funcs: fsigs.clone(),
            insts: vec![],
            features: features.clone(),
            guards: 0,
            in_loop: 0,
            in_pou: true,
            depth: 2,
            steps: 0,
            allow_return: false,
            extended,
            protected: vec![],
        };
        let mut body = g.nstmts(1, 4, 2);
        // make sure the result is assigned on the main path; half of the time from an expression of a narrower type, so that the
        // value a call yields is the widened one (what a caller then computes with depends on the declared result type)
        let narrower: Vec<Ty> = ret.sources().into_iter().filter(|s| *s != ret && s.is_numeric() && (!ret.is_real() || s.is_real() || matches!(s, SInt | Int) || (ret == LReal && *s == DInt))).collect();
        let e = if !narrower.is_empty() && g.rng.bool() {
            let st = *g.rng.pick(&narrower);
            g.features.insert("result-widening".into());
            g.expr_exact(st, 2)
        } else {
            g.expr(ret, 2)
        };
        body.push(Stmt::Assign(Lv::Var(name.clone(), ret), e));
        total_steps += g.steps;
        features = g.features.clone();
        fsigs.push((name.clone(), ret, params.iter().map(|p| (p.name.clone(), p.ty)).collect()));
        funcs.push(Func { name, ret, params, locals, body });
    }
    // function blocks
    let mut fbs: Vec<FbType> = Vec::new();
    for bi in 0..rng.usize(3) {
        let inputs_: Vec<Var> = (0..1 + rng.usize(2)).map(|i| mkvar(format!("i{i}"), *rng.pick(&[Int, DInt, Bool, Real, UInt]), None, "fb-input")).collect();
        let outputs: Vec<Var> = (0..1 + rng.usize(2)).map(|i| mkvar(format!("o{i}"), *rng.pick(&[Int, DInt, Bool, Real, LInt]), None, "fb-output")).collect();
        let vars_: Vec<Var> = (0..1 + rng.usize(2)).map(|i| { let t = *rng.pick(&[Int, DInt, Bool, LInt]); mkvar(format!("s{i}"), t, if rng.bool() { Some(small(rng, t)) } else { None }, "fb-state") }).chain((0..6).map(|g| mkvar(format!("g_{g}"), DInt, None, "guard"))).chain([mkvar("k_0".into(), DInt, None, "for-control")]).collect();
        let mut g = Gen {
            rng,
            scope: inputs_.iter().map(|p| (p.name.clone(), p.ty, false, None)).chain(outputs.iter().map(|l| (l.name.clone(), l.ty, true, None))).chain(vars_.iter().map(|l| (l.name.clone(), l.ty, !l.name.starts_with("g_"), None))).collect(),
            structs: vec![],
            funcs: fsigs.clone(),
            insts: vec![],
            features: features.clone(),
            guards: 0,
            in_loop: 0,
            in_pou: true,
            depth: 2,
            steps: 0,
            allow_return: true,
            extended,
            protected: vec![],
        };
        let mut body = g.nstmts(2, 4, 2);
        // state accumulation so that persistence across calls is observable
        if let Some(s) = vars_.iter().find(|v| v.ty == DInt && v.name.starts_with('s')) {
            body.insert(0, Stmt::Assign(Lv::Var(s.name.clone(), DInt), Expr::Bin(BinOp::Add, Box::new(Expr::Var(s.name.clone(), DInt)), Box::new(Expr::Lit(DInt, Sv::I(1))), DInt)));
        }
        total_steps += g.steps;
        features = g.features.clone();
        fbs.push(FbType { name: format!("Fb{bi}"), inputs: inputs_, outputs, inouts: vec![], vars: vars_, body });
    }
    let insts: Vec<(String, usize)> = if fbs.is_empty() { vec![] } else { (0..1 + rng.usize(3)).map(|i| (format!("inst{i}"), rng.usize(fbs.len()))).collect() };

    let mut g = Gen {
        rng,
        scope: vars.iter().map(|v| (v.name.clone(), v.ty, !v.name.starts_with("g_"), v.arr)).collect(),
        structs: structs.iter().map(|s| s.0.clone()).collect(),
        funcs: fsigs,
        insts: insts.iter().map(|(n, t)| (n.clone(), fbs[*t].inputs.iter().map(|v| (v.name.clone(), v.ty)).collect(), fbs[*t].outputs.iter().map(|v| (v.name.clone(), v.ty)).collect())).collect(),
        features,
        guards: 0,
        in_loop: 0,
        in_pou: false,
        depth: 3,
        steps: 0,
        allow_return: false,
        extended,
        protected: vec![],
    };
    let n = 3 + g.rng.usize(14);
    let body = g.stmts(n, 3);
    let calls = 1 + body.len() as u64;
    let step_bound = (g.steps + total_steps * calls * 4 + 50) * 4;
    let mut features: BTreeSet<String> = g.features.iter().filter(|f| !f.ends_with('?')).cloned().collect();
    if extended {
        features.insert("extended".into());
    }
    Program { funcs, fbs, vars, structs, insts, body, inputs, features, step_bound }
}
