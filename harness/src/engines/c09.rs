//! C09 — restart semantics: warm keeps exactly RETAIN/PERSISTENT data, cold equals a fresh start,
//! a power cycle through the retain store preserves what a warm restart preserves.
//!
//! Shadow-runtime monitor: next to the runtime under test (R) runs a shadow (S) that embodies the
//! model: after a cold restart S is a brand-new runtime built from the same sources; after a warm
//! restart / power cycle S is a brand-new runtime into which exactly the retained variables
//! (RETAIN or PERSISTENT, global or program level, retainable value) were copied from R's pre-restart
//! state.  From then on both receive the same inputs and every cycle compares variables by name
//! path, bytes delivered to the I/O drivers, runtime events, time, cycle counter and fault latch.

use crate::ctx::{catch, panic_sig, Shard};
use crate::drv::{Kind, Log, ProbeDriver, Script};
use crate::rng::Rng;
use crate::walk;
use serde_json::{json, Value as J};
use std::path::PathBuf;
use std::sync::{Arc, Mutex};
use trust_runtime::harness::TestHarness;
use trust_runtime::retain::FileRetainStore;
use trust_runtime::value::{Duration, Value};
use trust_runtime::RestartMode;

const IMG: usize = 8;
const TYPES: [&str; 12] = ["BOOL", "INT", "DINT", "LINT", "UINT", "REAL", "LREAL", "TIME", "STRING", "WORD", "ARR", "STRUCT"];
const QUALS: [&str; 4] = ["RETAIN", "NON_RETAIN", "", "PERSISTENT"];

#[derive(Clone, Debug)]
pub struct VarSpec {
    pub scope: u8, // 0 global, 1 program Main (task), 2 program Bg (background); 11 / 12: not a variable but the RETAIN / NON_RETAIN qualifier of the program instance P1 / P2
    pub qual: usize,
    pub ty: usize,
    pub name: String,
}

#[derive(Clone, Debug)]
pub enum Op {
    Cycle(Vec<u8>), // input image bytes
    Warm,
    Cold,
    Power,
    Fault,
}

fn decl(v: &VarSpec) -> String {
    let t = TYPES[v.ty];
    match t {
        "BOOL" => format!("{} : BOOL := TRUE;", v.name),
        "INT" => format!("{} : INT := INT#3;", v.name),
        "DINT" => format!("{} : DINT := DINT#-7;", v.name),
        "LINT" => format!("{} : LINT := LINT#1000000000000;", v.name),
        "UINT" => format!("{} : UINT := UINT#9;", v.name),
        "REAL" => format!("{} : REAL := REAL#1.5;", v.name),
        "LREAL" => format!("{} : LREAL := LREAL#-2.25;", v.name),
        "TIME" => format!("{} : TIME := T#5ms;", v.name),
        "STRING" => format!("{} : STRING := 'init';", v.name),
        "WORD" => format!("{} : WORD := WORD#16#00F0;", v.name),
        "ARR" => format!("{} : ARRAY[0..2] OF INT;", v.name),
        _ => format!("{} : S0;", v.name),
    }
}

fn update(v: &VarSpec) -> String {
    let n = &v.name;
    match TYPES[v.ty] {
        "BOOL" => format!("{n} := NOT {n};\n"),
        "INT" => format!("{n} := {n} + INT#1;\n"),
        "DINT" => format!("{n} := {n} + DINT#2;\n"),
        "LINT" => format!("{n} := {n} + LINT#3;\n"),
        "UINT" => format!("{n} := {n} + UINT#1;\n"),
        "REAL" => format!("{n} := {n} + REAL#0.5;\n"),
        "LREAL" => format!("{n} := {n} + LREAL#0.25;\n"),
        "TIME" => format!("IF cnt > INT#1 THEN {n} := T#9ms; END_IF;\n"),
        "STRING" => format!("IF LEN({n}) < 12 THEN {n} := CONCAT({n}, 'x'); END_IF;\n"),
        "WORD" => format!("{n} := INT_TO_WORD(cnt);\n"),
        "ARR" => format!("{n}[1] := {n}[1] + INT#1;\n{n}[2] := {n}[1] + {n}[0];\n"),
        _ => format!("{n}.fa := {n}.fa + INT#1;\n{n}.fc := NOT {n}.fc;\n"),
    }
}

pub fn program_text(vars: &[VarSpec]) -> String {
    let mut s = String::from("TYPE S0 : STRUCT fa : INT; fc : BOOL; fs : STRING; END_STRUCT END_TYPE\n");
    s += "FUNCTION_BLOCK Acc\nVAR_INPUT i : DINT; END_VAR\nVAR_OUTPUT o : DINT; END_VAR\nVAR s : DINT; END_VAR\ns := s + i;\no := s;\nEND_FUNCTION_BLOCK\n";
    s += "CONFIGURATION C\n";
    for (qi, q) in QUALS.iter().enumerate() {
        let vs: Vec<&VarSpec> = vars.iter().filter(|v| v.scope == 0 && v.qual == qi).collect();
        if !vs.is_empty() {
            s += &format!("VAR_GLOBAL {q}\n");
            for v in vs {
                s += &format!("  {}\n", decl(v));
            }
            s += "END_VAR\n";
        }
    }
    s += "VAR_GLOBAL\n  trip : BOOL;\n  zero : DINT;\n  ev : BOOL;\n  gfb : Acc;\nEND_VAR\n";
    s += "TASK T1 (INTERVAL := T#1ms, PRIORITY := 1);\nTASK T2 (INTERVAL := T#3ms, PRIORITY := 2);\nTASK TE (SINGLE := ev, PRIORITY := 0);\n";
    let iq = |scope: u8| vars.iter().find(|v| v.scope == scope).map(|v| QUALS[v.qual]).filter(|q| *q == "RETAIN" || *q == "NON_RETAIN").map(|q| format!("{q} ")).unwrap_or_default();
    s += &format!("PROGRAM {}P1 WITH T1 : Main;\nPROGRAM P3 WITH T2 : Slow;\nPROGRAM P4 WITH TE : OnEv;\nPROGRAM {}P2 : Bg;\nEND_CONFIGURATION\n", iq(11), iq(12));
    for (scope, pname) in [(1u8, "Main"), (2u8, "Bg")] {
        s += &format!("PROGRAM {pname}\nVAR_EXTERNAL\n  trip : BOOL;\n  zero : DINT;\n  ev : BOOL;\n  gfb : Acc;\n");
        if scope == 1 {
            for v in vars.iter().filter(|v| v.scope == 0) {
                let d = decl(v);
                let d = d.split(":=").next().unwrap().trim_end().trim_end_matches(';').to_string();
                s += &format!("  {d};\n");
            }
        }
        s += "END_VAR\n";
        for (qi, q) in QUALS.iter().enumerate() {
            let vs: Vec<&VarSpec> = vars.iter().filter(|v| v.scope == scope && v.qual == qi).collect();
            if !vs.is_empty() {
                s += &format!("VAR {q}\n");
                for v in vs {
                    s += &format!("  {}\n", decl(v));
                }
                s += "END_VAR\n";
            }
        }
        s += "VAR\n  cnt : INT;\n  fb : Acc;\n  boom : DINT;\n";
        if scope == 1 {
            s += "  din AT %IX0.0 : BOOL;\n  dout AT %QX0.1 : BOOL;\n  iw AT %IW2 : INT;\n  qw AT %QW2 : INT;\n  mw AT %MW0 : INT;\n";
        }
        s += "END_VAR\ncnt := cnt + INT#1;\n";
        for v in vars.iter().filter(|v| v.scope == scope || (scope == 1 && v.scope == 0)) {
            s += &update(v);
        }
        s += "fb(i := DINT#1);\n";
        if scope == 1 {
            s += "dout := din;\nqw := iw + cnt;\nmw := mw + INT#1;\nev := (cnt MOD INT#4) = INT#0;\ngfb(i := DINT#2);\n";
        } else {
            s += "IF trip THEN boom := DINT#1 / zero; END_IF;\n";
        }
        s += "END_PROGRAM\n";
    }
    s += "PROGRAM Slow\nVAR n : DINT; END_VAR\nn := n + DINT#1;\nEND_PROGRAM\nPROGRAM OnEv\nVAR hits : DINT; END_VAR\nhits := hits + DINT#1;\nEND_PROGRAM\n";
    s
}

struct Rt {
    h: TestHarness,
    log: Arc<Log>,
    script: Arc<Mutex<Script>>,
    dbg: trust_runtime::debug::DebugControl,
}

fn build(text: &str) -> Result<Rt, String> {
    let mut h = TestHarness::from_source(text).map_err(|e| e.to_string())?;
    let log = Arc::new(Log::default());
    let (drv, script) = ProbeDriver::new(0, log.clone());
    h.runtime_mut().add_io_driver("probe", Box::new(drv));
    h.runtime_mut().io_mut().resize(IMG, IMG, IMG);
    let dbg = h.runtime_mut().enable_debug();
    Ok(Rt { h, log, script, dbg })
}

fn retained_kind(v: &Value) -> bool {
    match v {
        Value::Array(a) => a.elements.iter().all(retained_kind),
        Value::Struct(s) => s.fields.values().all(retained_kind),
        Value::Reference(_) | Value::Instance(_) => false,
        _ => true,
    }
}

/// Copy exactly the retained variables (per the model) from `from` into the fresh shadow `to`.
fn inject_retained(vars: &[VarSpec], from: &TestHarness, to: &mut TestHarness) -> u64 {
    let mut n = 0;
    // a variable is retained when its own block says RETAIN / PERSISTENT, or when its block says nothing and the program
    // instance is qualified RETAIN in the configuration (an explicit NON_RETAIN block always wins)
    let instance_retain = |scope: u8| vars.iter().any(|q| q.scope == scope + 10 && QUALS[q.qual] == "RETAIN");
    for v in vars.iter().filter(|v| v.scope <= 2 && (QUALS[v.qual] == "RETAIN" || QUALS[v.qual] == "PERSISTENT" || (QUALS[v.qual].is_empty() && v.scope >= 1 && instance_retain(v.scope)))) {
        match v.scope {
            0 => {
                if let Some(val) = from.runtime().storage().get_global(&v.name).cloned() {
                    if retained_kind(&val) {
                        to.runtime_mut().storage_mut().set_global(v.name.as_str(), val);
                        n += 1;
                    }
                }
            }
            s => {
                let prog = if s == 1 { "P1" } else { "P2" };
                let src_id = match from.runtime().storage().get_global(prog) {
                    Some(Value::Instance(id)) => *id,
                    _ => continue,
                };
                let dst_id = match to.runtime().storage().get_global(prog) {
                    Some(Value::Instance(id)) => *id,
                    _ => continue,
                };
                if let Some(val) = from.runtime().storage().get_instance_var(src_id, &v.name).cloned() {
                    if retained_kind(&val) {
                        to.runtime_mut().storage_mut().set_instance_var(dst_id, v.name.as_str(), val);
                        n += 1;
                    }
                }
            }
        }
    }
    // helper variables of a program whose instance is qualified RETAIN (cnt, ...) are declared without a qualifier too
    for (scope, prog) in [(1u8, "P1"), (2u8, "P2")] {
        if !instance_retain(scope) {
            continue;
        }
        let (Some(Value::Instance(src_id)), Some(Value::Instance(dst_id))) = (from.runtime().storage().get_global(prog).cloned(), to.runtime().storage().get_global(prog).cloned()) else { continue };
        let helper: Vec<(String, Value)> = from.runtime().storage().get_instance(src_id).map(|i| i.variables.iter().map(|(k, v)| (k.to_string(), v.clone())).collect()).unwrap_or_default();
        for (k, val) in helper {
            if vars.iter().any(|v| v.scope <= 2 && v.name == k) || !retained_kind(&val) {
                continue; // generated variables were handled above according to their own block
            }
            to.runtime_mut().storage_mut().set_instance_var(dst_id, k.as_str(), val);
            n += 1;
        }
    }
    n
}

fn observable(rt: &Rt) -> (Vec<(String, String)>, String) {
    let snap = walk::snapshot(rt.h.runtime().storage());
    let meta = format!("time={:?} cycles={} faulted={}", rt.h.runtime().current_time(), rt.h.runtime().cycle_counter(), rt.h.runtime().faulted());
    (snap, meta)
}

fn compare(r: &Rt, s: &Rt, vars: &[VarSpec], when: &str) -> Result<u64, (String, String)> {
    let (a, ma) = observable(r);
    let (b, mb) = observable(s);
    // RETAIN members inside FB instances are deliberately not asserted either way: none are generated.
    if let Some(d) = walk::first_diff(&a, &b) {
        // classify by the variable's scope / qualifier
        let name = d.split(' ').next().unwrap_or("").trim_start_matches('~').to_string();
        let leaf = name.rsplit('.').next().unwrap_or("").split('[').next().unwrap_or("").to_string();
        let spec = vars.iter().filter(|v| v.scope <= 2).find(|v| name.split(|c| c == '.' || c == '[').any(|seg| seg == v.name));
        let class = match spec {
            Some(v) => format!("{}|{}|{}", ["global", "program", "program"][(v.scope as usize).min(2)], if QUALS[v.qual].is_empty() { "unqualified" } else { QUALS[v.qual] }, TYPES[v.ty]),
            None => format!("other|{leaf}"),
        };
        return Err((format!("state|{class}"), format!("{when}: runtime vs model: {d}")));
    }
    if ma != mb {
        return Err(("meta".into(), format!("{when}: runtime [{ma}] vs model [{mb}]")));
    }
    Ok(a.len() as u64)
}

pub struct Stats {
    vars_compared: u64,
    cycles: u64,
    restarts: u64,
    injected: u64,
}

pub fn run_history(vars: &[VarSpec], ops: &[Op], dir: &std::path::Path) -> Result<Stats, (String, String, usize)> {
    let text = program_text(vars);
    let mut r = build(&text).map_err(|e| ("compile".to_string(), format!("{e}\n{text}"), 0))?;
    let mut s = build(&text).map_err(|e| ("compile".to_string(), e, 0))?;
    let store_path = dir.join("retain.bin");
    let _ = std::fs::remove_file(&store_path);
    r.h.runtime_mut().set_retain_store(Some(Box::new(FileRetainStore::new(&store_path))), None);
    let mut st = Stats { vars_compared: 0, cycles: 0, restarts: 0, injected: 0 };
    let mut last = "start".to_string();
    for (oi, op) in ops.iter().enumerate() {
        let fail = |c: String, d: String| (c, d, oi);
        match op {
            Op::Cycle(_) | Op::Fault => {
                let bytes = match op {
                    Op::Cycle(b) => b.clone(),
                    _ => vec![0; IMG],
                };
                let trip = matches!(op, Op::Fault);
                for rt in [&mut r, &mut s] {
                    {
                        let mut sc = rt.script.lock().unwrap();
                        sc.bytes = bytes.clone();
                        sc.reads_this_cycle = 0;
                    }
                    rt.h.set_input("trip", trip);
                    rt.h.advance_time(Duration::from_millis(1));
                }
                let er = r.h.cycle().errors.into_iter().next();
                let es = s.h.cycle().errors.into_iter().next();
                st.cycles += 1;
                let when = format!("op {oi} (cycle after {last})");
                if format!("{er:?}") != format!("{es:?}") {
                    return Err(fail(format!("cycle-result|after={last}"), format!("{when}: runtime {er:?}, model {es:?}")));
                }
                let wr: Vec<Vec<u8>> = r.log.take().into_iter().filter(|e| e.kind == Kind::Write).map(|e| e.image).collect();
                let ws: Vec<Vec<u8>> = s.log.take().into_iter().filter(|e| e.kind == Kind::Write).map(|e| e.image).collect();
                if wr != ws {
                    return Err(fail(format!("driver-outputs|after={last}"), format!("{when}: bytes delivered to the driver {wr:02x?}, model {ws:02x?}")));
                }
                let evr = format!("{:?}", r.dbg.drain_runtime_events());
                let evs = format!("{:?}", s.dbg.drain_runtime_events());
                if evr != evs {
                    return Err(fail(format!("task-events|after={last}"), format!("{when}: events {evr} vs model {evs}")));
                }
                st.vars_compared += compare(&r, &s, vars, &when).map_err(|(c, d)| fail(format!("{c}|after={last}"), d))?;
            }
            Op::Warm | Op::Cold | Op::Power => {
                let (name, mode) = match op {
                    Op::Warm => ("warm", RestartMode::Warm),
                    Op::Cold => ("cold", RestartMode::Cold),
                    _ => ("power", RestartMode::Warm),
                };
                // the model: a brand-new runtime (+ the retained variables for warm / power)
                let mut fresh = build(&text).map_err(|e| fail("compile".into(), e))?;
                if !matches!(op, Op::Cold) {
                    st.injected += inject_retained(vars, &r.h, &mut fresh.h);
                }
                if matches!(op, Op::Power) {
                    r.h.runtime_mut().save_retain_store().map_err(|e| fail("power|save-error".into(), format!("{e:?}")))?;
                    // "new process": nothing but the file survives
                    let mut nr = build(&text).map_err(|e| fail("compile".into(), e))?;
                    nr.h.runtime_mut().set_retain_store(Some(Box::new(FileRetainStore::new(&store_path))), None);
                    nr.h.runtime_mut().load_retain_store().map_err(|e| fail("power|load-error".into(), format!("{e:?}")))?;
                    r = nr;
                } else {
                    r.h.restart(mode).map_err(|e| fail(format!("restart-error|{name}"), format!("{e:?}")))?;
                    let _ = r.log.take();
                    let _ = r.dbg.drain_runtime_events();
                }
                s = fresh;
                st.restarts += 1;
                last = name.to_string();
                let when = format!("op {oi} (right after {name})");
                st.vars_compared += compare(&r, &s, vars, &when).map_err(|(c, d)| fail(format!("{c}|after={name}"), d))?;
            }
        }
    }
    Ok(st)
}

fn gen_vars(rng: &mut Rng) -> Vec<VarSpec> {
    let n = 3 + rng.usize(8);
    let mut v: Vec<VarSpec> = (0..n).map(|i| VarSpec { scope: rng.below(3) as u8, qual: rng.usize(4), ty: rng.usize(TYPES.len()), name: format!("v{i}") }).collect();
    // a third of the configurations qualify a program instance (PROGRAM RETAIN P1 ... / PROGRAM NON_RETAIN P2 ...)
    for scope in [11u8, 12] {
        if rng.chance(1, 3) {
            v.push(VarSpec { scope, qual: rng.usize(2), ty: 0, name: format!("__instance_qualifier_{scope}") });
        }
    }
    v
}

fn gen_ops(rng: &mut Rng) -> Vec<Op> {
    let n = 5 + rng.usize(16);
    let mut ops = vec![Op::Cycle((0..IMG).map(|_| rng.next() as u8).collect())];
    for _ in 0..n {
        ops.push(match rng.below(12) {
            0 => Op::Warm,
            1 => Op::Cold,
            2 => Op::Power,
            3 => Op::Fault,
            _ => Op::Cycle((0..IMG).map(|_| rng.next() as u8).collect()),
        });
    }
    // always end with a restart followed by a continuation
    ops.push(match rng.below(3) {
        0 => Op::Warm,
        1 => Op::Cold,
        _ => Op::Power,
    });
    for _ in 0..4 {
        ops.push(Op::Cycle((0..IMG).map(|_| rng.next() as u8).collect()));
    }
    ops
}

fn case_json(vars: &[VarSpec], ops: &[Op]) -> J {
    json!({
        "vars": vars.iter().map(|v| json!([v.scope, v.qual, v.ty, v.name])).collect::<Vec<_>>(),
        "ops": ops.iter().map(|o| match o { Op::Cycle(b) => json!({"cycle": b}), Op::Warm => json!("warm"), Op::Cold => json!("cold"), Op::Power => json!("power"), Op::Fault => json!("fault") }).collect::<Vec<_>>(),
    })
}
fn parse_case(v: &J) -> (Vec<VarSpec>, Vec<Op>) {
    let vars = v["vars"].as_array().unwrap().iter().map(|x| VarSpec { scope: x[0].as_u64().unwrap() as u8, qual: x[1].as_u64().unwrap() as usize, ty: x[2].as_u64().unwrap() as usize, name: x[3].as_str().unwrap().into() }).collect();
    let ops = v["ops"]
        .as_array()
        .unwrap()
        .iter()
        .map(|o| match o.as_str() {
            Some("warm") => Op::Warm,
            Some("cold") => Op::Cold,
            Some("power") => Op::Power,
            Some("fault") => Op::Fault,
            _ => Op::Cycle(o["cycle"].as_array().unwrap().iter().map(|b| b.as_u64().unwrap() as u8).collect()),
        })
        .collect();
    (vars, ops)
}

fn shrink(vars: &[VarSpec], ops: &[Op], sig: &str, dir: &std::path::Path) -> (Vec<VarSpec>, Vec<Op>) {
    let fails = |v: &[VarSpec], o: &[Op]| matches!(catch(|| run_history(v, o, dir)), Ok(Err((ref s, _, _))) if s == sig);
    let (mut vars, mut ops) = (vars.to_vec(), ops.to_vec());
    if let Ok(Err((_, _, at))) = catch(|| run_history(&vars, &ops, dir)) {
        ops.truncate(at + 1);
    }
    let mut i = 0;
    while ops.len() > 1 && i < ops.len() {
        let mut o2 = ops.clone();
        o2.remove(i);
        if fails(&vars, &o2) {
            ops = o2;
        } else {
            i += 1;
        }
    }
    let mut k = 0;
    while vars.len() > 1 && k < vars.len() {
        let mut v2 = vars.clone();
        v2.remove(k);
        if fails(&v2, &ops) {
            vars = v2;
        } else {
            k += 1;
        }
    }
    (vars, ops)
}

fn one(sh: &mut Shard, vars: Vec<VarSpec>, ops: Vec<Op>, dir: &std::path::Path) {
    let case = case_json(&vars, &ops);
    if !sh.begin("history", &case) {
        return;
    }
    match catch(|| run_history(&vars, &ops, dir)) {
        Err(p) => sh.violation(format!("panic|{}", panic_sig(&p)), p, case.clone()),
        Ok(Err((sig, d, _))) => {
            if sig == "compile" {
                sh.count("rejected_programs", 1);
                sh.inconclusive(d.chars().take(300).collect::<String>());
            } else {
                let (v2, o2) = shrink(&vars, &ops, &sig, dir);
                let d2 = match catch(|| run_history(&v2, &o2, dir)) {
                    Ok(Err((_, d, _))) => d,
                    _ => d,
                };
                sh.violation(sig, d2, case_json(&v2, &o2));
            }
        }
        Ok(Ok(st)) => {
            sh.count("variables_compared", st.vars_compared);
            sh.count("cycles_compared", st.cycles);
            sh.count("restarts_checked", st.restarts);
            sh.count("retained_values_injected_into_model", st.injected);
            let has_ret = vars.iter().any(|v| v.qual == 0 || v.qual == 3);
            let has_non = vars.iter().any(|v| v.qual == 1 || v.qual == 2);
            if has_ret && has_non && st.restarts > 0 {
                let shape: Vec<String> = vars.iter().map(|v| format!("{}{}{}", v.scope, v.qual, v.ty)).collect();
                let hist: String = ops.iter().map(|o| match o { Op::Cycle(_) => 'c', Op::Warm => 'W', Op::Cold => 'C', Op::Power => 'P', Op::Fault => 'F' }).collect();
                sh.nontrivial(&(shape, hist));
            }
            if sh.want_sample() && vars.len() <= 4 {
                sh.sample(json!({"program": program_text(&vars), "history": ops.iter().map(|o| match o { Op::Cycle(_) => "cycle", Op::Warm => "warm", Op::Cold => "cold", Op::Power => "power-cycle", Op::Fault => "fault" }).collect::<Vec<_>>()}));
            }
        }
    }
    sh.end();
}

/// A restart that fails part-way (round e): an initial value that depends on a retained global faults during a warm restart
/// (`Scale : INT := 100 / Divisor` with Divisor retained at 0).  Whatever the failed restart left behind, a following cold
/// restart must give a runtime that is observationally a newly built one, now and over the following cycles; and the
/// same after two failed warm restarts in a row and after a failed warm restart of a faulted resource.
fn failed_restart(sh: &mut Shard) {
    let text = "CONFIGURATION C\nVAR_GLOBAL RETAIN\n  Divisor : INT := 4;\n  kept : DINT := 11;\nEND_VAR\nVAR_GLOBAL\n  plain : INT := 7;\nEND_VAR\nTASK T (INTERVAL := T#1ms, PRIORITY := 1);\nPROGRAM P1 WITH T : Main;\nEND_CONFIGURATION\nPROGRAM Main\nVAR_EXTERNAL Divisor : INT; plain : INT; kept : DINT; END_VAR\nVAR Scale : INT := INT#100 / Divisor; n : INT; loc : INT := 3; END_VAR\nVAR RETAIN pr : INT := 5; END_VAR\nn := n + INT#1;\nplain := plain + Scale;\nkept := kept + DINT#1;\npr := pr + INT#1;\nloc := loc + n;\nIF n = INT#2 THEN\n  Divisor := INT#0;\nEND_IF;\nEND_PROGRAM\n";
    for (vi, script) in [vec!["warm", "cold"], vec!["warm", "warm", "cold"], vec!["warm", "cycle", "cold"], vec!["warm", "cold", "cycle", "warm", "cold"]].iter().enumerate() {
        let case = json!({"failed_restart": script});
        if !sh.begin("failed-restart", &case) {
            continue;
        }
        let res: Result<u64, (String, String)> = (|| {
            let mut r = build(text).map_err(|e| ("compile".to_string(), e))?;
            for _ in 0..3 {
                r.h.advance_time(Duration::from_millis(1));
                if let Some(e) = r.h.cycle().errors.first() {
                    return Err(("harness".into(), format!("cycle before the restart: {e:?}")));
                }
            }
            let mut failed_warm = 0u64;
            for (k, op) in script.iter().enumerate() {
                match *op {
                    "warm" => {
                        if r.h.runtime_mut().restart(RestartMode::Warm).is_err() {
                            failed_warm += 1;
                        }
                    }
                    "cycle" => {
                        r.h.advance_time(Duration::from_millis(1));
                        let _ = r.h.cycle();
                    }
                    _ => {
                        if let Err(e) = r.h.runtime_mut().restart(RestartMode::Cold) {
                            return Err(("failed-restart|cold-restart-fails".into(), format!("step {k} of {script:?}: restart(Cold) = Err({e:?}); a newly built runtime starts without error")));
                        }
                        // from here on: a brand-new runtime
                        let mut s = build(text).map_err(|e| ("compile".to_string(), e))?;
                        compare(&r, &s, &[], &format!("right after the cold restart (step {k} of {script:?})")).map_err(|(c, d)| (format!("failed-restart|{c}"), d))?;
                        if k + 1 == script.len() {
                            for c in 0..4 {
                                for x in [&mut r, &mut s] {
                                    x.h.advance_time(Duration::from_millis(1));
                                    let _ = x.h.cycle();
                                }
                                compare(&r, &s, &[], &format!("cycle {c} after the cold restart of {script:?}")).map_err(|(c, d)| (format!("failed-restart|{c}"), d))?;
                            }
                        } else {
                            // bring the runtime under test back to "Divisor retained at 0"
                            for _ in 0..3 {
                                r.h.advance_time(Duration::from_millis(1));
                                let _ = r.h.cycle();
                            }
                        }
                    }
                }
            }
            Ok(failed_warm)
        })();
        match res {
            Ok(n) => {
                sh.count("failed_warm_restarts_followed_by_a_cold_restart", n);
                if n > 0 {
                    sh.nontrivial(&("failed-restart", vi));
                }
            }
            Err((sig, d)) if sig == "compile" || sig == "harness" => sh.inconclusive(format!("failed-restart: {sig}: {d}")),
            Err((sig, d)) => sh.violation(sig, d, case.clone()),
        }
        sh.end();
    }
}

pub fn run(sh: &mut Shard) {
    let work = PathBuf::from(std::env::var("TPV_WORKDIR").unwrap_or_else(|_| "/tmp".into()));
    let dir = work.join(format!("c09-{}-{}", sh.args.shard, std::process::id()));
    let _ = std::fs::create_dir_all(&dir);
    if let Some(path) = sh.args.replay.clone() {
        let v: J = serde_json::from_str(&std::fs::read_to_string(path).expect("replay")).expect("json");
        let r = if v.get("replay").is_some() { v["replay"].clone() } else { v };
        let r = if r.get("case").is_some() { r["case"].clone() } else { r };
        let (vars, ops) = parse_case(&r);
        one(sh, vars, ops, &dir);
        let _ = std::fs::remove_dir_all(&dir);
        return;
    }
    let rng = Rng::new(sh.args.shard_seed());
    if sh.args.shard == 0 {
        failed_restart(sh);
    }
    // systematic: every (scope, qualifier, type) cell with a fixed history containing all three restart kinds
    let fixed: Vec<Op> = vec![Op::Cycle(vec![1; IMG]), Op::Cycle(vec![0xff; IMG]), Op::Warm, Op::Cycle(vec![3; IMG]), Op::Power, Op::Cycle(vec![5; IMG]), Op::Fault, Op::Cold, Op::Cycle(vec![7; IMG]), Op::Cycle(vec![9; IMG])];
    let mut n = 0usize;
    for scope in 0..3u8 {
        for qual in 0..4 {
            for ty in 0..TYPES.len() {
                n += 1;
                if n % sh.args.nshards as usize != sh.args.shard as usize {
                    continue;
                }
                // a non-retained companion so both classes are present
                let vars = vec![VarSpec { scope, qual, ty, name: "v0".into() }, VarSpec { scope: 1, qual: 2, ty: 2, name: "w0".into() }, VarSpec { scope: 0, qual: 0, ty: 1, name: "w1".into() }];
                one(sh, vars, fixed.clone(), &dir);
            }
        }
    }
    let mut i = 0u64;
    while sh.time_left() {
        i += 1;
        let mut g = rng.fork(i);
        let vars = gen_vars(&mut g);
        let ops = gen_ops(&mut g);
        one(sh, vars, ops, &dir);
    }
    let _ = std::fs::remove_dir_all(&dir);
}
