//! C14 — the language server keeps the same document text as the editor.
//!
//! Two real trust-lsp processes over stdio: A receives didOpen(s0) + the change notifications, B a
//! single didOpen with the editor's final text.  O1: every observable answer must be equal.
//! O2: every position-carrying answer of A must be valid on the *editor's* UTF-16 text.
//! O3: prepareRename at identifier starts returns exactly the identifier's UTF-16 range.

use crate::ctx::{catch, panic_sig, Shard};
use crate::lsp::{Editor, Lsp};
use crate::rng::Rng;
use serde_json::{json, Value as J};

const BASES: [&str; 5] = [
    "PROGRAM Main\nVAR\n  counter : INT;\n  flag : BOOL;\nEND_VAR\ncounter := counter + 1;\nIF flag THEN\n  counter:=0;\nEND_IF;\nEND_PROGRAM\n",
    "FUNCTION Add2 : DINT\nVAR_INPUT a : DINT; b : DINT; END_VAR\nAdd2:=a+b;\nEND_FUNCTION\nPROGRAM P\nVAR r : DINT; END_VAR\nr := Add2(a := 1, b := 2);\nEND_PROGRAM\n",
    "TYPE Color : (Red, Green); END_TYPE\nFUNCTION_BLOCK Fb\nVAR_INPUT en : BOOL; END_VAR\nVAR_OUTPUT n : INT; END_VAR\nIF en THEN n:=n+1; END_IF;\nEND_FUNCTION_BLOCK\nPROGRAM Q\nVAR f : Fb; c : Color; END_VAR\nf(en := TRUE);\nc := Color#Red;\nEND_PROGRAM\n",
    "PROGRAM Strs\nVAR s : STRING := 'abc'; w : WSTRING := \"wide\"; END_VAR\ns := CONCAT(s, 'x');\n// trailing comment\nEND_PROGRAM\n",
    "PROGRAM Crlf\r\nVAR x : INT; END_VAR\r\nx:=1;\r\nx := x + 2;\r\nEND_PROGRAM\r\n",
];
const SALT: [&str; 10] = ["(* h\u{e9}llo *) ", "(* \u{65e5}\u{672c}\u{8a9e} *) ", "(* \u{1F600} *) ", "(* a\u{1F680}b\u{1F600}c *) ", "// \u{e4}\u{f6}\u{fc} \u{1F600}\n", "(* \u{10348} *)", "{pragma \u{1F600}} ", "'\u{1F600}'", "\u{2603}", " "];
const INSERTS: [&str; 14] = ["x", " ", "\n", ";", "y := 2;\n", "(* \u{1F600} *)", "\u{1F600}", "\u{e9}", "\r\n", "", "counter", "  ", "END_IF;", "\t"];

fn initial(rng: &mut Rng) -> String {
    let mut t = rng.pick(&BASES).to_string();
    // salt: non-ASCII comments before code on the same line
    for _ in 0..rng.usize(4) {
        let ed = Editor::new(&t);
        let ls = ed.line_starts();
        let at = ls[rng.usize(ls.len())];
        t.insert_str(at, *rng.pick(&SALT));
    }
    // a tenth of the texts start with a byte order mark, as files saved by some Windows editors do: it is one UTF-16 unit of
    // line 0 in the editor's text, so every position on line 0 counts it
    if rng.chance(1, 10) {
        t.insert(0, '\u{feff}');
    }
    t
}

#[derive(Clone, Debug)]
pub struct Change {
    pub start: (usize, usize),
    pub end: (usize, usize),
    pub text: String,
    pub full: bool,
}

fn gen_changes(rng: &mut Rng, s0: &str) -> Vec<Vec<Change>> {
    // a list of notifications, each with 1-3 content changes
    let mut ed = Editor::new(s0);
    let n = 1 + rng.usize(30);
    let mut out = Vec::new();
    for _ in 0..n {
        let k = if rng.chance(1, 5) { 2 + rng.usize(2) } else { 1 };
        let mut batch = Vec::new();
        for _ in 0..k {
            if rng.chance(1, 25) {
                let t = initial(rng);
                ed = Editor::new(&t);
                batch.push(Change { start: (0, 0), end: (0, 0), text: t, full: true });
                continue;
            }
            let ps = ed.positions();
            let a = rng.usize(ps.len());
            let b = (a + if rng.chance(1, 2) { 0 } else { rng.usize(6) }).min(ps.len() - 1);
            // prefer positions right after a wide character
            let (mut a, mut b) = (a, b);
            if rng.chance(1, 3) {
                if let Some(i) = ps.iter().position(|p| {
                    let l = ed.line(p.0).unwrap_or("");
                    ed.offset(p.0, p.1).map(|o| ed.text[..o].chars().last().map(|c| c.len_utf16() == 2 || c as u32 > 127).unwrap_or(false)).unwrap_or(false) && !l.is_empty()
                }) {
                    a = i;
                    b = (i + rng.usize(3)).min(ps.len() - 1);
                }
            }
            let text = rng.pick(&INSERTS).to_string();
            let c = Change { start: ps[a], end: ps[b], text, full: false };
            if ed.apply(c.start, c.end, &c.text) {
                batch.push(c);
            }
        }
        if !batch.is_empty() {
            out.push(batch);
        }
    }
    out
}

fn final_text(s0: &str, changes: &[Vec<Change>]) -> String {
    let mut ed = Editor::new(s0);
    for b in changes {
        for c in b {
            if c.full {
                ed = Editor::new(&c.text);
            } else {
                ed.apply(c.start, c.end, &c.text);
            }
        }
    }
    ed.text
}

fn strip_uri(v: &J, uri: &str) -> String {
    // resultId is a per-server request counter, not a statement about the document
    let mut v = v.clone();
    if let Some(m) = v.as_object_mut() {
        m.remove("resultId");
    }
    v.to_string().replace(uri, "URI")
}

fn queries(l: &mut Lsp, uri: &str, ed: &Editor) -> Result<Vec<(String, J)>, String> {
    let td = json!({"uri": uri});
    let mut out = Vec::new();
    out.push(("formatting".to_string(), l.request("textDocument/formatting", json!({"textDocument": td, "options": {"tabSize": 4, "insertSpaces": true}}))?));
    out.push(("semanticTokens".to_string(), l.request("textDocument/semanticTokens/full", json!({"textDocument": td}))?));
    // the same tokens asked for by range: from the start of a line in the middle of the document to its end
    let nlines = ed.text.split('\n').count();
    let from = nlines / 2;
    out.push((format!("semanticTokensRange@{from}"), l.request("textDocument/semanticTokens/range", json!({"textDocument": td, "range": {"start": {"line": from, "character": 0}, "end": {"line": nlines - 1, "character": Editor::utf16_len(ed.line(nlines - 1).unwrap_or(""))}}}))?));
    out.push(("documentSymbol".to_string(), l.request("textDocument/documentSymbol", json!({"textDocument": td}))?));
    out.push(("diagnostic".to_string(), l.request("textDocument/diagnostic", json!({"textDocument": td}))?));
    out.push(("foldingRange".to_string(), l.request("textDocument/foldingRange", json!({"textDocument": td}))?));
    // hover at the start of the first few identifiers
    let toks = trust_syntax::lex(&ed.text);
    let mut n = 0;
    for t in toks.iter().filter(|t| format!("{:?}", t.kind) == "Ident") {
        if n >= 4 {
            break;
        }
        n += 1;
        let (line, col) = ed.position(usize::from(t.range.start()));
        out.push((format!("hover@{line}:{col}"), l.request("textDocument/hover", json!({"textDocument": td, "position": {"line": line, "character": col}}))?));
    }
    Ok(out)
}

fn pos_of(v: &J) -> (usize, usize) {
    (v["line"].as_u64().unwrap_or(0) as usize, v["character"].as_u64().unwrap_or(0) as usize)
}

/// Collect every {"start":..,"end":..} range object in a JSON value.
fn collect_ranges(v: &J, out: &mut Vec<((usize, usize), (usize, usize))>) {
    match v {
        J::Object(m) => {
            if let (Some(s), Some(e)) = (m.get("start"), m.get("end")) {
                if s.get("line").is_some() && e.get("line").is_some() {
                    out.push((pos_of(s), pos_of(e)));
                }
            }
            for x in m.values() {
                collect_ranges(x, out);
            }
        }
        J::Array(a) => {
            for x in a {
                collect_ranges(x, out);
            }
        }
        _ => {}
    }
}

fn fidelity(ed: &Editor, name: &str, ans: &J) -> Result<u64, (String, String)> {
    let mut n = 0u64;
    let mut rs = Vec::new();
    collect_ranges(ans, &mut rs);
    for (s, e) in rs {
        n += 1;
        if !ed.in_bounds(s) || !ed.in_bounds(e) || s > e {
            return Err((format!("position|out-of-bounds-or-splits-char|{}", name.split('@').next().unwrap_or(name)), format!("{name}: range {s:?}..{e:?} is not valid on the editor's text (UTF-16)")));
        }
    }
    if name == "semanticTokens" {
        if let Some(data) = ans["data"].as_array() {
            let (mut line, mut col) = (0usize, 0usize);
            for ch in data.chunks(5) {
                let (dl, ds, len) = (ch[0].as_u64().unwrap_or(0) as usize, ch[1].as_u64().unwrap_or(0) as usize, ch[2].as_u64().unwrap_or(0) as usize);
                if dl > 0 {
                    line += dl;
                    col = ds;
                } else {
                    col += ds;
                }
                n += 1;
                // multi-line tokens (block comments) are reported by their first line here: clamp the end check to tokens that fit
                let (Some(a), l) = (ed.offset(line, col), ed.line(line).unwrap_or("")) else {
                    return Err(("position|semantic-token-start".into(), format!("semantic token at {line}:{col} len {len} does not start on a character of the editor's text")));
                };
                let room = Editor::utf16_len(l) - col.min(Editor::utf16_len(l));
                if len <= room && ed.offset(line, col + len).is_none() {
                    return Err(("position|semantic-token-splits-char".into(), format!("semantic token at {line}:{col} len {len} ends inside a surrogate pair")));
                }
                if len == 0 {
                    return Err(("position|semantic-token-empty".into(), format!("semantic token at {line}:{col} has length 0")));
                }
                let _ = a;
            }
        }
    }
    if name == "documentSymbol" {
        fn walk(ed: &Editor, v: &J, n: &mut u64) -> Result<(), (String, String)> {
            if let Some(a) = v.as_array() {
                for s in a {
                    if let (Some(name), Some(sel)) = (s["name"].as_str(), s.get("selectionRange")) {
                        let (a, b) = (pos_of(&sel["start"]), pos_of(&sel["end"]));
                        if let (Some(x), Some(y)) = (ed.offset(a.0, a.1), ed.offset(b.0, b.1)) {
                            *n += 1;
                            let txt = &ed.text[x.min(y)..y.max(x)];
                            if !txt.eq_ignore_ascii_case(name) {
                                return Err(("position|symbol-range-not-its-name".into(), format!("documentSymbol '{name}' selectionRange {a:?}..{b:?} covers {txt:?} in the editor's text")));
                            }
                        }
                    }
                    if let Some(ch) = s.get("children") {
                        walk(ed, ch, n)?;
                    }
                }
            }
            Ok(())
        }
        walk(ed, ans, &mut n)?;
    }
    Ok(n)
}

pub struct Stats {
    answers: u64,
    positions: u64,
    prepare: u64,
    changes: u64,
    non_ascii_edit: bool,
    watch_events: u64,
    range_token_answers: u64,
    range_mismatch: Option<String>,
}

pub fn run_history(a: &mut Lsp, b: &mut Lsp, s0: &str, changes: &[Vec<Change>], n: u64) -> Result<Stats, (String, String)> {
    // a third of the documents also exist as files whose content is the text at open time (the last save); while the
    // editor's buffer moves on, file-watcher notifications for the open document arrive between the changes, as they
    // do after a save in a real editor - the open document's text is still the editor's
    let on_disk = (s0.len() + changes.len()) % 3 == 0;
    let dir = std::path::PathBuf::from(std::env::var("TPV_WORKDIR").unwrap_or_else(|_| "/tmp".into())).join(format!("c14-{}", std::process::id()));
    let file = dir.join(format!("doc{n}.st"));
    let uri = if on_disk {
        let _ = std::fs::create_dir_all(&dir);
        let _ = std::fs::write(&file, s0);
        format!("file://{}", file.display())
    } else {
        format!("file:///c14/doc{n}.st")
    };
    struct Rm(Option<std::path::PathBuf>);
    impl Drop for Rm {
        fn drop(&mut self) {
            if let Some(p) = &self.0 {
                let _ = std::fs::remove_file(p);
            }
        }
    }
    let _rm = Rm(if on_disk { Some(file.clone()) } else { None });
    let h = |e: String| ("harness".to_string(), e);
    a.open(&uri, s0);
    let mut ed = Editor::new(s0);
    let mut version = 1;
    let mut st = Stats { answers: 0, positions: 0, prepare: 0, changes: 0, non_ascii_edit: false, watch_events: 0, range_token_answers: 0, range_mismatch: None };
    for batch in changes {
        version += 1;
        let cc: Vec<J> = batch
            .iter()
            .map(|c| {
                if c.full {
                    json!({"text": c.text})
                } else {
                    json!({"range": {"start": {"line": c.start.0, "character": c.start.1}, "end": {"line": c.end.0, "character": c.end.1}}, "text": c.text})
                }
            })
            .collect();
        for c in batch {
            if !c.full {
                if let Some(o) = ed.offset(c.start.0, c.start.1) {
                    let line_start = ed.text[..o].rfind('\n').map(|i| i + 1).unwrap_or(0);
                    if !ed.text[line_start..o].is_ascii() {
                        st.non_ascii_edit = true;
                    }
                }
                ed.apply(c.start, c.end, &c.text);
            } else {
                ed = Editor::new(&c.text);
            }
            st.changes += 1;
        }
        a.notify("textDocument/didChange", json!({"textDocument": {"uri": uri, "version": version}, "contentChanges": cc}));
        if on_disk && version % 2 == 0 {
            // created / changed, and once the file is removed behind the editor's back: deleted
            let typ = if version % 6 == 0 { 3 } else if version % 4 == 0 { 1 } else { 2 };
            if typ == 3 {
                let _ = std::fs::remove_file(&file);
            }
            a.notify("workspace/didChangeWatchedFiles", json!({"changes": [{"uri": uri, "type": typ}]}));
            st.watch_events += 1;
        }
    }
    b.open(&uri, &ed.text);
    let qa = queries(a, &uri, &ed).map_err(h)?;
    let qb = queries(b, &uri, &ed).map_err(h)?;
    {
        // semantic tokens are delta-encoded from the start of the DOCUMENT, for a range request too: decoded that way, the
        // range answer must be the part of the full answer that starts at or after the range start
        let abs = |v: &J| -> Vec<(usize, usize, usize, u64)> {
            let (mut line, mut col) = (0usize, 0usize);
            v["data"].as_array().map(|d| d.chunks(5).map(|ch| {
                let (dl, ds) = (ch[0].as_u64().unwrap_or(0) as usize, ch[1].as_u64().unwrap_or(0) as usize);
                if dl > 0 { line += dl; col = ds; } else { col += ds; }
                (line, col, ch[2].as_u64().unwrap_or(0) as usize, ch[3].as_u64().unwrap_or(0))
            }).collect()).unwrap_or_default()
        };
        let full = qa.iter().find(|(n, _)| n == "semanticTokens").map(|(_, v)| abs(v)).unwrap_or_default();
        if let Some((name, v)) = qa.iter().find(|(n, _)| n.starts_with("semanticTokensRange@")) {
            let from: usize = name.split('@').nth(1).and_then(|x| x.parse().ok()).unwrap_or(0);
            let want: Vec<_> = full.iter().filter(|t| t.0 >= from).cloned().collect();
            let got = abs(v);
            if !v.is_null() && got != want {
                // reported by the caller without ending the history: every other answer of this history is still checked
                st.range_mismatch = Some(format!("semanticTokens/range from line {from}: decoded from the document start the answer holds {:?}..., the full answer holds {:?}... from that line on", got.iter().take(3).collect::<Vec<_>>(), want.iter().take(3).collect::<Vec<_>>()));
            }
            st.range_token_answers += 1;
        }
    }
    for ((name, x), (_, y)) in qa.iter().zip(qb.iter()) {
        st.answers += 1;
        if strip_uri(x, &uri) != strip_uri(y, &uri) {
            let kind = name.split('@').next().unwrap_or(name);
            if std::env::var("C14_DEBUG").is_ok() {
                eprintln!("A: {}\nB: {}\nEDITOR: {:?}", serde_json::to_string_pretty(x).unwrap_or_default(), serde_json::to_string_pretty(y).unwrap_or_default(), ed.text);
            }
            a.close(&uri);
            b.close(&uri);
            return Err((format!("incremental-differs|{kind}"), format!("{name}: server fed changes answers {} ; server fed the final text answers {}", x.to_string().chars().take(300).collect::<String>(), y.to_string().chars().take(300).collect::<String>())));
        }
        match fidelity(&ed, name, x) {
            Ok(k) => st.positions += k,
            Err(e) => {
                a.close(&uri);
                b.close(&uri);
                return Err(e);
            }
        }
    }
    // O3: prepareRename at identifier starts (on the fresh server B as well: pure position mapping)
    let toks = trust_syntax::lex(&ed.text);
    let idents: Vec<&trust_syntax::Token> = toks.iter().filter(|t| format!("{:?}", t.kind) == "Ident").collect();
    for t in idents.iter().take(12) {
        let (s, e) = (usize::from(t.range.start()), usize::from(t.range.end()));
        let (line, col) = ed.position(s);
        let (eline, ecol) = ed.position(e);
        let r = a.request("textDocument/prepareRename", json!({"textDocument": {"uri": uri}, "position": {"line": line, "character": col}})).map_err(h)?;
        st.prepare += 1;
        let range = if r.get("range").is_some() { &r["range"] } else { &r };
        if range.get("start").is_some() {
            let (gs, ge) = (pos_of(&range["start"]), pos_of(&range["end"]));
            if gs != (line, col) || ge != (eline, ecol) {
                a.close(&uri);
                b.close(&uri);
                return Err(("position|prepare-rename-range".into(), format!("prepareRename at {line}:{col} (identifier {:?}) returned {gs:?}..{ge:?}, the identifier spans {:?}..{:?}", &ed.text[s..e], (line, col), (eline, ecol))));
            }
        }
    }
    a.close(&uri);
    b.close(&uri);
    Ok(st)
}

fn case_json(s0: &str, changes: &[Vec<Change>]) -> J {
    json!({"s0": s0, "changes": changes.iter().map(|b| b.iter().map(|c| if c.full { json!({"full": c.text}) } else { json!([c.start.0, c.start.1, c.end.0, c.end.1, c.text]) }).collect::<Vec<_>>()).collect::<Vec<_>>()})
}
fn parse_case(v: &J) -> (String, Vec<Vec<Change>>) {
    let s0 = v["s0"].as_str().unwrap_or("").to_string();
    let ch = v["changes"]
        .as_array()
        .map(|a| {
            a.iter()
                .map(|b| {
                    b.as_array()
                        .unwrap()
                        .iter()
                        .map(|c| {
                            if let Some(f) = c.get("full") {
                                Change { start: (0, 0), end: (0, 0), text: f.as_str().unwrap().into(), full: true }
                            } else {
                                Change { start: (c[0].as_u64().unwrap() as usize, c[1].as_u64().unwrap() as usize), end: (c[2].as_u64().unwrap() as usize, c[3].as_u64().unwrap() as usize), text: c[4].as_str().unwrap().into(), full: false }
                            }
                        })
                        .collect()
                })
                .collect()
        })
        .unwrap_or_default();
    (s0, ch)
}

fn shrink(a: &mut Lsp, b: &mut Lsp, s0: &str, changes: &[Vec<Change>], sig: &str, n: &mut u64) -> Vec<Vec<Change>> {
    // drop whole notifications while the final text stays derivable (later ranges may become invalid: then skip)
    let mut ch = changes.to_vec();
    let mut i = 0;
    while ch.len() > 1 && i < ch.len() {
        let mut c2 = ch.clone();
        c2.remove(i);
        // keep only if all ranges still apply on the model
        let mut ed = Editor::new(s0);
        let valid = c2.iter().all(|b| b.iter().all(|c| if c.full { ed = Editor::new(&c.text); true } else { ed.apply(c.start, c.end, &c.text) }));
        *n += 1;
        if valid && matches!(run_history(a, b, s0, &c2, *n), Err((ref s, _)) if s == sig) {
            ch = c2;
        } else {
            i += 1;
        }
    }
    ch
}

pub fn run(sh: &mut Shard) {
    let (mut a, mut b) = match (Lsp::start(json!({})), Lsp::start(json!({}))) {
        (Ok(a), Ok(b)) => (a, b),
        (x, y) => {
            sh.inconclusive(format!("cannot start trust-lsp: {:?} {:?}", x.err(), y.err()));
            return;
        }
    };
    let mut n = 0u64;
    if let Some(path) = sh.args.replay.clone() {
        let v: J = serde_json::from_str(&std::fs::read_to_string(path).expect("replay")).expect("json");
        let r = if v.get("replay").is_some() { v["replay"].clone() } else { v };
        let r = if r.get("case").is_some() { r["case"].clone() } else { r };
        let (s0, ch) = parse_case(&r);
        sh.begin("replay", &r);
        match run_history(&mut a, &mut b, &s0, &ch, 1) {
            Err((sig, d)) => sh.violation(sig, d, r.clone()),
            Ok(st) => {
                if let Some(d) = st.range_mismatch {
                    sh.violation("position|semantic-tokens-range-not-document-relative|replay".to_string(), d, r.clone());
                }
            }
        }
        sh.end();
        return;
    }
    let rng = Rng::new(sh.args.shard_seed());
    let mut i = 0u64;
    while sh.time_left() {
        i += 1;
        let mut g = rng.fork(i);
        let s0 = initial(&mut g);
        let ch = gen_changes(&mut g, &s0);
        let case = case_json(&s0, &ch);
        if !sh.begin("history", &case) {
            continue;
        }
        n += 1;
        let r = catch(|| run_history(&mut a, &mut b, &s0, &ch, n));
        match r {
            Err(p) => sh.violation(format!("panic|{}", panic_sig(&p)), p, case.clone()),
            Ok(Err((sig, d))) => {
                if sig == "harness" {
                    sh.inconclusive(d);
                    // restart servers
                    if let (Ok(a2), Ok(b2)) = (Lsp::start(json!({})), Lsp::start(json!({}))) {
                        a = a2;
                        b = b2;
                    }
                } else {
                    let c2 = shrink(&mut a, &mut b, &s0, &ch, &sig, &mut n);
                    n += 1;
                    let d2 = match run_history(&mut a, &mut b, &s0, &c2, n) {
                        Err((_, d)) => d,
                        _ => d,
                    };
                    // classify by the widest character involved
                    let fin = final_text(&s0, &c2);
                    let cls = if fin.chars().any(|c| c.len_utf16() == 2) { "astral" } else if !fin.is_ascii() { "bmp-non-ascii" } else if fin.contains('\r') { "crlf" } else { "ascii" };
                    sh.violation(format!("{sig}|{cls}"), d2, case_json(&s0, &c2));
                }
            }
            Ok(Ok(st)) => {
                if let Some(d) = &st.range_mismatch {
                    let fin = final_text(&s0, &ch);
                    let cls = if fin.chars().any(|c| c.len_utf16() == 2) { "astral" } else if !fin.is_ascii() { "bmp-non-ascii" } else if fin.contains('\r') { "crlf" } else { "ascii" };
                    sh.violation(format!("position|semantic-tokens-range-not-document-relative|{cls}"), d.clone(), case.clone());
                }
                sh.count("answers_compared", st.answers);
                sh.count("positions_validated_on_editor_text", st.positions);
                sh.count("prepare_rename_round_trips", st.prepare);
                sh.count("changes_applied", st.changes);
                sh.count("watched_file_events_for_open_documents", st.watch_events);
                sh.count("semantic_token_range_answers_compared_with_full", st.range_token_answers);
                sh.count("histories_ok", 1);
                if s0.starts_with('\u{feff}') {
                    sh.count("histories_on_texts_starting_with_a_byte_order_mark", 1);
                }
                if st.non_ascii_edit {
                    sh.count("histories_editing_after_non_ascii", 1);
                }
                if st.non_ascii_edit || st.changes >= 3 {
                    sh.nontrivial(&case.to_string());
                }
                if sh.want_sample() && ch.len() <= 3 {
                    sh.sample(case);
                }
            }
        }
        if !a.alive() || !b.alive() {
            sh.violation("server-died", "a trust-lsp process exited during the history", case_json(&s0, &ch));
            if let (Ok(a2), Ok(b2)) = (Lsp::start(json!({})), Lsp::start(json!({}))) {
                a = a2;
                b = b2;
            } else {
                break;
            }
        }
        sh.end();
    }
}
