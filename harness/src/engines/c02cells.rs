//! C02 — hand-derived semantic cells for the clauses the generated core grammar does not reach:
//! operator precedence / associativity including `**`, VAR_IN_OUT by reference (with and without aliasing),
//! by-value inputs, output bindings.  Expected values are worked out by hand from IEC 61131-3 and docs/specs
//! (Table 71: every binary operator associates left to right; `**` binds tighter than `*`, unary minus tighter
//! than `**`; VAR_IN_OUT is passed by reference, VAR_INPUT by value).

pub struct Cell {
    pub name: &'static str,
    pub text: &'static str,
    pub cycles: usize,
    /// (cycle index, storage path, expected rendering of walk::snapshot)
    pub expect: &'static [(usize, &'static str, &'static str)],
}

pub const CELLS: &[Cell] = &[
    Cell {
        name: "precedence-left-assoc",
        text: "PROGRAM Main\nVAR\n  r4 : LREAL; i1 : INT; i2 : INT; i3 : INT; i4 : INT; t1 : BOOL; t2 : BOOL; t3 : BOOL; t4 : BOOL; r3 : LREAL; r2 : LREAL; r5 : LREAL;\nEND_VAR\n\
r4 := LREAL#100.0 / LREAL#10.0 / LREAL#5.0;\n\
i1 := INT#20 - INT#5 - INT#3;\n\
i2 := INT#17 MOD INT#5 * INT#2;\n\
i3 := INT#2 + INT#3 * INT#4 - INT#6 / INT#2;\n\
i4 := INT#100 / INT#10 * INT#2;\n\
t1 := TRUE OR TRUE XOR TRUE;\n\
t2 := NOT FALSE AND FALSE;\n\
t3 := INT#1 + INT#1 = INT#2 AND INT#3 > INT#2;\n\
t4 := FALSE AND FALSE OR TRUE;\n\
r3 := LREAL#2.0 * LREAL#3.0 ** LREAL#2.0;\n\
r2 := -LREAL#2.0 ** LREAL#2.0;\n\
r5 := LREAL#2.0 ** LREAL#3.0 * LREAL#2.0;\n\
END_PROGRAM\n",
        cycles: 1,
        expect: &[
            (0, "Main.r4", "LREAL#4000000000000000"),
            (0, "Main.i1", "INT#Int(12)"),
            (0, "Main.i2", "INT#Int(4)"),
            (0, "Main.i3", "INT#Int(11)"),
            (0, "Main.i4", "INT#Int(20)"),
            (0, "Main.t1", "BOOL#Bool(true)"),
            (0, "Main.t2", "BOOL#Bool(false)"),
            (0, "Main.t3", "BOOL#Bool(true)"),
            (0, "Main.t4", "BOOL#Bool(true)"),
            (0, "Main.r3", "LREAL#4032000000000000"), // 18
            (0, "Main.r2", "LREAL#4010000000000000"), // (-2)**2 = 4
            (0, "Main.r5", "LREAL#4030000000000000"), // 16
        ],
    },
    Cell {
        name: "pow-chain-associativity",
        text: "PROGRAM Main\nVAR\n  r1 : LREAL;\nEND_VAR\nr1 := LREAL#2.0 ** LREAL#3.0 ** LREAL#2.0;\nEND_PROGRAM\n",
        cycles: 1,
        expect: &[(0, "Main.r1", "LREAL#4050000000000000")], // (2**3)**2 = 64
    },
    Cell {
        name: "inout-basic",
        text: "TYPE Rec : STRUCT fa : INT; fb : DINT; END_STRUCT END_TYPE\n\
FUNCTION_BLOCK Inc\nVAR_IN_OUT x : INT; END_VAR\nVAR_INPUT d : INT; END_VAR\nVAR_OUTPUT seen : INT; END_VAR\nseen := x;\nx := x + d;\nEND_FUNCTION_BLOCK\n\
FUNCTION_BLOCK Outer\nVAR_IN_OUT y : INT; END_VAR\nVAR inner : Inc; END_VAR\ninner(x := y, d := INT#5);\ny := y * INT#2;\nEND_FUNCTION_BLOCK\n\
FUNCTION Bump : INT\nVAR_IN_OUT acc : INT; END_VAR\nVAR_INPUT d : INT; END_VAR\nacc := acc + d;\nBump := acc * INT#10;\nEND_FUNCTION\n\
FUNCTION OutF : INT\nVAR_INPUT p : INT; END_VAR\nVAR_OUTPUT o1 : INT; o2 : DINT; END_VAR\no1 := p + INT#1;\no2 := DINT#7;\nOutF := p;\nEND_FUNCTION\n\
PROGRAM Main\nVAR\n  a : INT := 1; b : INT := 2; c : INT := 3; q : INT; q2 : INT; w1 : INT; w2 : DINT;\n  arr : ARRAY[0..2] OF INT; r : Rec; i : INT := 1;\n  f1 : Inc; f2 : Inc; f3 : Inc; o : Outer; seen1 : INT;\nEND_VAR\n\
f1(x := a, d := INT#10, seen => seen1);\n\
IF arr[1] = INT#0 THEN arr[1] := INT#4; END_IF;\n\
f2(x := arr[i], d := INT#3);\n\
IF r.fa = INT#0 THEN r.fa := INT#20; END_IF;\n\
f3(x := r.fa, d := INT#2);\n\
o(y := b);\n\
q := Bump(acc := c, d := INT#4);\n\
q2 := OutF(p := INT#8, o1 => w1, o2 => w2);\n\
END_PROGRAM\n",
        cycles: 2,
        expect: &[
            (0, "Main.a", "INT#Int(11)"),
            (0, "Main.seen1", "INT#Int(1)"),
            (0, "Main.arr[1]", "INT#Int(7)"),
            (0, "Main.arr[0]", "INT#Int(0)"),
            (0, "Main.r.fa", "INT#Int(22)"),
            (0, "Main.b", "INT#Int(14)"),
            (0, "Main.c", "INT#Int(7)"),
            (0, "Main.q", "INT#Int(70)"),
            (0, "Main.q2", "INT#Int(8)"),
            (0, "Main.w1", "INT#Int(9)"),
            (0, "Main.w2", "DINT#DInt(7)"),
            (1, "Main.a", "INT#Int(21)"),
            (1, "Main.seen1", "INT#Int(11)"),
            (1, "Main.arr[1]", "INT#Int(10)"),
            (1, "Main.r.fa", "INT#Int(24)"),
            (1, "Main.b", "INT#Int(38)"),
            (1, "Main.c", "INT#Int(11)"),
            (1, "Main.q", "INT#Int(110)"),
        ],
    },
    Cell {
        name: "input-by-value",
        text: "FUNCTION_BLOCK ByVal\nVAR_INPUT p : INT; END_VAR\nVAR_OUTPUT o : INT; END_VAR\nVAR_EXTERNAL g : INT; END_VAR\ng := g + INT#100;\no := p;\nEND_FUNCTION_BLOCK\n\
FUNCTION ByValF : INT\nVAR_INPUT p : INT; END_VAR\nVAR_EXTERNAL g : INT; END_VAR\ng := g + INT#1000;\nByValF := p;\nEND_FUNCTION\n\
CONFIGURATION C\nVAR_GLOBAL g : INT := 1; END_VAR\nPROGRAM P : Main;\nEND_CONFIGURATION\n\
PROGRAM Main\nVAR bv : ByVal; r : INT; END_VAR\nVAR_EXTERNAL g : INT; END_VAR\nbv(p := g);\nr := ByValF(p := g);\nEND_PROGRAM\n",
        cycles: 1,
        expect: &[(0, "P.bv.o", "INT#Int(1)"), (0, "P.r", "INT#Int(101)"), (0, "g", "INT#Int(1101)")],
    },
    Cell {
        name: "inout-alias-fb",
        text: "FUNCTION_BLOCK Bump2\nVAR_IN_OUT x : INT; y : INT; END_VAR\nx := x + INT#1;\ny := y + INT#10;\nEND_FUNCTION_BLOCK\n\
PROGRAM Main\nVAR a : INT := 1; f : Bump2; END_VAR\nf(x := a, y := a);\nEND_PROGRAM\n",
        cycles: 1,
        expect: &[(0, "Main.a", "INT#Int(12)")],
    },
    Cell {
        name: "inout-alias-function",
        text: "FUNCTION Bump2F : INT\nVAR_IN_OUT x : INT; y : INT; END_VAR\nx := x + INT#1;\ny := y + INT#10;\nBump2F := x;\nEND_FUNCTION\n\
PROGRAM Main\nVAR a : INT := 1; r : INT; END_VAR\nr := Bump2F(x := a, y := a);\nEND_PROGRAM\n",
        cycles: 1,
        expect: &[(0, "Main.a", "INT#Int(12)"), (0, "Main.r", "INT#Int(12)")],
    },
    Cell {
        name: "inout-alias-global",
        text: "FUNCTION_BLOCK Mix\nVAR_IN_OUT x : INT; END_VAR\nVAR_EXTERNAL g : INT; END_VAR\nx := x + INT#1;\ng := g + INT#10;\nx := x + INT#100;\nEND_FUNCTION_BLOCK\n\
CONFIGURATION C\nVAR_GLOBAL g : INT := 0; END_VAR\nPROGRAM P : Main;\nEND_CONFIGURATION\n\
PROGRAM Main\nVAR m : Mix; END_VAR\nVAR_EXTERNAL g : INT; END_VAR\nm(x := g);\nEND_PROGRAM\n",
        cycles: 1,
        expect: &[(0, "g", "INT#Int(111)")],
    },
    Cell {
        name: "case-insensitive-names",
        text: "FUNCTION Foo : INT\nVAR_INPUT Val : INT; END_VAR\nfoo := Val + INT#7;\nEND_FUNCTION\n\
FUNCTION_BLOCK Acc\nVAR_INPUT Incr : INT; END_VAR\nVAR_OUTPUT Tot : INT; END_VAR\ntot := TOT + incr;\nEND_FUNCTION_BLOCK\n\
PROGRAM Main\nVAR r1 : INT; r2 : INT; r3 : INT; a : Acc; END_VAR\nr1 := Foo(val := INT#4);\nr2 := FOO(Val := INT#1);\na(INCR := INT#5);\nr3 := a.TOT;\nEND_PROGRAM\n",
        cycles: 1,
        expect: &[(0, "Main.r1", "INT#Int(11)"), (0, "Main.r2", "INT#Int(8)"), (0, "Main.r3", "INT#Int(5)")],
    },
    Cell {
        name: "fb-param-initial-values",
        text: "FUNCTION_BLOCK Init\nVAR_INPUT i : INT := INT#3; END_VAR\nVAR_OUTPUT o : INT := INT#4; END_VAR\nVAR n : INT := INT#7; END_VAR\nEND_FUNCTION_BLOCK\n\
FUNCTION_BLOCK Outs\nVAR_INPUT i : INT := INT#3; END_VAR\nVAR_OUTPUT o1 : INT; o2 : DINT; END_VAR\no1 := i + INT#1;\no2 := DINT#2 * o1;\nEND_FUNCTION_BLOCK\n\
PROGRAM Main\nVAR f : Init; g : Outs; a : INT; b : INT; x : INT; y : DINT; END_VAR\na := f.i;\nb := f.o;\ng(o1 => x);\ng(i := INT#10);\ng(o2 => y);\nEND_PROGRAM\n",
        cycles: 1,
        expect: &[(0, "Main.a", "INT#Int(3)"), (0, "Main.b", "INT#Int(4)"), (0, "Main.f.n", "INT#Int(7)"), (0, "Main.x", "INT#Int(4)"), (0, "Main.y", "DINT#DInt(22)")],
    },
    Cell {
        name: "defaults-and-output-bindings",
        text: "TYPE Rec : STRUCT fa : INT; fb : DINT; END_STRUCT END_TYPE\n\
FUNCTION Dflt : INT\nVAR_INPUT a : INT := INT#5; b : INT := INT#7; c : INT; END_VAR\nDflt := a * INT#100 + b * INT#10 + c;\nEND_FUNCTION\n\
FUNCTION_BLOCK Outs\nVAR_INPUT i : INT; END_VAR\nVAR_OUTPUT o1 : INT; o2 : DINT; END_VAR\no1 := i + INT#1;\no2 := DINT#2 * o1;\nEND_FUNCTION_BLOCK\n\
FUNCTION Two : INT\nVAR_INPUT p : INT; END_VAR\nVAR_OUTPUT q : INT; END_VAR\nq := p * INT#2;\nTwo := p + INT#1;\nEND_FUNCTION\n\
PROGRAM Main\nVAR\n  r1 : INT; r2 : INT; r3 : INT; r4 : INT; r5 : INT;\n  arr : ARRAY[0..2] OF INT; rec : Rec; k : INT := 2;\n  f : Outs; g : Outs; x : INT; y : DINT;\nEND_VAR\n\
r1 := Dflt();\nr2 := Dflt(b := INT#1);\nr3 := Dflt(c := INT#9, a := INT#2);\nr4 := Dflt(INT#1, INT#2, INT#3);\n\
f(i := INT#3, o1 => arr[k], o2 => rec.fb);\ng(i := INT#10, o1 => x);\ng(o2 => y);\nr5 := Two(p := INT#4, q => arr[0]);\nEND_PROGRAM\n",
        cycles: 1,
        expect: &[
            (0, "Main.r1", "INT#Int(570)"),
            (0, "Main.r2", "INT#Int(510)"),
            (0, "Main.r3", "INT#Int(279)"),
            (0, "Main.r4", "INT#Int(123)"),
            (0, "Main.r5", "INT#Int(5)"),
            (0, "Main.arr[0]", "INT#Int(8)"),
            (0, "Main.arr[1]", "INT#Int(0)"),
            (0, "Main.arr[2]", "INT#Int(4)"),
            (0, "Main.rec.fb", "DINT#DInt(8)"),
            (0, "Main.rec.fa", "INT#Int(0)"),
            (0, "Main.x", "INT#Int(11)"),
            (0, "Main.y", "DINT#DInt(22)"),
        ],
    },
    Cell {
        name: "en-eno",
        text: "FUNCTION Scale : INT\nVAR_INPUT EN : BOOL; x : INT; END_VAR\nVAR_OUTPUT ENO : BOOL; END_VAR\nScale := x * INT#2;\nEND_FUNCTION\n\
FUNCTION Compute : INT\nVAR_INPUT enable : BOOL; base : INT; END_VAR\nVAR tmp : INT; ok : BOOL; END_VAR\ntmp := Scale(EN := enable, x := base, ENO => ok);\nIF enable THEN\n  Compute := tmp + base;\nELSE\n  Compute := base * INT#3;\nEND_IF;\nEND_FUNCTION\n\
FUNCTION_BLOCK Gate\nVAR_INPUT EN : BOOL; x : INT; END_VAR\nVAR_OUTPUT ENO : BOOL; y : INT; END_VAR\nVAR n : INT; END_VAR\nn := n + INT#1;\ny := x + n;\nEND_FUNCTION_BLOCK\n\
FUNCTION_BLOCK User\nVAR_INPUT go : BOOL; END_VAR\nVAR_OUTPUT o : INT; END_VAR\nVAR loc : INT := INT#7; t : INT; END_VAR\nt := Scale(EN := go, x := loc);\nIF go THEN\n  o := t + loc;\nELSE\n  o := loc;\nEND_IF;\nEND_FUNCTION_BLOCK\n\
PROGRAM Main\nVAR d1 : INT; r1 : INT; r2 : INT; ok2 : BOOL := TRUE; g : Gate; h : Gate; gn : INT; hy : INT; gok : BOOL := TRUE; u : User; u2 : User; uo : INT; u2o : INT; skipped : INT; END_VAR\n\
d1 := Scale(EN := TRUE, x := INT#4);\nskipped := Scale(EN := FALSE, x := INT#4, ENO => ok2);\nr1 := Compute(enable := TRUE, base := INT#5);\nr2 := Compute(enable := FALSE, base := INT#5);\n\
g(EN := FALSE, x := INT#3, ENO => gok);\nh(EN := TRUE, x := INT#3);\nhy := h.y;\nu(go := FALSE);\nu2(go := TRUE);\nuo := u.o;\nu2o := u2.o;\nEND_PROGRAM\n",
        cycles: 2,
        expect: &[
            (0, "Main.d1", "INT#Int(8)"),
            (0, "Main.r1", "INT#Int(15)"),
            (0, "Main.r2", "INT#Int(15)"),
            (0, "Main.ok2", "BOOL#Bool(false)"),
            (0, "Main.gok", "BOOL#Bool(false)"),
            (0, "Main.g.n", "INT#Int(0)"),
            (0, "Main.hy", "INT#Int(4)"),
            (0, "Main.uo", "INT#Int(7)"),
            (0, "Main.u2o", "INT#Int(21)"),
            (1, "Main.r2", "INT#Int(15)"),
            (1, "Main.g.n", "INT#Int(0)"),
            (1, "Main.hy", "INT#Int(5)"),
            (1, "Main.u2o", "INT#Int(21)"),
        ],
    },
    Cell {
        name: "call-result-has-declared-type",
        text: "FUNCTION Half : REAL\nVAR_INPUT n : INT; END_VAR\nHalf := n;\nEND_FUNCTION\n\
FUNCTION Wide : LINT\nVAR_INPUT d : DINT; END_VAR\nWide := d;\nEND_FUNCTION\n\
FUNCTION_BLOCK M\nMETHOD PUBLIC Fetch : LREAL\nVAR_INPUT k : DINT; END_VAR\nFetch := k;\nEND_METHOD\nEND_FUNCTION_BLOCK\n\
PROGRAM Main\nVAR direct : REAL; via : REAL; t : REAL; big : LINT; m : M; q : LREAL; seven : INT := INT#7; two : INT := INT#2; END_VAR\n\
direct := Half(n := seven) / two;\nt := Half(n := seven);\nvia := t / two;\nbig := Wide(d := DINT#2000000000) + Wide(d := DINT#1000000000);\nq := m.Fetch(k := DINT#7) / DINT#2;\nEND_PROGRAM\n",
        cycles: 1,
        expect: &[
            (0, "Main.direct", "REAL#40600000"), // 3.5: the call's value is a REAL, so the division is a REAL division
            (0, "Main.via", "REAL#40600000"),
            (0, "Main.big", "LINT#LInt(3000000000)"),
            (0, "Main.q", "LREAL#400c000000000000"),
        ],
    },
    Cell {
        name: "for-bounds-evaluated-before-control-assignment",
        text: "PROGRAM Main\nVAR i : INT := 10; j : INT := 3; n1 : INT; n2 : INT; n3 : INT; last1 : INT; END_VAR\n\
FOR i := INT#1 TO i + INT#2 DO\n  n1 := n1 + INT#1;\nEND_FOR;\nlast1 := i;\n\
FOR j := INT#2 TO INT#20 BY j DO\n  n2 := n2 + INT#1;\nEND_FOR;\n\
i := INT#4;\nFOR i := i + INT#1 TO i * INT#2 DO\n  n3 := n3 + INT#1;\nEND_FOR;\nEND_PROGRAM\n",
        cycles: 1,
        expect: &[
            (0, "Main.n1", "INT#Int(12)"), // 1..12: the end value uses i = 10
            (0, "Main.n2", "INT#Int(7)"),  // 2,5,8,...,20 with step 3 (the old j)
            (0, "Main.n3", "INT#Int(4)"),  // 5..8
        ],
    },
    Cell {
        name: "jmp-leaves-nested-statements",
        text: "FUNCTION F : INT\nVAR_INPUT a : INT; END_VAR\nIF a > INT#0 THEN\n  JMP done;\nEND_IF;\nF := INT#1;\ndone: F := F + INT#2;\nEND_FUNCTION\n\
PROGRAM Main\nVAR i : INT; n1 : INT; n2 : INT; n3 : INT; n4 : INT; k : INT; END_VAR\n\
IF TRUE THEN\n  IF n1 < INT#100 THEN\n    JMP l1;\n  END_IF;\n  n1 := INT#50;\nEND_IF;\nn1 := INT#1;\nl1: n1 := n1 + INT#2;\n\
FOR i := INT#0 TO INT#9 DO\n  n2 := n2 + INT#1;\n  IF i = INT#3 THEN\n    JMP l2;\n  END_IF;\nEND_FOR;\nn2 := INT#100;\nl2: n2 := n2 + INT#10;\n\
l3: k := k + INT#1;\nIF k < INT#5 THEN\n  JMP l3;\nEND_IF;\nn3 := k;\n\
n4 := F(INT#1) * INT#10 + F(INT#0);\nEND_PROGRAM\n",
        cycles: 1,
        expect: &[
            (0, "Main.n1", "INT#Int(2)"),  // the assignment of 1 is skipped
            (0, "Main.n2", "INT#Int(14)"), // four iterations, then the label
            (0, "Main.i", "INT#Int(3)"),   // the control variable keeps the value it had at the jump
            (0, "Main.n3", "INT#Int(5)"),  // a backward jump out of an IF repeats the list from the label
            (0, "Main.n4", "INT#Int(23)"), // F(1) = 2, F(0) = 3
        ],
    },
    Cell {
        name: "shift-and-rotate-values",
        text: "PROGRAM Main\nVAR b : BYTE := BYTE#16#81; w : WORD := WORD#16#8001; d : DWORD := DWORD#16#80000001; l : LWORD := LWORD#16#4000000000000001; z : INT; n8 : INT := INT#8; n64 : INT := INT#64;\n\
 r1 : BYTE; r2 : BYTE; r3 : BYTE; r4 : BYTE; r5 : BYTE; r6 : BYTE; r7 : WORD; r8 : WORD; r9 : DWORD; r10 : LWORD; r11 : LWORD; r12 : LWORD; r13 : LWORD; r14 : BYTE; END_VAR\n\
r1 := ROL(b, INT#1);\nr2 := ROR(b, INT#1);\nr3 := SHL(b, INT#1);\nr4 := SHR(b, INT#1);\nr5 := ROL(b, z);\nr6 := ROR(b, n8);\nr7 := ROL(w, INT#17);\nr8 := SHL(w, INT#16);\n\
r9 := ROR(d, INT#33);\nr10 := ROL(l, z);\nr11 := ROR(l, n64);\nr12 := ROL(l, INT#1);\nr13 := ROR(l, INT#65);\nr14 := SHR(b, INT#9);\nEND_PROGRAM\n",
        cycles: 1,
        expect: &[
            (0, "Main.r1", "BYTE#Byte(3)"),
            (0, "Main.r2", "BYTE#Byte(192)"),
            (0, "Main.r3", "BYTE#Byte(2)"),
            (0, "Main.r4", "BYTE#Byte(64)"),
            (0, "Main.r5", "BYTE#Byte(129)"),  // rotation by 0 is the identity
            (0, "Main.r6", "BYTE#Byte(129)"),  // so is a rotation by the width
            (0, "Main.r7", "WORD#Word(3)"),    // 17 mod 16 = 1
            (0, "Main.r8", "WORD#Word(0)"),    // everything shifted out
            (0, "Main.r9", "DWORD#DWord(3221225472)"), // 33 mod 32 = 1: 16#C0000000
            (0, "Main.r10", "LWORD#LWord(4611686018427387905)"),
            (0, "Main.r11", "LWORD#LWord(4611686018427387905)"),
            (0, "Main.r12", "LWORD#LWord(9223372036854775810)"), // 16#8000000000000002
            (0, "Main.r13", "LWORD#LWord(11529215046068469760)"), // 65 mod 64 = 1: 16#A000000000000000
            (0, "Main.r14", "BYTE#Byte(0)"),
        ],
    },
    Cell {
        name: "string-function-values",
        text: "PROGRAM Main\nVAR s : STRING := 'abcdef'; big : LINT := LINT#9223372036854775807; one : INT := INT#1;\n\
 b1 : BOOL; b2 : BOOL; b3 : BOOL; b4 : BOOL; b5 : BOOL; b6 : BOOL; b7 : BOOL; b8 : BOOL; b9 : BOOL; b10 : BOOL; n1 : INT; n2 : INT; n3 : INT; END_VAR\n\
b1 := LEFT(s, INT#2) = 'ab';\nb2 := RIGHT(s, INT#2) = 'ef';\nb3 := MID(s, INT#2, INT#3) = 'cd';\nb4 := INSERT('abc', 'XY', INT#2) = 'abXYc';\nb5 := DELETE(s, INT#2, INT#3) = 'abef';\n\
b6 := REPLACE(s, 'XY', INT#2, INT#3) = 'abXYef';\nb7 := CONCAT('ab', 'cd') = 'abcd';\nb8 := MID(s, big, INT#5) = 'ef';\nb9 := LEFT(s, INT#100) = s;\nb10 := DELETE(s, big, INT#4) = 'abc';\n\
n1 := FIND(s, 'cd');\nn2 := FIND(s, 'xz');\nn3 := LEN(MID(s, one, INT#6)) + LEN('');\nEND_PROGRAM\n",
        cycles: 1,
        expect: &[
            (0, "Main.b1", "BOOL#Bool(true)"),
            (0, "Main.b2", "BOOL#Bool(true)"),
            (0, "Main.b3", "BOOL#Bool(true)"),  // MID(IN, L, P): 2 characters from position 3
            (0, "Main.b4", "BOOL#Bool(true)"),  // INSERT after position 2
            (0, "Main.b5", "BOOL#Bool(true)"),  // DELETE(IN, L, P): 2 characters from position 3
            (0, "Main.b6", "BOOL#Bool(true)"),
            (0, "Main.b7", "BOOL#Bool(true)"),
            (0, "Main.b8", "BOOL#Bool(true)"),  // a length beyond the end takes the rest
            (0, "Main.b9", "BOOL#Bool(true)"),
            (0, "Main.b10", "BOOL#Bool(true)"),
            (0, "Main.n1", "INT#Int(3)"),
            (0, "Main.n2", "INT#Int(0)"),
            (0, "Main.n3", "INT#Int(1)"),
        ],
    },
    Cell {
        // comparisons are by value in the operands' own type: unsigned values above the signed maximum of the same width,
        // the most negative signed value (both reached by computation: they have no literal form)
        name: "comparisons-at-type-limits",
        text: "PROGRAM Main\nVAR ul : ULINT; ul2 : ULINT; ud : UDINT := UDINT#4294967295; ui : UINT := UINT#65535; us : USINT := USINT#255; li : LINT; lw : LWORD;\n\
 b1 : BOOL; b2 : BOOL; b3 : BOOL; b4 : BOOL; b5 : BOOL; b6 : BOOL; b7 : BOOL; b8 : BOOL; b9 : BOOL; b10 : BOOL; b11 : BOOL; b12 : BOOL; b13 : BOOL; b14 : BOOL; b15 : BOOL; m : ULINT; END_VAR\n\
ul := ULINT#9223372036854775807;\nul := ul + ULINT#1000;\nul2 := ul + ULINT#1;\n\
b1 := ul < ul2;\nb2 := ul2 > ul;\nb3 := ul = ul;\nb4 := ul <> ul2;\nb5 := ul >= ul2;\nb6 := ul2 <= ul;\nb7 := ul > ULINT#5;\n\
b8 := ud > UDINT#2147483648;\nb9 := ui >= UINT#32768;\nb10 := us > USINT#128;\nb11 := ul = ULINT#0;\n\
li := LINT#-9223372036854775807;\nli := li - LINT#1;\nb12 := li < LINT#0;\nb13 := li <= li;\n\
b14 := ULINT#5 < ul;\nb15 := ul2 = ul;\nm := MAX(ul, ULINT#7);\nEND_PROGRAM\n",
        cycles: 1,
        expect: &[
            (0, "Main.b1", "BOOL#Bool(true)"),
            (0, "Main.b2", "BOOL#Bool(true)"),
            (0, "Main.b3", "BOOL#Bool(true)"),
            (0, "Main.b4", "BOOL#Bool(true)"),
            (0, "Main.b5", "BOOL#Bool(false)"),
            (0, "Main.b6", "BOOL#Bool(false)"),
            (0, "Main.b7", "BOOL#Bool(true)"),
            (0, "Main.b8", "BOOL#Bool(true)"),
            (0, "Main.b9", "BOOL#Bool(true)"),
            (0, "Main.b10", "BOOL#Bool(true)"),
            (0, "Main.b11", "BOOL#Bool(false)"),
            (0, "Main.b12", "BOOL#Bool(true)"),
            (0, "Main.b13", "BOOL#Bool(true)"),
            (0, "Main.b14", "BOOL#Bool(true)"),
            (0, "Main.b15", "BOOL#Bool(false)"),
            (0, "Main.m", "ULINT#ULInt(9223372036854776807)"),
        ],
    },
];
