//! C10 — retain file: lossless codec, crash-atomic save, total decoder.
//!
//!  A  codec round trip (bit-exact) through the real FileRetainStore
//!  B  crash-point enumeration: a child process performs `store(s_new)` over an existing
//!     `s_old` under the LD_PRELOAD shim, which kills it before/after/inside system call n,
//!     for EVERY n of the observed call sequence; afterwards `load()` must be s_old or s_new
//!  C  hostile file contents: load() must return Ok/Err within a memory budget on a 2 MiB stack

use crate::alloc::measured;
use crate::ctx::{catch, on_stack, panic_sig, Shard};
use crate::rng::Rng;
use crate::vals::canon;
use indexmap::IndexMap;
use serde_json::json;
use smol_str::SmolStr;
use std::path::{Path, PathBuf};
use std::process::Command;
use trust_runtime::retain::{FileRetainStore, RetainStore};
use trust_runtime::value::*;
use trust_runtime::RetainSnapshot;

const STACK: usize = 2 * 1024 * 1024;
const ALLOC_CAP: usize = 1 << 30;

fn gen_string(rng: &mut Rng) -> String {
    match rng.below(6) {
        0 => String::new(),
        1 => "héllo wörld ✓ 日本語 😀".to_string(),
        2 => "a".repeat(rng.usize(300)),
        3 => "\u{0}\n\r\t$'\"".to_string(),
        _ => (0..rng.usize(12)).map(|_| (b'a' + rng.below(26) as u8) as char).collect(),
    }
}

fn edge_i64(rng: &mut Rng) -> i64 {
    *rng.pick(&[0, 1, -1, i64::MAX, i64::MIN, 42, 1 << 40, -(1 << 33)])
}

pub fn gen_value(rng: &mut Rng, depth: usize) -> Value {
    let top = if depth >= 3 { 27 } else { 30 };
    match rng.below(top) {
        0 => Value::Bool(rng.bool()),
        1 => Value::SInt(*rng.pick(&[0, 1, -1, i8::MAX, i8::MIN])),
        2 => Value::Int(*rng.pick(&[0, 1, -1, i16::MAX, i16::MIN])),
        3 => Value::DInt(*rng.pick(&[0, 1, -1, i32::MAX, i32::MIN])),
        4 => Value::LInt(edge_i64(rng)),
        5 => Value::USInt(*rng.pick(&[0, 1, u8::MAX])),
        6 => Value::UInt(*rng.pick(&[0, 1, u16::MAX])),
        7 => Value::UDInt(*rng.pick(&[0, 1, u32::MAX])),
        8 => Value::ULInt(*rng.pick(&[0, 1, u64::MAX, 1 << 63])),
        9 => Value::Real(f32::from_bits(*rng.pick(&[0, 0x8000_0000, 0x7fc0_0001, 0x7f80_0000, 0xff80_0000, 0x3f80_0000, 0x0000_0001, 0x7f7f_ffff, 0xffc1_2345]))),
        10 => Value::LReal(f64::from_bits(*rng.pick(&[0, 1 << 63, 0x7ff8_0000_0000_0001, 0x7ff0_0000_0000_0000, 0x3ff0_0000_0000_0000, 1, 0xfff8_dead_beef_0001]))),
        11 => Value::Byte(rng.next() as u8),
        12 => Value::Word(rng.next() as u16),
        13 => Value::DWord(rng.next() as u32),
        14 => Value::LWord(rng.next()),
        15 => Value::Time(Duration::from_nanos(edge_i64(rng))),
        16 => Value::LTime(Duration::from_nanos(edge_i64(rng))),
        17 => Value::Date(DateValue::new(edge_i64(rng))),
        18 => Value::LDate(LDateValue::new(edge_i64(rng))),
        19 => Value::Tod(TimeOfDayValue::new(edge_i64(rng))),
        20 => Value::LTod(LTimeOfDayValue::new(edge_i64(rng))),
        21 => Value::Dt(DateTimeValue::new(edge_i64(rng))),
        22 => Value::Ldt(LDateTimeValue::new(edge_i64(rng))),
        23 => Value::String(SmolStr::new(gen_string(rng))),
        24 => Value::WString(gen_string(rng)),
        25 => {
            if rng.bool() {
                Value::Char(rng.next() as u8)
            } else {
                Value::WChar(rng.next() as u16)
            }
        }
        26 => Value::Enum(EnumValue { type_name: SmolStr::new(gen_string(rng)), variant_name: SmolStr::new("V1"), numeric_value: edge_i64(rng) }),
        27 | 28 => {
            let n = rng.usize(5);
            let dims = if rng.bool() { vec![(rng.range(-3, 3), rng.range(3, 9))] } else { vec![(0, 1), (edge_i64(rng), edge_i64(rng))] };
            Value::Array(ArrayValue { elements: (0..n).map(|_| gen_value(rng, depth + 1)).collect(), dimensions: dims })
        }
        _ => {
            let n = rng.usize(4);
            let mut fields = IndexMap::new();
            for i in 0..n {
                fields.insert(SmolStr::new(format!("f{i}")), gen_value(rng, depth + 1));
            }
            Value::Struct(StructValue { type_name: SmolStr::new("T"), fields })
        }
    }
}

pub fn gen_snapshot(seed: u64, class: &str) -> RetainSnapshot {
    let mut rng = Rng::new(seed);
    let n = match class {
        "empty" => 0,
        "one" => 1,
        "small" => 2 + rng.usize(6),
        "large" => 2000 + rng.usize(8000),
        "huge-entry" => 1,
        "wide" => return gen_wide(&mut rng),
        _ => 1 + rng.usize(30),
    };
    let mut s = RetainSnapshot::default();
    for i in 0..n {
        let name = if rng.chance(1, 10) { format!("Ünï_{i}") } else { format!("P.var_{i}") };
        let v = if class == "huge-entry" {
            Value::Array(ArrayValue { elements: (0..20000).map(|k| Value::LInt(k)).collect(), dimensions: vec![(0, 19999)] })
        } else if class == "large" {
            Value::DInt(i as i32)
        } else {
            gen_value(&mut rng, 0)
        };
        s.insert(name, v);
    }
    s
}

/// Large flat collections of compound values: realistic recipe tables, many struct variables, wide structs, legally deep nesting.
fn gen_wide(rng: &mut Rng) -> RetainSnapshot {
    let mut s = RetainSnapshot::default();
    let rec = |rng: &mut Rng, k: usize| {
        let mut fields = IndexMap::new();
        for i in 0..1 + rng.usize(3) {
            fields.insert(SmolStr::new(format!("f{i}")), if i == 0 { Value::DInt(k as i32) } else { gen_value(rng, 3) });
        }
        Value::Struct(StructValue { type_name: SmolStr::new("Recipe"), fields })
    };
    match rng.below(5) {
        0 => {
            let n = 60 + rng.usize(340);
            s.insert("P.recipes", Value::Array(ArrayValue { elements: (0..n).map(|k| rec(rng, k)).collect(), dimensions: vec![(1, n as i64)] }));
        }
        1 => {
            for k in 0..60 + rng.usize(140) {
                s.insert(format!("P.unit_{k}"), rec(rng, k));
            }
        }
        2 => {
            let mut fields = IndexMap::new();
            for i in 0..100 + rng.usize(300) {
                fields.insert(SmolStr::new(format!("member_{i}")), Value::Int(i as i16));
            }
            s.insert("P.wide", Value::Struct(StructValue { type_name: SmolStr::new("Wide"), fields }));
        }
        3 => {
            let n = 60 + rng.usize(300);
            s.insert("P.matrix", Value::Array(ArrayValue { elements: (0..n).map(|k| Value::Array(ArrayValue { elements: vec![Value::Int(k as i16), Value::Bool(k % 2 == 0)], dimensions: vec![(0, 1)] })).collect(), dimensions: vec![(0, n as i64 - 1)] }));
        }
        _ => {
            // legally deep nesting (struct in array in struct ...), well below any sensible limit
            let depth = 4 + rng.usize(28);
            let mut v = Value::LInt(depth as i64);
            for d in 0..depth {
                v = if d % 2 == 0 {
                    Value::Array(ArrayValue { elements: vec![v, Value::Null], dimensions: vec![(0, 1)] })
                } else {
                    let mut fields = IndexMap::new();
                    fields.insert(SmolStr::new("inner"), v);
                    fields.insert(SmolStr::new("tag"), Value::Int(d as i16));
                    Value::Struct(StructValue { type_name: SmolStr::new("N"), fields })
                };
            }
            s.insert("P.deep", v);
        }
    }
    s
}

pub fn canon_snapshot(s: &RetainSnapshot) -> String {
    let mut out = String::new();
    for (k, v) in s.values() {
        out.push_str(k.as_str());
        out.push('=');
        out.push_str(&canon(v));
        out.push(';');
    }
    out
}

/// Entry for `tpv c10-child store <path> <seed> <class>` (runs under the shim).
pub fn child(args: &[String]) -> i32 {
    match args.first().map(|s| s.as_str()) {
        Some("store") => {
            let snap = gen_snapshot(args[2].parse().unwrap(), &args[3]);
            match FileRetainStore::new(PathBuf::from(&args[1])).store(&snap) {
                Ok(()) => 0,
                Err(e) => {
                    eprintln!("store failed: {e}");
                    9
                }
            }
        }
        _ => 2,
    }
}

fn fresh_dir(base: &Path, name: &str) -> PathBuf {
    let d = base.join(name);
    let _ = std::fs::remove_dir_all(&d);
    std::fs::create_dir_all(&d).expect("mkdir");
    d
}

fn load_checked(path: &Path) -> Result<Result<RetainSnapshot, String>, String> {
    let p = path.to_path_buf();
    on_stack(STACK, move || catch(|| FileRetainStore::new(p).load().map_err(|e| e.to_string())))
}

// ------------------------------------------------------------------ A

fn part_a(sh: &mut Shard, rng: &mut Rng, dir: &Path, n: usize) {
    for i in 0..n {
        let class = *rng.pick(&["empty", "one", "small", "mixed", "mixed", "mixed", "large", "wide", "wide"]);
        let seed = rng.next();
        // "every snapshot written is read back unchanged" also when the file already holds another one: a third of the cases
        // first store a snapshot of another class (often larger, or non-empty before an empty one) at the same path
        let before_class = if rng.chance(1, 3) { Some(*rng.pick(&["one", "small", "mixed", "large", "wide", "empty"])) } else { None };
        let before_seed = rng.next();
        let case = json!({"part":"A","class":class,"snap_seed":seed.to_string(),"before_class":before_class,"before_seed":before_seed.to_string()});
        if !sh.begin(&format!("A|{class}"), &case) {
            continue;
        }
        let snap = gen_snapshot(seed, class);
        let path = dir.join(format!("a{i}.bin"));
        let want = canon_snapshot(&snap);
        let before = before_class.map(|c| gen_snapshot(before_seed, c));
        if before.is_some() {
            sh.count("A_stores_over_an_existing_snapshot", 1);
        }
        let res = catch(|| {
            let st = FileRetainStore::new(path.clone());
            if let Some(b) = &before {
                st.store(b).map_err(|e| format!("store: {e}"))?;
            }
            st.store(&snap).map_err(|e| format!("store: {e}"))?;
            let got = st.load().map_err(|e| format!("load: {e}"))?;
            Ok::<_, String>(got)
        });
        match res {
            Err(p) => sh.violation(format!("A|panic|{}", panic_sig(&p)), p, case.clone()),
            Ok(Err(e)) => sh.violation(format!("A|error|{}", e.split(':').next().unwrap_or("")), e, case.clone()),
            Ok(Ok(got)) => {
                let g = canon_snapshot(&got);
                if g != want {
                    let at = g.bytes().zip(want.bytes()).position(|(a, b)| a != b).unwrap_or(0);
                    let ctx: String = want.chars().skip(at.saturating_sub(30)).take(80).collect();
                    sh.violation(if before.is_some() { "A|roundtrip-differs|over-existing-snapshot" } else { "A|roundtrip-differs" }, format!("snapshot class {class} (stored over {before_class:?}): first difference near `{ctx}`"), case.clone());
                } else {
                    sh.count("A_roundtrips_equal", 1);
                    sh.count("A_values_compared", snap.values().len() as u64);
                    if snap.values().values().any(|v| matches!(v, Value::Array(_) | Value::Struct(_))) {
                        sh.nontrivial(&format!("A{want}"));
                    }
                }
            }
        }
        let _ = std::fs::remove_file(&path);
        sh.end();
    }
}

// ------------------------------------------------------------------ D
// Saves through the runtime (RetainManager: change detection, save on request) with injected store failures:
// every save the runtime acknowledges with Ok must be on disk, i.e. a fresh load equals the current retained values.

struct FlakyStore {
    inner: FileRetainStore,
    /// number of upcoming store() calls that fail with an I/O-style error
    fail_next: std::sync::Arc<std::sync::atomic::AtomicU64>,
    calls: std::sync::Arc<std::sync::atomic::AtomicU64>,
}

impl RetainStore for FlakyStore {
    fn load(&self) -> Result<RetainSnapshot, trust_runtime::error::RuntimeError> {
        self.inner.load()
    }
    fn store(&self, snapshot: &RetainSnapshot) -> Result<(), trust_runtime::error::RuntimeError> {
        use std::sync::atomic::Ordering;
        self.calls.fetch_add(1, Ordering::SeqCst);
        if self.fail_next.load(Ordering::SeqCst) > 0 {
            self.fail_next.fetch_sub(1, Ordering::SeqCst);
            return Err(trust_runtime::error::RuntimeError::RetainStore("injected: no space left on device".into()));
        }
        self.inner.store(snapshot)
    }
}

const D_PROGRAM: &str = "CONFIGURATION C\nVAR_GLOBAL RETAIN gkeep : DINT; END_VAR\nVAR_GLOBAL hold : BOOL; END_VAR\nPROGRAM P : Main;\nEND_CONFIGURATION\nPROGRAM Main\nVAR RETAIN a : DINT; b : INT; END_VAR\nVAR_EXTERNAL gkeep : DINT; hold : BOOL; END_VAR\nIF NOT hold THEN\n  a := a + DINT#1;\n  b := b + INT#2;\n  gkeep := gkeep + DINT#3;\nEND_IF;\nEND_PROGRAM\n";

/// the same program without any retained variable: its snapshot is empty
const D_PROGRAM_EMPTY: &str = "CONFIGURATION C\nVAR_GLOBAL gkeep : DINT; hold : BOOL; END_VAR\nPROGRAM P : Main;\nEND_CONFIGURATION\nPROGRAM Main\nVAR a : DINT; b : INT; END_VAR\nVAR_EXTERNAL gkeep : DINT; hold : BOOL; END_VAR\nIF NOT hold THEN\n  a := a + DINT#1;\n  b := b + INT#2;\n  gkeep := gkeep + DINT#3;\nEND_IF;\nEND_PROGRAM\n";

fn part_d(sh: &mut Shard, rng: &mut Rng, dir: &Path, n: usize) {
    use std::sync::atomic::{AtomicU64, Ordering};
    use std::sync::Arc;
    for i in 0..n {
        if !sh.time_left() {
            break;
        }
        let seed = rng.next();
        let mut r = Rng::new(seed);
        let nops = 4 + r.usize(30);
        // ops: 0 = cycle changing the values, 1 = cycle holding them, 2 = save, 3 = arm k store failures
        let ops: Vec<(u8, u64)> = (0..nops).map(|_| match r.below(8) { 0 | 1 => (0, 0), 2 | 3 => (1, 0), 4 | 5 | 6 => (2, 0), _ => (3, 1 + r.below(2)) }).collect();
        // the file may already hold the snapshot of an earlier program version, and this version may retain nothing
        let old_on_disk = r.chance(1, 2);
        let retains_nothing = r.chance(1, 3);
        let case = json!({"part": "D", "seed": seed.to_string(), "ops": ops, "old_snapshot_on_disk": old_on_disk, "program_retains_nothing": retains_nothing});
        if !sh.begin("D|acknowledged-save", &case) {
            continue;
        }
        let path = dir.join(format!("d{i}.bin"));
        let _ = std::fs::remove_file(&path);
        if old_on_disk {
            let mut old = RetainSnapshot::default();
            old.insert("Main.a", Value::DInt(999));
            old.insert("Main.stale", Value::Int(7));
            old.insert("gkeep", Value::DInt(-5));
            let _ = FileRetainStore::new(path.clone()).store(&old);
        }
        let p2 = path.clone();
        let ops2 = ops.clone();
        let res = catch(move || -> Result<(u64, u64, u64), (String, String)> {
            let mut h = trust_runtime::harness::TestHarness::from_source(if retains_nothing { D_PROGRAM_EMPTY } else { D_PROGRAM }).map_err(|e| ("harness".to_string(), e.to_string()))?;
            let fail_next = Arc::new(AtomicU64::new(0));
            let calls = Arc::new(AtomicU64::new(0));
            h.runtime_mut().set_retain_store(Some(Box::new(FlakyStore { inner: FileRetainStore::new(p2.clone()), fail_next: fail_next.clone(), calls: calls.clone() })), None);
            let (mut acked, mut failed, mut skipped_writes) = (0u64, 0u64, 0u64);
            let mut n_changed = 0i64; // cycles that changed the retained values
            for (k, (op, arg)) in ops2.iter().enumerate() {
                match op {
                    0 | 1 => {
                        h.set_input("hold", *op == 1);
                        h.advance_time(Duration::from_millis(10));
                        let c = h.cycle();
                        if let Some(e) = c.errors.first() {
                            return Err(("D|cycle-error".into(), format!("op {k}: {e:?}")));
                        }
                        if *op == 0 {
                            n_changed += 1;
                        }
                    }
                    3 => fail_next.store(*arg, Ordering::SeqCst),
                    _ => {
                        let before = calls.load(Ordering::SeqCst);
                        match h.runtime_mut().save_retain_store() {
                            Err(_) => failed += 1,
                            Ok(()) => {
                                acked += 1;
                                if calls.load(Ordering::SeqCst) == before {
                                    skipped_writes += 1; // change detection: legitimate only if the file already holds these values
                                }
                                let on_disk = FileRetainStore::new(p2.clone()).load().map_err(|e| ("D|acknowledged-save-not-loadable".to_string(), format!("op {k}: save returned Ok, load fails: {e}")))?;
                                if retains_nothing {
                                    if !on_disk.values().is_empty() {
                                        return Err((
                                            "D|acknowledged-save-not-on-disk".into(),
                                            format!("op {k}: save_retain_store() returned Ok for a program that retains nothing, but the file still holds {} value(s) of an earlier snapshot (store calls during this save: {})", on_disk.values().len(), calls.load(Ordering::SeqCst) - before),
                                        ));
                                    }
                                    continue;
                                }
                                let get = |name: &str| on_disk.values().iter().find(|(key, _)| key.eq_ignore_ascii_case(name) || key.to_ascii_lowercase().ends_with(&format!(".{}", name.to_ascii_lowercase()))).map(|(_, v)| canon(v));
                                let want = [("a", canon(&Value::DInt(n_changed as i32))), ("b", canon(&Value::Int((2 * n_changed) as i16))), ("gkeep", canon(&Value::DInt((3 * n_changed) as i32)))];
                                for (name, w) in want {
                                    let got = get(name);
                                    if got.as_deref() != Some(w.as_str()) {
                                        return Err((
                                            "D|acknowledged-save-not-on-disk".into(),
                                            format!("op {k}: save_retain_store() returned Ok but the file holds {name} = {got:?}, the runtime holds {w} (store calls during this save: {}, earlier failed saves: {failed})", calls.load(Ordering::SeqCst) - before),
                                        ));
                                    }
                                }
                            }
                        }
                    }
                }
            }
            Ok((acked, failed, skipped_writes))
        });
        match res {
            Err(p) => sh.violation(format!("D|panic|{}", panic_sig(&p)), p, case.clone()),
            Ok(Err((sig, d))) => {
                if sig == "harness" {
                    sh.inconclusive(d);
                } else {
                    sh.violation(sig, d, case.clone());
                }
            }
            Ok(Ok((acked, failed, skipped))) => {
                sh.count("D_acknowledged_saves_verified_on_disk", acked);
                sh.count("D_saves_refused_by_injected_failure", failed);
                sh.count("D_saves_skipped_as_unchanged", skipped);
                if acked > 0 && failed > 0 {
                    sh.nontrivial(&("D", seed));
                }
            }
        }
        let _ = std::fs::remove_file(&path);
        sh.end();
    }
}

// ------------------------------------------------------------------ B

struct Call {
    n: u64,
    name: String,
    len: i64,
}

fn run_child(path: &Path, seed: u64, class: &str, dir: &Path, at: u64, mode: &str, log: Option<&Path>, shim: &Path) -> Option<i32> {
    let exe = std::env::current_exe().ok()?;
    let mut c = Command::new(exe);
    c.arg("c10-child").arg("store").arg(path).arg(seed.to_string()).arg(class);
    c.env("LD_PRELOAD", shim).env("CRASH_DIR", dir).env("CRASH_AT", at.to_string()).env("CRASH_MODE", mode);
    match log {
        Some(l) => {
            c.env("CRASH_LOG", l);
        }
        None => {
            c.env_remove("CRASH_LOG");
        }
    }
    c.stdout(std::process::Stdio::null()).stderr(std::process::Stdio::null());
    c.status().ok().and_then(|s| s.code())
}

fn part_b(sh: &mut Shard, rng: &mut Rng, base: &Path, pairs: usize) {
    let target = std::env::var("TPV_TARGET").unwrap_or_else(|_| "/verif/target".into());
    let shim = PathBuf::from(target).join("libcrashpoint.so");
    if !shim.exists() {
        sh.inconclusive("crash-point shim not built");
        return;
    }
    for pi in 0..pairs {
        let old_class = *rng.pick(&["none", "small", "mixed", "large", "one", "huge-entry"]);
        let new_class = *rng.pick(&["small", "mixed", "large", "empty", "one", "huge-entry"]);
        let (old_seed, new_seed) = (rng.next(), rng.next());
        let s_old = if old_class == "none" { RetainSnapshot::default() } else { gen_snapshot(old_seed, old_class) };
        let s_new = gen_snapshot(new_seed, new_class);
        let (c_old, c_new) = (canon_snapshot(&s_old), canon_snapshot(&s_new));
        if c_old == c_new {
            continue;
        }
        let prepare = |name: &str| -> (PathBuf, PathBuf) {
            let d = fresh_dir(base, name);
            let p = d.join("retain.bin");
            if old_class != "none" {
                FileRetainStore::new(p.clone()).store(&s_old).expect("store old");
            }
            (d, p)
        };
        // dry run: learn the system-call sequence of this save
        let (d, p) = prepare(&format!("b{pi}"));
        let log = base.join(format!("b{pi}.log"));
        let _ = std::fs::remove_file(&log);
        let rc = run_child(&p, new_seed, new_class, &d, 0, "before", Some(&log), &shim);
        let calls: Vec<Call> = std::fs::read_to_string(&log)
            .unwrap_or_default()
            .lines()
            .filter_map(|l| {
                let mut it = l.split(' ');
                Some(Call { n: it.next()?.parse().ok()?, name: it.next()?.to_string(), len: it.next()?.parse().ok()? })
            })
            .collect();
        let _ = std::fs::remove_file(&log);
        if rc != Some(0) || calls.len() < 2 {
            sh.inconclusive(format!("dry run: rc={rc:?}, {} intercepted calls (std no longer goes through libc?)", calls.len()));
            continue;
        }
        // after an undisturbed save the new snapshot must load
        match load_checked(&p) {
            Ok(Ok(s)) if canon_snapshot(&s) == c_new => {}
            other => {
                sh.violation("B|undisturbed-save-not-readable", format!("{:?}", other.map(|r| r.map(|s| s.values().len()))), json!({"part":"B","old":[old_class, old_seed.to_string()],"new":[new_class,new_seed.to_string()]}));
                continue;
            }
        }
        sh.seen("B_syscall_sequences", calls.iter().map(|c| c.name.as_str()).collect::<Vec<_>>().join(","));
        sh.max("B_calls_in_save", calls.len() as u64);
        for c in &calls {
            let mut modes: Vec<String> = vec!["before".into(), "after".into()];
            if c.name == "write" && c.len > 1 {
                let mut ks = vec![1, c.len / 2, c.len - 1];
                ks.dedup();
                for k in ks {
                    modes.push(format!("partial:{k}"));
                }
            }
            for mode in modes {
                let mclass = mode.split(':').next().unwrap().to_string();
                let case = json!({"part":"B","old":[old_class, old_seed.to_string()],"new":[new_class,new_seed.to_string()],"at":c.n,"call":c.name,"mode":mode});
                if !sh.begin(&format!("B|{}|{}", c.name, mclass), &case) {
                    continue;
                }
                let (d, p) = prepare(&format!("b{pi}"));
                let rc = run_child(&p, new_seed, new_class, &d, c.n, &mode, None, &shim);
                if rc != Some(137) {
                    sh.inconclusive(format!("child did not die at injected point (rc={rc:?})"));
                    sh.end();
                    continue;
                }
                sh.count("B_crash_points_injected", 1);
                sh.nontrivial(&format!("B|{old_class}|{new_class}|{}|{}|{mode}", c.n, c.name));
                let sigbase = format!("{}:{}|old={}", mclass, c.name, if old_class == "none" { "none" } else { "some" });
                match load_checked(&p) {
                    Err(pn) => sh.violation(format!("B|load-panic|{sigbase}"), pn, case.clone()),
                    Ok(Err(e)) => sh.violation(format!("B|load-error|{sigbase}"), format!("after crash {mode} call {} ({}): load() = Err({e})", c.n, c.name), case.clone()),
                    Ok(Ok(s)) => {
                        let g = canon_snapshot(&s);
                        if g == c_old {
                            sh.count("B_loaded_old", 1);
                        } else if g == c_new {
                            sh.count("B_loaded_new", 1);
                        } else if s.values().is_empty() {
                            sh.violation(format!("B|load-empty|{sigbase}"), format!("after crash {mode} call {} ({}): load() returned an empty set", c.n, c.name), case.clone());
                        } else {
                            sh.violation(format!("B|load-mixture|{sigbase}"), format!("after crash {mode} call {} ({}): load() returned {} values, neither old nor new", c.n, c.name, s.values().len()), case.clone());
                        }
                    }
                }
                sh.end();
            }
        }
        let _ = std::fs::remove_dir_all(base.join(format!("b{pi}")));
    }
}

// ------------------------------------------------------------------ C

fn encode(s: &RetainSnapshot, dir: &Path) -> Vec<u8> {
    let p = dir.join("enc.bin");
    FileRetainStore::new(p.clone()).store(s).expect("encode");
    let b = std::fs::read(&p).expect("read");
    let _ = std::fs::remove_file(&p);
    b
}

fn hostile_case(sh: &mut Shard, dir: &Path, class: &str, label: String, bytes: Vec<u8>) {
    // keep replay small: store bytes as hex when short, otherwise a recipe label
    let case = if bytes.len() <= 4096 {
        json!({"part":"C","class":class,"label":label,"hex": bytes.iter().map(|b| format!("{b:02x}")).collect::<String>()})
    } else {
        json!({"part":"C","class":class,"label":label,"len":bytes.len()})
    };
    if !sh.begin(&format!("C|{class}"), &case) {
        return;
    }
    let p = dir.join("hostile.bin");
    std::fs::write(&p, &bytes).expect("write hostile");
    let budget = 128 * bytes.len() + (1 << 20);
    let p2 = p.clone();
    let (res, peak, largest) = measured(ALLOC_CAP, || load_checked(&p2));
    sh.count("C_inputs_decoded", 1);
    sh.max("C_peak_bytes", peak as u64);
    match res {
        Err(pn) => sh.violation(format!("C|panic|{class}|{}", panic_sig(&pn)), pn, case.clone()),
        Ok(r) => {
            if peak > budget {
                sh.violation(format!("C|memory|{class}"), format!("peak {peak} B (largest request {largest} B) for a {} B file, budget {budget}", bytes.len()), case.clone());
            }
            match r {
                Ok(_) => sh.count("C_returned_ok", 1),
                Err(_) => sh.count("C_returned_err", 1),
            }
            sh.nontrivial(&crate::ctx::fnv_bytes(&bytes));
        }
    }
    sh.end();
}

fn part_c(sh: &mut Shard, rng: &mut Rng, dir: &Path) {
    let thorough = sh.args.thorough();
    let hostile32: [u32; 6] = [0, 1, 0x7fff_ffff, 0x8000_0000, 0xffff_fffe, 0xffff_ffff];
    // systematic part on a small valid file
    let small = gen_snapshot(7 + sh.args.shard, "small");
    let b = encode(&small, dir);
    sh.count("C_seed_file_len", b.len() as u64);
    for k in 0..b.len() {
        hostile_case(sh, dir, "prefix", format!("prefix {k}"), b[..k].to_vec());
    }
    let step = if thorough { 1 } else { 2 };
    for off in (0..b.len().saturating_sub(4)).step_by(step) {
        for h in hostile32 {
            let mut m = b.clone();
            m[off..off + 4].copy_from_slice(&h.to_le_bytes());
            hostile_case(sh, dir, "u32-patch", format!("u32 {h:#x} at {off}"), m);
        }
    }
    for off in 0..b.len() {
        for v in [0u8, 28, 29, 30, 31, 32, 0xff] {
            let mut m = b.clone();
            m[off] = v;
            hostile_case(sh, dir, "byte-patch", format!("byte {v} at {off}"), m);
        }
    }
    // constructed: count fields larger than the file, nested containers
    let header = |count: u32| {
        let mut v = b"STRN".to_vec();
        v.extend_from_slice(&1u16.to_le_bytes());
        v.extend_from_slice(&count.to_le_bytes());
        v
    };
    let named = |v: &mut Vec<u8>, name: &str| {
        v.extend_from_slice(&(name.len() as u32).to_le_bytes());
        v.extend_from_slice(name.as_bytes());
    };
    for count in [u32::MAX, 1 << 31, 1 << 24] {
        hostile_case(sh, dir, "entry-count", format!("count {count}"), header(count));
    }
    for (len, dims) in [(u32::MAX, 0u32), (1 << 28, 0), (0, u32::MAX), (0, 1 << 27), (1 << 30, 1)] {
        let mut v = header(1);
        named(&mut v, "a");
        v.push(28);
        v.extend_from_slice(&len.to_le_bytes());
        v.extend_from_slice(&dims.to_le_bytes());
        hostile_case(sh, dir, "array-length", format!("array len {len} dims {dims}"), v);
    }
    for count in [u32::MAX, 1 << 28] {
        let mut v = header(1);
        named(&mut v, "s");
        v.push(29);
        named(&mut v, "T");
        v.extend_from_slice(&count.to_le_bytes());
        hostile_case(sh, dir, "struct-count", format!("struct fields {count}"), v);
    }
    let depths: &[usize] = if thorough { &[100, 1000, 10_000, 100_000] } else { &[100, 1000, 10_000, 100_000] };
    for &depth in depths {
        let mut v = header(1);
        named(&mut v, "n");
        for _ in 0..depth {
            v.push(28);
            v.extend_from_slice(&1u32.to_le_bytes());
            v.extend_from_slice(&0u32.to_le_bytes());
        }
        v.push(1);
        v.push(1);
        hostile_case(sh, dir, "array-nesting", format!("nested arrays depth {depth}"), v);
        let mut v = header(1);
        named(&mut v, "n");
        for _ in 0..depth {
            v.push(29);
            named(&mut v, "T");
            v.extend_from_slice(&1u32.to_le_bytes());
            named(&mut v, "f");
        }
        v.push(1);
        v.push(1);
        hostile_case(sh, dir, "struct-nesting", format!("nested structs depth {depth}"), v);
    }
    // random part
    let mut i = 0;
    while sh.time_left() && i < if thorough { 200_000 } else { 3000 } {
        i += 1;
        let mut r = rng.fork(i);
        let snap = gen_snapshot(r.next(), "mixed");
        let mut m = encode(&snap, dir);
        match r.below(4) {
            0 => {
                let k = r.usize(m.len().max(1));
                m.truncate(k);
                hostile_case(sh, dir, "rand-truncate", format!("truncate {k}"), m);
            }
            1 => {
                for _ in 0..1 + r.usize(4) {
                    if m.len() >= 4 {
                        let off = r.usize(m.len() - 3);
                        let h = *r.pick(&hostile32);
                        m[off..off + 4].copy_from_slice(&h.to_le_bytes());
                    }
                }
                hostile_case(sh, dir, "rand-u32", "multi u32 patch".into(), m);
            }
            2 => {
                let mut v = header(r.below(5) as u32);
                for _ in 0..r.usize(200) {
                    v.push(r.next() as u8);
                }
                hostile_case(sh, dir, "rand-bytes", "random after header".into(), v);
            }
            _ => {
                let a = r.usize(m.len());
                let bb = (a + r.usize(20)).min(m.len());
                let chunk: Vec<u8> = m[a..bb].to_vec();
                let at = r.usize(m.len());
                for (j, c) in chunk.into_iter().enumerate() {
                    m.insert(at + j, c);
                }
                hostile_case(sh, dir, "rand-splice", "splice".into(), m);
            }
        }
    }
}

pub fn run(sh: &mut Shard) {
    let work = std::env::var("TPV_WORKDIR").unwrap_or_else(|_| "/tmp".into());
    let base = PathBuf::from(work).join(format!("c10-{}-{}", sh.args.shard, std::process::id()));
    let _ = std::fs::remove_dir_all(&base);
    std::fs::create_dir_all(&base).expect("mkdir");
    if let Some(path) = sh.args.replay.clone() {
        replay(sh, &path, &base);
        let _ = std::fs::remove_dir_all(&base);
        return;
    }
    let rng = Rng::new(sh.args.shard_seed());
    let thorough = sh.args.thorough();
    part_a(sh, &mut rng.fork(1), &base, if thorough { 3000 } else { 150 });
    part_b(sh, &mut rng.fork(2), &base, if thorough { 12 } else { 2 });
    part_c(sh, &mut rng.fork(3), &base);
    part_d(sh, &mut rng.fork(4), &base, if thorough { 20000 } else { 400 });
    let _ = std::fs::remove_dir_all(&base);
}

fn replay(sh: &mut Shard, path: &str, base: &Path) {
    let v: serde_json::Value = serde_json::from_str(&std::fs::read_to_string(path).expect("replay")).expect("json");
    let r = if v.get("replay").is_some() { v["replay"].clone() } else { v };
    let r = if r.get("case").is_some() { r["case"].clone() } else { r };
    match r["part"].as_str() {
        Some("C") => {
            if let Some(hex) = r["hex"].as_str() {
                let bytes: Vec<u8> = (0..hex.len() / 2).map(|i| u8::from_str_radix(&hex[2 * i..2 * i + 2], 16).unwrap()).collect();
                hostile_case(sh, base, r["class"].as_str().unwrap_or("replay"), "replay".into(), bytes);
            } else {
                // long inputs are regenerated from their label
                let label = r["label"].as_str().unwrap_or("");
                let depth: usize = label.rsplit(' ').next().and_then(|d| d.parse().ok()).unwrap_or(100_000);
                let mut vv = b"STRN".to_vec();
                vv.extend_from_slice(&1u16.to_le_bytes());
                vv.extend_from_slice(&1u32.to_le_bytes());
                vv.extend_from_slice(&1u32.to_le_bytes());
                vv.push(b'n');
                for _ in 0..depth {
                    vv.push(28);
                    vv.extend_from_slice(&1u32.to_le_bytes());
                    vv.extend_from_slice(&0u32.to_le_bytes());
                }
                vv.extend_from_slice(&[1, 1]);
                hostile_case(sh, base, "array-nesting", label.to_string(), vv);
            }
        }
        Some("B") => {
            let target = std::env::var("TPV_TARGET").unwrap_or_else(|_| "/verif/target".into());
            let shim = PathBuf::from(target).join("libcrashpoint.so");
            let (oc, os) = (r["old"][0].as_str().unwrap(), r["old"][1].as_str().unwrap().parse::<u64>().unwrap());
            let (nc, ns) = (r["new"][0].as_str().unwrap(), r["new"][1].as_str().unwrap().parse::<u64>().unwrap());
            let s_old = if oc == "none" { RetainSnapshot::default() } else { gen_snapshot(os, oc) };
            let s_new = gen_snapshot(ns, nc);
            let d = fresh_dir(base, "replay");
            let p = d.join("retain.bin");
            if oc != "none" {
                FileRetainStore::new(p.clone()).store(&s_old).expect("store old");
            }
            sh.begin("replay", &r);
            let rc = run_child(&p, ns, nc, &d, r["at"].as_u64().unwrap(), r["mode"].as_str().unwrap(), None, &shim);
            match load_checked(&p) {
                Ok(Ok(s)) if canon_snapshot(&s) == canon_snapshot(&s_old) || canon_snapshot(&s) == canon_snapshot(&s_new) => {}
                other => sh.violation("B|replay", format!("child rc {rc:?}; load = {:?}", other.map(|x| x.map(|s| s.values().len()))), r.clone()),
            }
            sh.end();
        }
        _ => {
            let class = r["class"].as_str().unwrap_or("mixed").to_string();
            let seed: u64 = r["snap_seed"].as_str().and_then(|s| s.parse().ok()).unwrap_or(1);
            sh.begin("replay", &r);
            let snap = gen_snapshot(seed, &class);
            let p = base.join("r.bin");
            let st = FileRetainStore::new(p);
            if let Some(bc) = r["before_class"].as_str() {
                let bs: u64 = r["before_seed"].as_str().and_then(|s| s.parse().ok()).unwrap_or(1);
                let _ = catch(|| st.store(&gen_snapshot(bs, bc)));
            }
            match catch(|| st.store(&snap).and_then(|_| st.load())) {
                Ok(Ok(got)) if canon_snapshot(&got) == canon_snapshot(&snap) => {}
                other => sh.violation("A|replay", format!("{:?}", other.map(|x| x.map(|s| s.values().len()))), r.clone()),
            }
            sh.end();
        }
    }
}
