//! C18 — the control endpoint executes a request only with a sufficient role.
//!
//! A real ControlServer listens on a unix socket.  After every single request an *effect observer*
//! diffs everything a request could change: debugger mode / breakpoints, queued and forced writes
//! (made visible by cycling a side-effect-free probe runtime attached to the same DebugControl),
//! resource commands received, resource state, settings, control mode, auth token, pending restart,
//! pairing data, files under project_root.  The oracle is derived from observation (refused => no
//! effect; role monotonicity; effect under admin => refused for viewer; no valid token => nothing
//! changes and nothing leaks; debug gate; malformed lines answered), not from the role table.

use crate::ctx::{catch, panic_sig, Shard};
use crate::rng::Rng;
use crate::walk;
use indexmap::IndexMap;
use serde_json::{json, Value as J};
use smol_str::SmolStr;
use std::collections::{BTreeMap, BTreeSet, VecDeque};
use std::io::{BufRead, BufReader, Write};
use std::os::unix::net::UnixStream;
use std::path::{Path, PathBuf};
use std::sync::atomic::{AtomicBool, AtomicU64, Ordering};
use std::sync::{Arc, Mutex};
use trust_runtime::config::ControlMode;
use trust_runtime::control::{ControlEndpoint, ControlServer, ControlState, HmiRuntimeDescriptor, SourceFile, SourceRegistry};
use trust_runtime::debug::{DebugControl, DebugVariableHandles};
use trust_runtime::harness::{bytecode_bytes_from_source, TestHarness};
use trust_runtime::io::IoAddress;
use trust_runtime::metrics::RuntimeMetrics;
use trust_runtime::scheduler::{ResourceCommand, ResourceControl, ResourceRunner, ResourceState, StartGate, StdClock};
use trust_runtime::security::AccessRole;
use trust_runtime::settings::{BaseSettings, DiscoverySettings, MeshSettings, RuntimeSettings, SimulationSettings, WebSettings};
use trust_runtime::value::Duration;
use trust_runtime::watchdog::{FaultPolicy, RetainMode, WatchdogPolicy};
use trust_runtime::web::pairing::PairingStore;

const ADMIN_TOKEN: &str = "adm1n-t0ken-XYZZY";
const MARKERS: [&str; 3] = ["SECRETVAR", "424242", ADMIN_TOKEN];

const SRC_A: &str = "PROGRAM Main\nVAR_EXTERNAL gx : DINT; gy : DINT; SECRETVAR_1 : DINT; END_VAR\ngx := gx;\ngy := gy;\nEND_PROGRAM\nCONFIGURATION C\nVAR_GLOBAL gx : DINT := 1; gy : DINT := 2; SECRETVAR_1 : DINT := 424242; END_VAR\nVAR_GLOBAL RETAIN gr : DINT := 3; END_VAR\nPROGRAM Main : Main;\nEND_CONFIGURATION\n";
// same data, no statements: cycling it can never block in the debugger hook
const SRC_B: &str = "PROGRAM Main\nVAR_EXTERNAL gx : DINT; END_VAR\nEND_PROGRAM\nCONFIGURATION C\nVAR_GLOBAL gx : DINT := 1; gy : DINT := 2; SECRETVAR_1 : DINT := 424242; END_VAR\nVAR_GLOBAL RETAIN gr : DINT := 3; END_VAR\nPROGRAM Main : Main;\nEND_CONFIGURATION\n";
const SRC_RELOAD: &str = "PROGRAM Main\nVAR x : INT; END_VAR\nx := x + INT#1;\nEND_PROGRAM\n";

fn b64(data: &[u8]) -> String {
    const T: &[u8; 64] = b"ABCDEFGHIJKLMNOPQRSTUVWXYZabcdefghijklmnopqrstuvwxyz0123456789+/";
    let mut out = String::new();
    for c in data.chunks(3) {
        let n = (c[0] as u32) << 16 | (*c.get(1).unwrap_or(&0) as u32) << 8 | *c.get(2).unwrap_or(&0) as u32;
        out.push(T[(n >> 18) as usize & 63] as char);
        out.push(T[(n >> 12) as usize & 63] as char);
        out.push(if c.len() > 1 { T[(n >> 6) as usize & 63] as char } else { '=' });
        out.push(if c.len() > 2 { T[n as usize & 63] as char } else { '=' });
    }
    out
}

fn settings() -> RuntimeSettings {
    RuntimeSettings::new(
        BaseSettings { log_level: SmolStr::new("info"), watchdog: WatchdogPolicy::default(), fault_policy: FaultPolicy::SafeHalt, retain_mode: RetainMode::None, retain_save_interval: None },
        WebSettings { enabled: false, listen: SmolStr::new("127.0.0.1:0"), auth: SmolStr::new("local"), tls: false },
        DiscoverySettings { enabled: false, service_name: SmolStr::new("truST"), advertise: false, interfaces: Vec::new() },
        MeshSettings { enabled: false, listen: SmolStr::new("127.0.0.1:0"), tls: false, auth_token: None, publish: Vec::new(), subscribe: IndexMap::new() },
        SimulationSettings { enabled: false, time_scale: 1, mode_label: SmolStr::new("production"), warning: SmolStr::new("") },
    )
}

#[derive(Clone, Debug, PartialEq, Eq, Hash, PartialOrd, Ord)]
pub struct Config {
    pub token: bool,
    pub debug_on: bool,
    pub pairing: bool,
    pub production: bool,
}

struct Env {
    cfg: Config,
    state: Arc<ControlState>,
    sock: PathBuf,
    conn: Option<(BufReader<UnixStream>, UnixStream)>,
    probe: TestHarness,
    commands: Arc<Mutex<Vec<String>>>,
    clock: Arc<AtomicU64>,
    tokens: BTreeMap<&'static str, String>, // role -> pairing token
    expired: String,
    revoked: String,
    revoked_twin: String,
    root: PathBuf,
    gated: bool,
    reloaded: bool,
    _keep: Vec<Box<dyn std::any::Any>>,
}

static SOCK_N: AtomicU64 = AtomicU64::new(0);

fn build_env(cfg: &Config, work: &Path, gated: bool) -> Result<Env, String> {
    let n = SOCK_N.fetch_add(1, Ordering::SeqCst);
    let dir = work.join(format!("c18-{}-{n}", std::process::id()));
    let _ = std::fs::remove_dir_all(&dir);
    std::fs::create_dir_all(dir.join("project")).map_err(|e| e.to_string())?;
    let root = dir.join("project");
    std::fs::write(root.join("main.st"), SRC_A).map_err(|e| e.to_string())?;
    let mut a = TestHarness::from_source(SRC_A).map_err(|e| e.to_string())?;
    let debug: DebugControl = a.runtime_mut().enable_debug();
    a.cycle();
    let metadata = a.runtime().metadata_snapshot();
    let mut probe = TestHarness::from_source(SRC_B).map_err(|e| e.to_string())?;
    probe.runtime_mut().set_debug_control(debug.clone());
    probe.runtime_mut().io_mut().resize(8, 8, 8);
    let commands: Arc<Mutex<Vec<String>>> = Arc::new(Mutex::new(Vec::new()));
    let mut keep: Vec<Box<dyn std::any::Any>> = Vec::new();
    let resource: ResourceControl<StdClock> = if gated {
        // a real resource thread held at its start gate: `shutdown` becomes observable as state Stopped
        let rt = TestHarness::from_source(SRC_B).map_err(|e| e.to_string())?.into_runtime();
        let gate = Arc::new(StartGate::new());
        let handle = ResourceRunner::new(rt, StdClock::new(), Duration::from_millis(10)).with_start_gate(gate.clone()).spawn(format!("c18-res-{n}")).map_err(|e| e.to_string())?;
        let ctl = handle.control();
        for _ in 0..500 {
            if ctl.state() == ResourceState::Ready {
                break;
            }
            std::thread::sleep(std::time::Duration::from_millis(2));
        }
        keep.push(Box::new(handle));
        keep.push(Box::new(gate));
        ctl
    } else {
        let (resource, rx) = ResourceControl::stub(StdClock::new());
        let log = commands.clone();
        let reload_meta = TestHarness::from_source(SRC_RELOAD).map_err(|e| e.to_string())?.runtime().metadata_snapshot();
        std::thread::spawn(move || {
            while let Ok(c) = rx.recv() {
                let name = match &c {
                    ResourceCommand::Pause => "Pause",
                    ResourceCommand::Resume => "Resume",
                    ResourceCommand::UpdateWatchdog(_) => "UpdateWatchdog",
                    ResourceCommand::UpdateFaultPolicy(_) => "UpdateFaultPolicy",
                    ResourceCommand::UpdateRetainSaveInterval(_) => "UpdateRetainSaveInterval",
                    ResourceCommand::UpdateIoSafeState(_) => "UpdateIoSafeState",
                    ResourceCommand::ReloadBytecode { .. } => "ReloadBytecode",
                    ResourceCommand::MeshSnapshot { .. } => "MeshSnapshot",
                    ResourceCommand::MeshApply { .. } => "MeshApply",
                    ResourceCommand::Snapshot { .. } => "Snapshot",
                };
                // Snapshot / MeshSnapshot are read-only queries of the resource
                if !matches!(c, ResourceCommand::Snapshot { .. } | ResourceCommand::MeshSnapshot { .. }) {
                    log.lock().unwrap().push(name.to_string());
                }
                match c {
                    ResourceCommand::ReloadBytecode { respond_to, .. } => {
                        let _ = respond_to.send(Ok(reload_meta.clone()));
                    }
                    ResourceCommand::MeshSnapshot { respond_to, .. } => {
                        let _ = respond_to.send(IndexMap::new());
                    }
                    ResourceCommand::Snapshot { respond_to } => {
                        drop(respond_to);
                    }
                    _ => {}
                }
            }
        });
        resource
    };
    let sources = SourceRegistry::new(vec![SourceFile { id: 0, path: root.join("main.st"), text: SRC_A.to_string() }]);
    let hmi_descriptor = Arc::new(Mutex::new(HmiRuntimeDescriptor::from_sources(Some(&root), &sources)));
    let clock = Arc::new(AtomicU64::new(1_000_000));
    let (pairing, tokens, expired, revoked, revoked_twin) = if cfg.pairing {
        let c2 = clock.clone();
        let store = Arc::new(PairingStore::with_clock(dir.join("pairing.json"), Arc::new(move || c2.load(Ordering::SeqCst))));
        let mut tokens = BTreeMap::new();
        // an expired token: claimed long ago
        clock.store(1_000, Ordering::SeqCst);
        let code = store.start_pairing();
        let expired = store.claim(&code.code, Some(AccessRole::Admin)).ok_or("claim expired")?;
        clock.store(1_000 + 40 * 24 * 3600, Ordering::SeqCst);
        for (name, role) in [("viewer", AccessRole::Viewer), ("operator", AccessRole::Operator), ("engineer", AccessRole::Engineer)] {
            clock.fetch_add(1, Ordering::SeqCst); // token ids are derived from the clock second
            let code = store.start_pairing();
            tokens.insert(name, store.claim(&code.code, Some(role)).ok_or("claim")?);
        }
        clock.fetch_add(1, Ordering::SeqCst);
        let ids_before: BTreeSet<String> = store.list().into_iter().map(|s| s.id).collect();
        let code = store.start_pairing();
        let revoked = store.claim(&code.code, Some(AccessRole::Admin)).ok_or("claim revoked")?;
        let id = store.list().into_iter().map(|s| s.id).find(|i| !ids_before.contains(i)).ok_or("list")?;
        if !store.revoke(&id) {
            return Err("revoke failed".into());
        }
        // two tokens claimed within one clock second share an id; revoking that id must disable both.
        // Not verified here: the trials observe at the socket whether the twin is still honoured.
        clock.fetch_add(1, Ordering::SeqCst);
        let ids_before: BTreeSet<String> = store.list().into_iter().map(|s| s.id).collect();
        let code = store.start_pairing();
        let _twin_a = store.claim(&code.code, Some(AccessRole::Viewer)).ok_or("claim twin a")?;
        let code = store.start_pairing();
        let revoked_twin = store.claim(&code.code, Some(AccessRole::Engineer)).ok_or("claim twin b")?;
        let twin_id = store.list().into_iter().map(|s| s.id).find(|i| !ids_before.contains(i)).ok_or("list twin")?;
        if !store.revoke(&twin_id) {
            return Err("revoke twin failed".into());
        }
        for (name, role) in [("viewer", AccessRole::Viewer), ("operator", AccessRole::Operator), ("engineer", AccessRole::Engineer)] {
            if store.validate_with_role(&tokens[name]) != Some(role) {
                return Err(format!("pairing token for {name} does not validate"));
            }
        }
        if store.validate_with_role(&expired).is_some() || store.validate_with_role(&revoked).is_some() {
            return Err("expired/revoked token still validates".into());
        }
        // every other endpoint is one that was restarted after the credentials were issued and revoked: the store is
        // read back from its file, as after a restart of the runtime; nothing is asserted here - the trials observe at
        // the socket whether each credential is honoured
        let store = if n % 2 == 1 {
            drop(store);
            let c3 = clock.clone();
            Arc::new(PairingStore::with_clock(dir.join("pairing.json"), Arc::new(move || c3.load(Ordering::SeqCst))))
        } else {
            store
        };
        (Some(store), tokens, expired, revoked, revoked_twin)
    } else {
        (None, BTreeMap::new(), "expired-none".to_string(), "revoked-none".to_string(), "revoked-twin-none".to_string())
    };
    let state = Arc::new(ControlState {
        debug,
        resource,
        metadata: Arc::new(Mutex::new(metadata)),
        sources,
        io_snapshot: Arc::new(Mutex::new(None)),
        pending_restart: Arc::new(Mutex::new(None)),
        auth_token: Arc::new(Mutex::new(if cfg.token { Some(SmolStr::new(ADMIN_TOKEN)) } else { None })),
        control_requires_auth: false,
        control_mode: Arc::new(Mutex::new(if cfg.production { ControlMode::Production } else { ControlMode::Debug })),
        audit_tx: None,
        metrics: Arc::new(Mutex::new(RuntimeMetrics::default())),
        events: Arc::new(Mutex::new(VecDeque::new())),
        settings: Arc::new(Mutex::new(settings())),
        project_root: Some(root.clone()),
        resource_name: SmolStr::new("RESOURCE"),
        io_health: Arc::new(Mutex::new(Vec::new())),
        debug_enabled: Arc::new(AtomicBool::new(cfg.debug_on)),
        debug_variables: Arc::new(Mutex::new(DebugVariableHandles::new())),
        hmi_live: Arc::new(Mutex::new(Default::default())),
        hmi_descriptor,
        historian: None,
        pairing,
    });
    let sock = dir.join("ctl.sock");
    ControlServer::start(ControlEndpoint::Unix(sock.clone()), state.clone()).map_err(|e| e.to_string())?;
    Ok(Env { cfg: cfg.clone(), state, sock, conn: None, probe, commands, clock, tokens, expired, revoked, revoked_twin, root, gated, reloaded: cfg.pairing && n % 2 == 1, _keep: keep })
}

impl Env {
    fn connect(&mut self) -> Result<(), String> {
        if self.conn.is_none() {
            let s = UnixStream::connect(&self.sock).map_err(|e| format!("connect: {e}"))?;
            s.set_read_timeout(Some(std::time::Duration::from_secs(10))).ok();
            let r = BufReader::new(s.try_clone().map_err(|e| e.to_string())?);
            self.conn = Some((r, s));
        }
        Ok(())
    }
    /// Send one raw line, read one reply line. Err = no reply (connection closed / timeout).
    fn send_raw(&mut self, line: &[u8]) -> Result<String, String> {
        self.connect()?;
        let (r, w) = self.conn.as_mut().unwrap();
        let mut buf = line.to_vec();
        buf.push(b'\n');
        if let Err(e) = w.write_all(&buf) {
            self.conn = None;
            return Err(format!("write: {e}"));
        }
        let mut reply = String::new();
        match r.read_line(&mut reply) {
            Ok(0) => {
                self.conn = None;
                Err("connection closed without a reply".into())
            }
            Ok(_) => Ok(reply),
            Err(e) => {
                self.conn = None;
                Err(format!("read: {e}"))
            }
        }
    }

    /// Wait until the command monitor has processed everything sent so far (channel is FIFO).
    fn sync_commands(&self) {
        if self.gated {
            return;
        }
        let (tx, rx) = std::sync::mpsc::channel();
        if self.state.resource.send_command(ResourceCommand::Snapshot { respond_to: tx }).is_ok() {
            let _ = rx.recv_timeout(std::time::Duration::from_secs(5));
        }
    }

    /// Everything a request could have changed.
    fn observe(&mut self) -> BTreeMap<String, String> {
        let mut m = BTreeMap::new();
        let st = self.state.clone();
        self.sync_commands();
        m.insert("debug.mode".into(), format!("{:?}", st.debug.mode()));
        m.insert("debug.breakpoints".into(), format!("{:?}", st.debug.breakpoints().iter().map(|b| format!("{:?}", b.location)).collect::<Vec<_>>()));
        m.insert("debug.target_thread".into(), format!("{:?}", st.debug.target_thread()));
        // queued io writes: drain, record, re-queue
        let q = st.debug.drain_io_writes();
        m.insert("debug.queued_io".into(), format!("{q:?}"));
        for (a, v) in q {
            st.debug.enqueue_io_write(a, v);
        }
        // queued + forced variable / io writes become visible by cycling the probe runtime
        let _ = self.probe.cycle();
        m.insert("probe.vars".into(), format!("{:?}", walk::snapshot(self.probe.runtime().storage())));
        m.insert("probe.io".into(), format!("{:?}{:?}{:?}", self.probe.runtime().io().inputs(), self.probe.runtime().io().outputs(), self.probe.runtime().io().memory()));
        // a second cycle shows *forced* values re-asserting themselves after the program/our reset changed them
        m.insert("resource.commands".into(), format!("{:?}", self.commands.lock().unwrap()));
        m.insert("resource.state".into(), format!("{:?}", st.resource.state()));
        m.insert("settings".into(), format!("{:?}", st.settings.lock().unwrap()));
        m.insert("control_mode".into(), format!("{:?}", st.control_mode.lock().unwrap()));
        m.insert("auth_token".into(), format!("{:?}", st.auth_token.lock().unwrap()));
        m.insert("pending_restart".into(), format!("{:?}", st.pending_restart.lock().unwrap()));
        m.insert("debug_enabled".into(), format!("{}", st.debug_enabled.load(Ordering::SeqCst)));
        m.insert("metadata.programs".into(), format!("{:?}", st.metadata.lock().unwrap().programs().keys().collect::<Vec<_>>()));
        if let Some(p) = &st.pairing {
            let mut l: Vec<String> = p.list().into_iter().map(|s| format!("{}:{:?}:{}", s.id, s.role, s.enabled)).collect();
            l.sort();
            m.insert("pairing.tokens".into(), format!("{l:?}"));
        }
        m.insert("fs".into(), fs_snapshot(&self.root));
        m
    }

    /// Bring the mutable state back to a known baseline so the next trial's effect is not masked.
    fn reset(&mut self) {
        let st = self.state.clone();
        st.debug.clear_breakpoints();
        st.debug.continue_run();
        let _ = st.debug.drain_io_writes();
        let _ = st.debug.drain_stops();
        for n in ["gx", "gy", "SECRETVAR_1"] {
            st.debug.release_global(n);
        }
        st.debug.release_retain("gr");
        for a in ["%QX0.0", "%IX0.0", "%MW0"] {
            if let Ok(a) = IoAddress::parse(a) {
                st.debug.release_io(&a);
            }
        }
        let _ = self.probe.cycle();
        self.probe.set_input("gx", trust_runtime::value::Value::DInt(1));
        self.probe.set_input("gy", trust_runtime::value::Value::DInt(2));
        self.probe.runtime_mut().storage_mut().set_retain("gr", trust_runtime::value::Value::DInt(3));
        self.probe.runtime_mut().io_mut().inputs_mut().fill(0);
        self.probe.runtime_mut().io_mut().outputs_mut().fill(0);
        self.probe.runtime_mut().io_mut().memory_mut().fill(0);
        // seeds that make "undo" requests observable
        st.debug.force_global("gy", trust_runtime::value::Value::DInt(77));
        if let Ok(a) = IoAddress::parse("%QX0.0") {
            st.debug.force_io(a, trust_runtime::value::Value::Bool(true));
        }
        if let Some(loc) = st.metadata.lock().unwrap().statement_locations(0).and_then(|l| l.first().cloned()) {
            st.debug.set_breakpoints_for_file(0, vec![trust_runtime::debug::DebugBreakpoint::new(loc)]);
        }
        self.sync_commands();
        self.commands.lock().unwrap().clear();
        *st.settings.lock().unwrap() = settings();
        *st.control_mode.lock().unwrap() = if self.cfg.production { ControlMode::Production } else { ControlMode::Debug };
        *st.auth_token.lock().unwrap() = if self.cfg.token { Some(SmolStr::new(ADMIN_TOKEN)) } else { None };
        *st.pending_restart.lock().unwrap() = None;
        st.debug_enabled.store(self.cfg.debug_on, Ordering::SeqCst);
        let _ = self.clock.load(Ordering::SeqCst);
    }
}

fn fs_snapshot(root: &Path) -> String {
    let mut out = Vec::new();
    let mut stack = vec![root.to_path_buf()];
    while let Some(d) = stack.pop() {
        if let Ok(rd) = std::fs::read_dir(&d) {
            for e in rd.flatten() {
                let p = e.path();
                if p.is_dir() {
                    stack.push(p.clone());
                    out.push(format!("{}/", p.strip_prefix(root).unwrap_or(&p).display()));
                } else {
                    let data = std::fs::read(&p).unwrap_or_default();
                    out.push(format!("{}:{}:{:x}", p.strip_prefix(root).unwrap_or(&p).display(), data.len(), crate::ctx::fnv_bytes(&data)));
                }
            }
        }
    }
    out.sort();
    format!("{out:?}")
}

/// Scrape request type names from the working tree: match arms of the dispatcher files, the role
/// table and the debug-class list.
pub fn scrape_types() -> (BTreeSet<String>, BTreeSet<String>) {
    let mut all = BTreeSet::new();
    let mut debug_class = BTreeSet::new();
    let is_type = |s: &str| !s.is_empty() && s.len() < 40 && s.chars().all(|c| c.is_ascii_lowercase() || c == '_' || c == '.') && s.chars().next().unwrap().is_ascii_lowercase();
    let lits = |text: &str| -> Vec<String> {
        let mut v = Vec::new();
        let b: Vec<char> = text.chars().collect();
        let mut i = 0;
        while i < b.len() {
            if b[i] == '"' {
                let mut j = i + 1;
                while j < b.len() && b[j] != '"' && b[j] != '\n' {
                    j += 1;
                }
                if j < b.len() && b[j] == '"' {
                    v.push(b[i + 1..j].iter().collect());
                }
                i = j + 1;
            } else {
                i += 1;
            }
        }
        v
    };
    let dir = "/repo/crates/trust-runtime/src/control/handlers";
    if let Ok(rd) = std::fs::read_dir(dir) {
        for e in rd.flatten() {
            let name = e.file_name().to_string_lossy().to_string();
            let text = std::fs::read_to_string(e.path()).unwrap_or_default();
            for line in text.lines() {
                if line.contains("=>") || line.trim_end().ends_with('|') || line.trim_start().starts_with('|') || line.trim_start().starts_with('"') {
                    for l in lits(line) {
                        if is_type(&l) {
                            if name == "debug.rs" || name == "variables.rs" {
                                debug_class.insert(l.clone());
                            }
                            all.insert(l);
                        }
                    }
                }
            }
        }
    }
    if let Ok(text) = std::fs::read_to_string("/repo/crates/trust-runtime/src/control.rs") {
        for f in ["fn required_role_for_control_request", "fn is_debug_request"] {
            if let Some(at) = text.find(f) {
                let body = &text[at..];
                let end = body.find("\nfn ").unwrap_or(body.len().min(4000));
                for l in lits(&body[..end]) {
                    if is_type(&l) && !["viewer", "operator", "engineer", "admin"].contains(&l.as_str()) {
                        all.insert(l);
                    }
                }
            }
        }
    }
    (all, debug_class)
}

fn params_for(t: &str, env: &Env, variant: usize) -> Option<J> {
    if variant == 1 {
        return None;
    }
    if variant == 2 {
        return Some(json!({"address": "%MW0", "value": "WORD#7", "target": "retain:gr", "expr": "gr", "source": "nosuch.st", "lines": [1], "mode": "warm", "id": "all", "code": "000000", "bytes": "!!!", "log.level": "trace", "file_id": 0}));
    }
    let main = env.root.join("main.st").to_string_lossy().to_string();
    Some(match t {
        "breakpoints.set" => json!({"source": main, "lines": [3, 4]}),
        "breakpoints.clear" => json!({"source": main}),
        "breakpoints.clear_id" => json!({"file_id": 0}),
        "debug.breakpoint_locations" => json!({"source": main, "line": 3}),
        "debug.scopes" => json!({"frame_id": 0}),
        "debug.variables" => json!({"variables_reference": 1}),
        "debug.evaluate" => json!({"expression": "SECRETVAR_1"}),
        "eval" => json!({"expr": "SECRETVAR_1"}),
        "io.write" => json!({"address": "%IX0.0", "value": "TRUE"}),
        "io.force" => json!({"address": "%IX0.0", "value": "TRUE"}),
        "io.unforce" => json!({"address": "%QX0.0"}),
        "set" => json!({"target": "global:gx", "value": "DINT#5"}),
        "var.force" => json!({"target": "global:gx", "value": "DINT#6"}),
        "var.unforce" => json!({"target": "global:gy"}),
        "restart" => json!({"mode": "cold"}),
        "config.set" => json!({"log.level": "debug"}),
        "bytecode.reload" => json!({"bytes": b64(&bytecode_bytes_from_source(SRC_RELOAD).unwrap_or_default())}),
        "pair.claim" => {
            let code = env.state.pairing.as_ref().map(|p| p.start_pairing().code).unwrap_or_else(|| "000000".into());
            json!({"code": code, "role": "admin"})
        }
        "pair.revoke" => json!({"id": "all"}),
        "hmi.alarm.ack" => json!({"id": "alarm-1"}),
        "hmi.write" => json!({"id": "gx", "value": 9}),
        "hmi.scaffold.reset" => json!({"mode": "reset"}),
        "hmi.descriptor.update" => json!({"descriptor": {"config": {}, "pages": []}}),
        "hmi.values.get" | "hmi.trends.get" => json!({"ids": ["gx"]}),
        "events.tail" | "events" | "faults" | "hmi.alarms.get" | "historian.alerts" => json!({"limit": 5}),
        "historian.query" => json!({"variable": "gx", "limit": 5}),
        _ => json!({}),
    })
}

/// Keys `config.set` knows: the string match arms of handle_config_set in the working tree.
pub fn scrape_config_keys() -> Vec<String> {
    let mut keys = BTreeSet::new();
    if let Ok(text) = std::fs::read_to_string("/repo/crates/trust-runtime/src/control.rs") {
        if let Some(at) = text.find("fn handle_config_set") {
            let body = &text[at..];
            let end = body[1..].find("\nfn ").map(|e| e + 1).unwrap_or(body.len());
            for line in body[..end].lines() {
                let l = line.trim();
                if l.starts_with('"') && l.contains("=>") {
                    if let Some(e) = l[1..].find('"') {
                        keys.insert(l[1..1 + e].to_string());
                    }
                }
            }
        }
    }
    keys.into_iter().collect()
}

/// Values at and beyond the limits of what a handler may expect for a parameter.
fn extreme_values() -> Vec<J> {
    let mut v = vec![
        json!(9223372036854775807i64), json!(18446744073709551615u64), json!(-9223372036854775808i64), json!(9223372036855i64), json!(9223372036854776i64),
        json!(4294967296i64), json!(2147483648i64), json!(65536), json!(-1), json!(0), json!(1.0e308), json!(0.5), json!(""), json!("\u{0}"),
        json!("%IX99999999999999999999.0"), json!("%QX0.99"), json!("T#99999999999999999d"), json!("DINT#99999999999999999999"), json!("global:"), json!(":"),
        json!("a".repeat(70_000)), J::Null, json!([]), json!({}), json!(true), json!([9223372036854775807i64, -1, 4294967296i64]),
    ];
    let mut nested = json!(1);
    for _ in 0..100 {
        nested = json!([nested]);
    }
    v.push(nested);
    v
}

/// Part X: requests whose parameters sit at the extremes.  Sent with the admin credential (the question is not the
/// role but whether the endpoint survives): every such request must be answered with one parseable reply line, the
/// endpoint must keep serving `config.get` / `status` afterwards, and a caller without credentials must still be refused.
fn extremes(sh: &mut Shard, cfg: &Config, work: &Path, types: &[String]) {
    let keys = scrape_config_keys();
    sh.count("X_config_keys_scraped", if sh.args.shard == 0 { keys.len() as u64 } else { 0 });
    let values = extreme_values();
    let (shard, nshards) = (sh.args.shard as usize, sh.args.nshards as usize);
    let mut env: Option<Env> = None;
    let mut n = 0usize;
    let auth = if cfg.token { Some(ADMIN_TOKEN.to_string()) } else { None };
    for t in types {
        let mut objects: Vec<(String, J)> = Vec::new();
        let probe_env = match env.as_mut() {
            Some(e) => e,
            None => match catch(|| build_env(cfg, work, false)) {
                Ok(Ok(e)) => env.insert(e),
                _ => {
                    sh.inconclusive("X: build_env failed");
                    return;
                }
            },
        };
        let mut base = params_for(t, probe_env, 0).unwrap_or_else(|| json!({}));
        if base.as_object().map(|m| m.is_empty()).unwrap_or(true) {
            base = params_for(t, probe_env, 2).unwrap();
        }
        let mut ks: Vec<String> = base.as_object().map(|m| m.keys().cloned().collect()).unwrap_or_default();
        if t == "config.set" {
            // control.auth_token replaces the credential itself (the follow-ups below would then use a stale one): role matrix only
            ks = keys.iter().filter(|k| k.as_str() != "control.auth_token").cloned().collect();
            base = json!({});
        }
        for k in &ks {
            for (vi, val) in values.iter().enumerate() {
                let mut o = base.clone();
                o[k.as_str()] = val.clone();
                objects.push((format!("{k}#{vi}"), o));
            }
        }
        for (label, params) in objects {
            n += 1;
            if n % nshards != shard {
                continue;
            }
            if !sh.time_left() && !sh.args.thorough() {
                return;
            }
            if t == "shutdown" || t == "pair.revoke" || t == "pair.claim" {
                continue; // end the endpoint / change the credentials themselves: covered by the role matrix
            }
            let case = json!({"extreme": {"type": t, "param": label, "params": if params.to_string().len() < 2000 { params.clone() } else { json!("<long>") }}, "config": {"token": cfg.token, "debug": cfg.debug_on, "pairing": cfg.pairing, "production": cfg.production}});
            if !sh.begin("extreme", &case) {
                continue;
            }
            if env.is_none() {
                match catch(|| build_env(cfg, work, false)) {
                    Ok(Ok(e)) => env = Some(e),
                    _ => {
                        sh.inconclusive("X: build_env failed");
                        sh.end();
                        return;
                    }
                }
            }
            let e = env.as_mut().unwrap();
            let mut req = json!({"id": 9000 + n, "type": t, "params": params});
            if let Some(a) = &auth {
                req["auth"] = json!(a);
            }
            let mut broken = false;
            match e.send_raw(req.to_string().as_bytes()) {
                Ok(reply) => {
                    if serde_json::from_str::<J>(&reply).is_err() {
                        sh.violation(format!("X|unparseable-reply|{t}"), format!("param {label}: reply {:?}", &reply[..reply.len().min(200)]), case.clone());
                    }
                }
                Err(err) => {
                    sh.violation(format!("X|no-reply|{t}|{}", label.split('#').next().unwrap_or("")), format!("param {label}: {err} (a request with an admin credential must be answered, not crash its handler)"), case.clone());
                    broken = true;
                }
            }
            // the endpoint must keep serving, and keep refusing callers without a credential
            let mut follow = json!({"id": 9001, "type": "config.get"});
            if let Some(a) = &auth {
                follow["auth"] = json!(a);
            }
            match e.send_raw(follow.to_string().as_bytes()) {
                Ok(r) if r.contains("\"ok\":true") => {}
                other => {
                    sh.violation(format!("X|endpoint-wedged-after|{t}"), format!("after {t} with param {label} a valid config.get got {other:?}"), case.clone());
                    broken = true;
                }
            }
            if cfg.token {
                match e.send_raw(json!({"id": 9002, "type": "status"}).to_string().as_bytes()) {
                    Ok(r) if r.contains("unauthorized") => sh.count("X_unauthenticated_follow_ups_refused", 1),
                    other => {
                        sh.violation(format!("X|unauthenticated-accepted-after|{t}"), format!("after {t} with param {label} a status request WITHOUT credential got {other:?}"), case.clone());
                        broken = true;
                    }
                }
            }
            sh.count("X_extreme_requests", 1);
            sh.nontrivial(&format!("X:{t}:{label}:{}", cfg.token));
            if broken {
                if let Some(old) = env.take() {
                    let _ = std::fs::remove_dir_all(old.sock.parent().unwrap());
                }
            } else {
                // undo what a successful extreme request may have changed
                e.reset();
            }
            sh.end();
        }
    }
    if let Some(old) = env.take() {
        let _ = std::fs::remove_dir_all(old.sock.parent().unwrap());
    }
}

#[derive(Clone, Debug, PartialEq, Eq, Hash, PartialOrd, Ord)]
pub enum Cred {
    None,
    Wrong,
    Admin,
    Pair(&'static str),
    Expired,
    Revoked,
    /// engineer token claimed in the same clock second as another token (same id `pair-<seconds>`), then revoked by that id
    RevokedTwin,
}
// the pairing store never issues admin tokens (a requested admin role is capped to engineer)
const CREDS: [Cred; 9] = [Cred::None, Cred::Wrong, Cred::Admin, Cred::Pair("viewer"), Cred::Pair("operator"), Cred::Pair("engineer"), Cred::Expired, Cred::Revoked, Cred::RevokedTwin];

/// Rank of a credential in the role order, by what the *endpoint's own* credential rules say:
/// None = invalid. Used only for monotonicity (never to decide what a type requires).
fn rank(c: &Cred, cfg: &Config) -> Option<u8> {
    let pair_rank = |r: &str| match r {
        "viewer" => 0,
        "operator" => 1,
        "engineer" => 2,
        _ => 3,
    };
    match c {
        Cred::Admin if cfg.token => Some(3),
        Cred::Pair(r) if cfg.pairing => Some(pair_rank(r)),
        // without a configured token every caller that does not present a valid pairing token is local admin
        _ if !cfg.token => Some(3),
        _ => None,
    }
}

fn cred_value(c: &Cred, env: &Env) -> Option<String> {
    match c {
        Cred::None => None,
        Cred::Wrong => Some("not-the-token".into()),
        Cred::Admin => Some(ADMIN_TOKEN.into()),
        Cred::Pair(r) => Some(env.tokens.get(r).cloned().unwrap_or_else(|| format!("no-pairing-{r}"))),
        Cred::Expired => Some(env.expired.clone()),
        Cred::Revoked => Some(env.revoked.clone()),
        Cred::RevokedTwin => Some(env.revoked_twin.clone()),
    }
}

#[derive(Clone, Debug)]
struct Outcome {
    reply_ok: Option<bool>,
    refused: bool, // forbidden / unauthorized / debug disabled
    error: String,
    effect: Vec<String>, // observation keys that changed
    reply: String,
}

fn trial(env: &mut Env, t: &str, params: Option<J>, cred: &Cred, id: u64) -> Result<Outcome, String> {
    env.reset();
    let before = env.observe();
    let mut req = json!({"id": id, "type": t});
    if let Some(p) = params {
        req["params"] = p;
    }
    if let Some(a) = cred_value(cred, env) {
        req["auth"] = json!(a);
    }
    let reply = env.send_raw(req.to_string().as_bytes())?;
    let v: J = serde_json::from_str(&reply).map_err(|e| format!("unparseable reply {reply:?}: {e}"))?;
    if env.gated && t == "shutdown" {
        // give the gated resource thread time to notice the stop flag (it polls every 50 ms)
        for _ in 0..40 {
            if env.state.resource.state() == ResourceState::Stopped {
                break;
            }
            std::thread::sleep(std::time::Duration::from_millis(10));
        }
    }
    let after = env.observe();
    let mut effect = Vec::new();
    for (k, b) in &before {
        if after.get(k) != Some(b) {
            effect.push(k.clone());
        }
    }
    let error = v["error"].as_str().unwrap_or("").to_string();
    let refused = error.starts_with("forbidden") || error.starts_with("unauthorized") || error == "debug disabled";
    Ok(Outcome { reply_ok: v["ok"].as_bool(), refused, error, effect, reply })
}

pub fn run(sh: &mut Shard) {
    let work = PathBuf::from(std::env::var("TPV_WORKDIR").unwrap_or_else(|_| "/tmp".into()));
    let (types, debug_class) = scrape_types();
    if let Some(path) = sh.args.replay.clone() {
        let v: J = serde_json::from_str(&std::fs::read_to_string(path).expect("replay")).expect("json");
        let r = if v.get("replay").is_some() { v["replay"].clone() } else { v };
        let r = if r.get("case").is_some() { r["case"].clone() } else { r };
        if r.get("malformed").is_some() {
            if let Ok(Ok(mut env)) = catch(|| build_env(&Config { token: true, debug_on: true, pairing: true, production: false }, &work, false)) {
                malformed(sh, &mut env);
            }
            return;
        }
        let cfg = Config { token: r["config"]["token"].as_bool().unwrap(), debug_on: r["config"]["debug"].as_bool().unwrap(), pairing: r["config"]["pairing"].as_bool().unwrap(), production: r["config"]["production"].as_bool().unwrap() };
        let t = r["type"].as_str().unwrap().to_string();
        let variant = r["variant"].as_u64().unwrap() as usize;
        sh.begin("replay", &r);
        let mut outcomes = Vec::new();
        let mut env_opt: Option<Env> = None;
        for (i, cred) in CREDS.iter().enumerate() {
            let rebuild = match &env_opt {
                None => true,
                Some(e) => e.gated && e.state.resource.state() == ResourceState::Stopped,
            };
            if rebuild {
                env_opt = build_env(&cfg, &work, t == "shutdown").ok();
            }
            let Some(env) = env_opt.as_mut() else { sh.inconclusive("build_env failed"); break };
            let params = params_for(&t, env, variant);
            match catch(|| trial(env, &t, params, cred, 100 + i as u64)) {
                Ok(Ok(o)) => {
                    eprintln!("{cred:?}: refused={} effect={:?} reply={}", o.refused, o.effect, o.reply.trim());
                    let changed = o.effect.iter().any(|k| k == "pairing.tokens");
                    outcomes.push((cred.clone(), o));
                    if changed {
                        env_opt = None;
                    }
                }
                other => sh.violation("replay|no-reply-or-panic", format!("{cred:?}: {:?}", other.map(|r| r.map(|_| ()))), r.clone()),
            }
        }
        check(sh, &cfg, &t, variant, &outcomes, &debug_class, &r);
        sh.end();
        return;
    }
    if types.len() < 20 {
        sh.inconclusive(format!("only {} request types scraped from the working tree", types.len()));
        return;
    }
    sh.count("request_types_scraped", if sh.args.shard == 0 { types.len() as u64 } else { 0 });
    let mut all_types: Vec<String> = types.iter().cloned().collect();
    all_types.extend(["nosuch.request".to_string(), "STATUS".to_string(), "io.write ".to_string(), "".to_string()]);
    let mut configs = Vec::new();
    for token in [false, true] {
        for debug_on in [true, false] {
            for pairing in [true, false] {
                for production in [false, true] {
                    // production vs debug mode only changes pause/resume routing; halve the product
                    if production && !(token && pairing) {
                        continue;
                    }
                    configs.push(Config { token, debug_on, pairing, production });
                }
            }
        }
    }
    let (shard, nshards) = (sh.args.shard as usize, sh.args.nshards as usize);
    let thorough = sh.args.thorough();
    let mut rng = Rng::new(sh.args.shard_seed());
    let mut id = 1u64;
    // work list: (config index, type) pairs split across shards; all credentials and param variants inside
    let mut work_items: Vec<(usize, String)> = Vec::new();
    for (ci, _) in configs.iter().enumerate() {
        for t in &all_types {
            work_items.push((ci, t.clone()));
        }
    }
    if !thorough {
        rng.shuffle(&mut work_items);
    }
    let mut envs: BTreeMap<(usize, bool), Env> = BTreeMap::new();
    let mut done = 0u64;
    for (wi, (ci, t)) in work_items.iter().enumerate() {
        if wi % nshards != shard {
            continue;
        }
        if !thorough && !sh.time_left() {
            break;
        }
        let cfg = configs[*ci].clone();
        let gated = t == "shutdown";
        let key = (*ci, gated);
        let nvariants = if thorough { 3 } else { 2 };
        for variant in 0..nvariants {
            let case = json!({"config": {"token": cfg.token, "debug": cfg.debug_on, "pairing": cfg.pairing, "production": cfg.production}, "type": t, "variant": variant});
            if !sh.begin(&format!("{t}"), &case) {
                continue;
            }
            let mut outcomes: Vec<(Cred, Outcome)> = Vec::new();
            let mut harness_err = None;
            for cred in CREDS.iter() {
                // (re)build the environment when missing or when a previous shutdown really stopped the resource
                let need_new = match envs.get(&key) {
                    None => true,
                    Some(e) => e.gated && e.state.resource.state() == ResourceState::Stopped,
                };
                if need_new {
                    match catch(|| build_env(&cfg, &work, gated)) {
                        Ok(Ok(e)) => {
                            sh.count("endpoints_built", 1);
                            if e.reloaded {
                                sh.count("endpoints_with_pairing_store_read_back_from_file", 1);
                            }
                            envs.insert(key, e);
                        }
                        Ok(Err(e)) => {
                            harness_err = Some(format!("build_env: {e}"));
                            break;
                        }
                        Err(p) => {
                            harness_err = Some(format!("build_env panic: {p}"));
                            break;
                        }
                    }
                }
                let env = envs.get_mut(&key).unwrap();
                let params = params_for(t, env, variant);
                id += 1;
                match catch(|| trial(env, t, params, cred, id)) {
                    Ok(Ok(o)) => {
                        if std::env::var("C18_DEBUG").is_ok() {
                            if let Some(p) = env.state.pairing.as_ref() {
                                if p.validate_with_role(&env.tokens["viewer"]).is_none() {
                                    eprintln!("viewer token invalid after {t} variant {variant} cred {cred:?} effect {:?} reply {}", o.effect, o.reply.trim());
                                }
                            }
                        }
                        // credentials themselves changed (pair.revoke / pair.claim): start the next trial from a fresh environment
                        let creds_changed = o.effect.iter().any(|k| k == "pairing.tokens");
                        outcomes.push((cred.clone(), o));
                        if creds_changed {
                            if let Some(e) = envs.remove(&key) {
                                let _ = std::fs::remove_dir_all(e.sock.parent().unwrap());
                            }
                        }
                    }
                    Ok(Err(e)) => {
                        sh.violation(format!("no-reply|{}", if t.is_empty() { "<empty>" } else { t }), format!("{cred:?}: {e}"), case.clone());
                        envs.remove(&key);
                    }
                    Err(p) => {
                        sh.violation(format!("panic|{}", panic_sig(&p)), p, case.clone());
                        envs.remove(&key);
                    }
                }
            }
            if let Some(e) = harness_err {
                sh.inconclusive(e);
                sh.end();
                continue;
            }
            done += outcomes.len() as u64;
            check(sh, &cfg, t, variant, &outcomes, &debug_class, &case);
            sh.end();
        }
    }
    sh.count("trials", done);
    // part X: parameter values at the extremes (separate time box: the matrix above may have used the budget)
    sh.extend_budget(if thorough { 240.0 } else { 12.0 });
    let xtypes: Vec<String> = types.iter().cloned().collect();
    for xc in [Config { token: true, debug_on: true, pairing: true, production: false }, Config { token: false, debug_on: true, pairing: false, production: false }] {
        extremes(sh, &xc, &work, &xtypes);
    }
    // malformed input on one connection
    if let Some(env) = envs.values_mut().next() {
        malformed(sh, env);
    } else if let Ok(Ok(mut env)) = catch(|| build_env(&configs[0], &work, false)) {
        malformed(sh, &mut env);
    }
    for (_, e) in envs {
        let _ = std::fs::remove_dir_all(e.sock.parent().unwrap());
    }
}

fn check(sh: &mut Shard, cfg: &Config, t: &str, variant: usize, outs: &[(Cred, Outcome)], debug_class: &BTreeSet<String>, case: &J) {
    let tn = if t.is_empty() { "<empty>" } else { t };
    let mut admin_effect = false;
    for (c, o) in outs {
        sh.count("replies_checked", 1);
        sh.nontrivial(&(cfg.clone(), t.to_string(), variant, format!("{c:?}")));
        if !o.effect.is_empty() {
            sh.count("requests_with_effect", 1);
            sh.seen("types_with_observed_effect", tn.to_string());
        }
        if o.refused {
            sh.count("requests_refused", 1);
        }
        // (1) refused => no effect
        if o.refused && !o.effect.is_empty() {
            sh.violation(format!("refused-but-effect|{tn}"), format!("{c:?} got `{}` but {:?} changed", o.error, o.effect), case.clone());
        }
        // (4) token configured, no valid credential => nothing changes, nothing leaks
        if rank(c, cfg).is_none() {
            if !o.effect.is_empty() {
                sh.violation(format!("unauthenticated-effect|{tn}"), format!("{c:?} (no valid credential, token configured) changed {:?}; reply {}", o.effect, o.reply.trim()), case.clone());
            }
            if o.reply_ok != Some(false) {
                sh.violation(format!("unauthenticated-ok|{tn}"), format!("{c:?} without valid credential got {}", o.reply.trim()), case.clone());
            }
            let v: J = serde_json::from_str(&o.reply).unwrap_or(J::Null);
            let extra: Vec<String> = v.as_object().map(|m| m.keys().filter(|k| !["id", "ok", "error"].contains(&k.as_str())).cloned().collect()).unwrap_or_default();
            if !extra.is_empty() || MARKERS.iter().any(|m| o.reply.contains(m)) {
                sh.violation(format!("unauthenticated-leak|{tn}"), format!("{c:?}: reply {}", o.reply.trim()), case.clone());
            }
        }
        // (5) debug gate
        if !cfg.debug_on && debug_class.contains(t) && rank(c, cfg).is_some() {
            let touched: Vec<&String> = o.effect.iter().filter(|k| k.starts_with("debug.") || k.starts_with("probe.")).collect();
            if !touched.is_empty() || o.reply_ok == Some(true) {
                sh.violation(format!("debug-gate|{tn}"), format!("debugging disabled but {c:?} got {} (changed {:?})", o.reply.trim(), touched), case.clone());
            }
        }
        if rank(c, cfg) == Some(3) && !o.effect.is_empty() {
            admin_effect = true;
        }
    }
    // (2) monotonicity over valid credentials
    for (c1, o1) in outs {
        for (c2, o2) in outs {
            if let (Some(r1), Some(r2)) = (rank(c1, cfg), rank(c2, cfg)) {
                if r1 <= r2 && !o1.refused && o2.refused && o2.error != "debug disabled" {
                    sh.violation(format!("role-not-monotone|{tn}"), format!("{c1:?} (rank {r1}) allowed but {c2:?} (rank {r2}) refused: {}", o2.error), case.clone());
                }
            }
        }
    }
    // (3) effect under admin => viewer must be refused
    if admin_effect && cfg.pairing {
        if let Some((c, o)) = outs.iter().find(|(c, _)| *c == Cred::Pair("viewer")) {
            if !o.refused {
                sh.violation(format!("state-changing-allowed-for-viewer|{tn}"), format!("an admin credential changes state with this request, but {c:?} was not refused: {} (effect {:?})", o.reply.trim(), o.effect), case.clone());
            } else {
                sh.count("viewer_refusals_of_state_changing_types", 1);
            }
        }
    }
}

fn malformed(sh: &mut Shard, env: &mut Env) {
    let lines: Vec<(&str, Vec<u8>)> = vec![
        ("not-json", b"hello".to_vec()),
        ("empty-object", b"{}".to_vec()),
        ("array", b"[1,2,3]".to_vec()),
        ("number", b"42".to_vec()),
        ("null", b"null".to_vec()),
        ("truncated", b"{\"id\":1,\"type\":\"sta".to_vec()),
        ("wrong-field-types", b"{\"id\":\"x\",\"type\":5}".to_vec()),
        ("negative-id", b"{\"id\":-1,\"type\":\"status\"}".to_vec()),
        ("huge-id", b"{\"id\":18446744073709551616,\"type\":\"status\"}".to_vec()),
        ("nested-deep", format!("{}1{}", "[".repeat(300), "]".repeat(300)).into_bytes()),
        ("long-line", format!("{{\"id\":1,\"type\":\"{}\"}}", "a".repeat(200_000)).into_bytes()),
        ("nul-bytes", b"{\"id\":1,\"type\":\"st\0atus\"}".to_vec()),
        ("invalid-utf8", vec![b'{', 0xff, 0xfe, b'}']),
        ("params-string", b"{\"id\":1,\"type\":\"io.write\",\"params\":\"x\"}".to_vec()),
        ("params-null", b"{\"id\":1,\"type\":\"set\",\"params\":null}".to_vec()),
        ("auth-number", b"{\"id\":1,\"type\":\"status\",\"auth\":5}".to_vec()),
        ("empty-line", b"".to_vec()),
        ("whitespace", b"   ".to_vec()),
        ("unicode-type", "{\"id\":1,\"type\":\"st\u{00e4}tus\u{1F600}\"}".as_bytes().to_vec()),
    ];
    for (name, line) in lines {
        let case = json!({"malformed": name});
        if !sh.begin("malformed", &case) {
            continue;
        }
        env.conn = None; // fresh connection per probe so one failure does not cascade
        let r = env.send_raw(&line);
        match r {
            Err(e) if name == "empty-line" || name == "whitespace" => {
                // an empty line carries no request; whether it is answered is not specified. The
                // follow-up request below must still be served.
                let _ = e;
            }
            Err(e) => sh.violation(format!("malformed|no-error-reply|{name}"), format!("line {name}: {e}"), case.clone()),
            Ok(reply) => {
                let v: J = serde_json::from_str(&reply).unwrap_or(J::Null);
                if v["ok"].as_bool() != Some(false) && !(name == "negative-id" || name == "huge-id" || name == "unicode-type") {
                    sh.violation(format!("malformed|not-an-error|{name}"), format!("reply {}", reply.trim()), case.clone());
                }
            }
        }
        // the next valid request on the same connection must be answered
        let auth = if env.cfg.token { format!(",\"auth\":\"{ADMIN_TOKEN}\"") } else { String::new() };
        match env.send_raw(format!("{{\"id\":7,\"type\":\"status\"{auth}}}").as_bytes()) {
            Ok(reply) if reply.contains("\"ok\":true") => sh.count("malformed_lines_survived", 1),
            other => sh.violation(format!("malformed|connection-dead|{name}"), format!("after line {name} a valid status request got {other:?}"), case.clone()),
        }
        sh.nontrivial(&format!("malformed:{name}"));
        sh.end();
    }
}
