//! C01 / C02 / C03 — generated ST programs executed by the real runtime under three monitors:
//!   C01 outcome classes (Ok | value-dependent fault), no panic, no leftover frame, termination on steps
//!   C02 differential against the independent reference evaluator (harness/src/refsem.rs)
//!   C03 every stored value conforms to its declared type (tag + subrange), declared types taken from
//!       the runtime's own POU definitions (ProgramDef/FunctionBlockDef + TypeRegistry)
//! One engine, selected by `--mode c01|c02|c03`, so that each property is decided by its own run.

use crate::ctx::{catch, fnv, on_stack, panic_sig, Shard};
use crate::gen::{self, Program, Sv, Ty};
use crate::refsem::{self, Ref};
use crate::rng::Rng;
use crate::vals;
use serde_json::{json, Value as J};
use std::collections::BTreeMap;
use trust_hir::types::Type;
use trust_hir::TypeId;
use trust_runtime::error::RuntimeError;
use trust_runtime::harness::TestHarness;
use trust_runtime::memory::InstanceId;
use trust_runtime::value::{Duration, Value};
use trust_runtime::Runtime;

const STACK: usize = 2 * 1024 * 1024;

pub fn sv_to_value(t: Ty, v: Sv) -> Value {
    match (t, v) {
        (Ty::Bool, Sv::I(x)) => Value::Bool(x != 0),
        (Ty::SInt, Sv::I(x)) => Value::SInt(x as i8),
        (Ty::Int, Sv::I(x)) => Value::Int(x as i16),
        (Ty::DInt, Sv::I(x)) => Value::DInt(x as i32),
        (Ty::LInt, Sv::I(x)) => Value::LInt(x as i64),
        (Ty::USInt, Sv::I(x)) => Value::USInt(x as u8),
        (Ty::UInt, Sv::I(x)) => Value::UInt(x as u16),
        (Ty::UDInt, Sv::I(x)) => Value::UDInt(x as u32),
        (Ty::ULInt, Sv::I(x)) => Value::ULInt(x as u64),
        (Ty::Byte, Sv::I(x)) => Value::Byte(x as u8),
        (Ty::Word, Sv::I(x)) => Value::Word(x as u16),
        (Ty::DWord, Sv::I(x)) => Value::DWord(x as u32),
        (Ty::LWord, Sv::I(x)) => Value::LWord(x as u64),
        (Ty::Time, Sv::I(x)) => Value::Time(Duration::from_nanos(x as i64)),
        (Ty::Real, Sv::F(f)) => Value::Real(f as f32),
        (Ty::LReal, Sv::F(f)) => Value::LReal(f),
        (_, Sv::I(x)) => Value::LInt(x as i64),
        (_, Sv::F(f)) => Value::LReal(f),
    }
}

/// Numeric reading of a runtime value, ignoring its tag (C02 compares by declared type).
fn value_to_sv(v: &Value) -> Option<Sv> {
    Some(match v {
        Value::Bool(b) => Sv::I(*b as i128),
        Value::SInt(x) => Sv::I(*x as i128),
        Value::Int(x) => Sv::I(*x as i128),
        Value::DInt(x) => Sv::I(*x as i128),
        Value::LInt(x) => Sv::I(*x as i128),
        Value::USInt(x) => Sv::I(*x as i128),
        Value::UInt(x) => Sv::I(*x as i128),
        Value::UDInt(x) => Sv::I(*x as i128),
        Value::ULInt(x) => Sv::I(*x as i128),
        Value::Byte(x) => Sv::I(*x as i128),
        Value::Word(x) => Sv::I(*x as i128),
        Value::DWord(x) => Sv::I(*x as i128),
        Value::LWord(x) => Sv::I(*x as i128),
        Value::Time(d) | Value::LTime(d) => Sv::I(d.as_nanos() as i128),
        Value::Real(f) => Sv::F(*f as f64),
        Value::LReal(f) => Sv::F(*f),
        _ => return None,
    })
}

fn sv_equal(t: Ty, a: Sv, b: Sv) -> bool {
    match (a, b) {
        (Sv::I(x), Sv::I(y)) => x == y,
        (Sv::F(x), Sv::F(y)) => {
            if t == Ty::Real {
                (x as f32).to_bits() == (y as f32).to_bits() && x == y
            } else {
                x.to_bits() == y.to_bits() || x == y
            }
        }
        // an integer stored where a real is declared (or vice versa): equal if numerically identical
        (Sv::I(x), Sv::F(y)) | (Sv::F(y), Sv::I(x)) => (x as f64) == y && t.is_real(),
    }
}

// ------------------------------------------------------------------ C03: conformance to declared types

fn tag_of_type(t: &Type) -> Option<&'static str> {
    Some(match t {
        Type::Bool => "BOOL",
        Type::SInt => "SINT",
        Type::Int => "INT",
        Type::DInt => "DINT",
        Type::LInt => "LINT",
        Type::USInt => "USINT",
        Type::UInt => "UINT",
        Type::UDInt => "UDINT",
        Type::ULInt => "ULINT",
        Type::Real => "REAL",
        Type::LReal => "LREAL",
        Type::Byte => "BYTE",
        Type::Word => "WORD",
        Type::DWord => "DWORD",
        Type::LWord => "LWORD",
        Type::Time => "TIME",
        Type::LTime => "LTIME",
        Type::Date => "DATE",
        Type::LDate => "LDATE",
        Type::Tod => "TOD",
        Type::LTod => "LTOD",
        Type::Dt => "DT",
        Type::Ldt => "LDT",
        Type::String { .. } => "STRING",
        Type::WString { .. } => "WSTRING",
        Type::Char => "CHAR",
        Type::WChar => "WCHAR",
        _ => return None,
    })
}

pub struct Mismatch {
    pub path: String,
    pub declared: String,
    pub stored: String,
    pub what: &'static str, // "tag" | "range" | "shape"
}

fn resolve<'a>(rt: &'a Runtime, mut id: TypeId) -> Option<&'a Type> {
    for _ in 0..16 {
        match rt.registry().get(id)? {
            Type::Alias { target, .. } => id = *target,
            other => return Some(other),
        }
    }
    None
}

pub fn conforms(rt: &Runtime, ty: TypeId, v: &Value, path: &str, out: &mut Vec<Mismatch>, depth: usize) {
    if depth > 12 || out.len() > 20 {
        return;
    }
    let Some(t) = resolve(rt, ty) else { return };
    match t {
        Type::Subrange { base, lower, upper } => {
            let before = out.len();
            conforms(rt, *base, v, path, out, depth + 1);
            if out.len() == before {
                if let Some(Sv::I(x)) = value_to_sv(v) {
                    if x < *lower as i128 || x > *upper as i128 {
                        out.push(Mismatch { path: path.into(), declared: format!("subrange({lower}..{upper})"), stored: format!("{x}"), what: "range" });
                    }
                }
            }
        }
        Type::Array { element, dimensions } => match v {
            Value::Array(a) => {
                let n: i128 = dimensions.iter().map(|(l, u)| (*u as i128 - *l as i128 + 1).max(0)).product();
                if n != a.elements.len() as i128 && !dimensions.iter().any(|d| d.1 == i64::MAX) {
                    out.push(Mismatch { path: path.into(), declared: format!("ARRAY of {n}"), stored: format!("{} elements", a.elements.len()), what: "shape" });
                }
                for (i, e) in a.elements.iter().enumerate() {
                    conforms(rt, *element, e, &format!("{path}[{i}]"), out, depth + 1);
                }
            }
            other => out.push(Mismatch { path: path.into(), declared: "ARRAY".into(), stored: vals::tag(other).into(), what: "tag" }),
        },
        Type::Struct { fields, .. } => match v {
            Value::Struct(s) => {
                for f in fields {
                    match s.fields.iter().find(|(k, _)| k.eq_ignore_ascii_case(&f.name)) {
                        Some((_, fv)) => conforms(rt, f.type_id, fv, &format!("{path}.{}", f.name), out, depth + 1),
                        None => out.push(Mismatch { path: format!("{path}.{}", f.name), declared: "field".into(), stored: "missing".into(), what: "shape" }),
                    }
                }
            }
            other => out.push(Mismatch { path: path.into(), declared: "STRUCT".into(), stored: vals::tag(other).into(), what: "tag" }),
        },
        Type::Enum { name, .. } => match v {
            Value::Enum(e) if e.type_name.eq_ignore_ascii_case(name) => {}
            other => out.push(Mismatch { path: path.into(), declared: format!("ENUM {name}"), stored: vals::tag(other).into(), what: "tag" }),
        },
        Type::FunctionBlock { name } | Type::Class { name } => match v {
            Value::Instance(id) => check_instance(rt, *id, name, path, out, depth + 1),
            other => out.push(Mismatch { path: path.into(), declared: format!("instance of {name}"), stored: vals::tag(other).into(), what: "tag" }),
        },
        Type::Reference { .. } | Type::Pointer { .. } => match v {
            Value::Reference(_) | Value::Null => {}
            other => out.push(Mismatch { path: path.into(), declared: "REF".into(), stored: vals::tag(other).into(), what: "tag" }),
        },
        other => {
            if let Some(want) = tag_of_type(other) {
                let got = vals::tag(v);
                if got != want {
                    out.push(Mismatch { path: path.into(), declared: want.into(), stored: got.into(), what: "tag" });
                }
            }
        }
    }
}

fn check_instance(rt: &Runtime, id: InstanceId, type_name: &str, path: &str, out: &mut Vec<Mismatch>, depth: usize) {
    let Some(inst) = rt.storage().get_instance(id) else { return };
    let key = type_name.to_ascii_uppercase();
    let mut decls: Vec<(String, TypeId)> = Vec::new();
    if let Some(fb) = rt.function_blocks().get(key.as_str()).or_else(|| rt.function_blocks().values().find(|f| f.name.eq_ignore_ascii_case(type_name))) {
        decls.extend(fb.params.iter().map(|p| (p.name.to_string(), p.type_id)));
        decls.extend(fb.vars.iter().map(|p| (p.name.to_string(), p.type_id)));
    } else if let Some(c) = rt.classes().values().find(|c| c.name.eq_ignore_ascii_case(type_name)) {
        decls.extend(c.vars.iter().map(|p| (p.name.to_string(), p.type_id)));
    }
    for (n, t) in decls {
        if let Some((_, v)) = inst.variables.iter().find(|(k, _)| k.eq_ignore_ascii_case(&n)) {
            conforms(rt, t, v, &format!("{path}.{n}"), out, depth);
        }
    }
    // inherited variables live in the parent instance, declared by the base type
    if let (Some(parent), true) = (inst.parent, depth < 12) {
        let base = rt.function_blocks().get(key.as_str()).or_else(|| rt.function_blocks().values().find(|f| f.name.eq_ignore_ascii_case(type_name))).and_then(|fb| fb.base.as_ref()).map(|b| match b {
            trust_runtime::eval::FunctionBlockBase::FunctionBlock(n) | trust_runtime::eval::FunctionBlockBase::Class(n) => n.to_string(),
        });
        let base = base.or_else(|| rt.classes().values().find(|c| c.name.eq_ignore_ascii_case(type_name)).and_then(|c| c.base.as_ref().map(|b| b.to_string())));
        if let Some(base) = base {
            check_instance(rt, parent, &base, path, out, depth + 1);
        }
    }
}

/// Check every program instance (and everything reachable from it) against the declared types.
pub fn check_runtime_types(rt: &Runtime) -> Vec<Mismatch> {
    let mut out = Vec::new();
    for (name, def) in rt.programs() {
        let Some(Value::Instance(id)) = rt.storage().get_global(name.as_ref()) else { continue };
        let Some(inst) = rt.storage().get_instance(*id) else { continue };
        for v in &def.vars {
            if v.external {
                continue;
            }
            if let Some((_, val)) = inst.variables.iter().find(|(k, _)| k.eq_ignore_ascii_case(&v.name)) {
                conforms(rt, v.type_id, val, &format!("{name}.{}", v.name), &mut out, 0);
            }
        }
    }
    out
}

// ------------------------------------------------------------------ execution

#[derive(Clone, Debug)]
pub struct CycleIn {
    pub dt_ns: i64,
    pub inputs: Vec<(String, Ty, Sv)>,
}

pub enum Outcome {
    Rejected(String),
    Ran(Vec<CycleObs>),
}

pub struct CycleObs {
    pub error: Option<RuntimeError>,
    pub frames: usize,
    pub steps: u64,
    pub leaves: BTreeMap<String, Value>,
    pub mismatches: Vec<(String, String, String, &'static str)>,
}

pub fn execute(text: &str, trace: &[CycleIn], want_leaves: bool, want_types: bool) -> Result<Outcome, String> {
    let text = text.to_string();
    let trace = trace.to_vec();
    on_stack(STACK, move || {
        catch(move || {
            let mut h = match TestHarness::from_source(&text) {
                Ok(h) => h,
                Err(e) => return Outcome::Rejected(e.to_string()),
            };
            let mut obs = Vec::new();
            for c in &trace {
                for (n, t, v) in &c.inputs {
                    h.set_input(n, sv_to_value(*t, *v));
                }
                if c.dt_ns > 0 {
                    h.advance_time(Duration::from_nanos(c.dt_ns));
                }
                h.runtime_mut().set_execution_deadline(Some(std::time::Instant::now() + std::time::Duration::from_secs(10)));
                let s0 = trust_runtime::verif::stmt_count();
                let r = h.cycle();
                let s1 = trust_runtime::verif::stmt_count();
                let mut leaves = BTreeMap::new();
                if want_leaves {
                    let mut w = crate::walk::Walker::new(h.runtime().storage());
                    w.leaves(&mut |p, v, hidden| {
                        if !hidden {
                            leaves.insert(p.to_string(), v.clone());
                        }
                    });
                }
                let mismatches = if want_types { check_runtime_types(h.runtime()).into_iter().map(|m| (m.path, m.declared, m.stored, m.what)).collect() } else { vec![] };
                let error = r.errors.into_iter().next();
                let faulted = error.is_some();
                obs.push(CycleObs { error, frames: h.runtime().storage().frames().len(), steps: s1 - s0, leaves, mismatches });
                if faulted {
                    break;
                }
            }
            Outcome::Ran(obs)
        })
    })
}

fn err_name(e: &RuntimeError) -> String {
    format!("{e:?}").split(|c| c == '(' || c == '{' || c == ' ').next().unwrap_or("").to_string()
}

const VALUE_DEPENDENT: [&str; 9] = ["DivisionByZero", "ModuloByZero", "Overflow", "IndexOutOfBounds", "NullReference", "ForStepZero", "DateTimeRange", "ExecutionTimeout", "ResourceFaulted"];

fn fault_class(e: &RuntimeError) -> String {
    match err_name(e).as_str() {
        "DivisionByZero" | "ModuloByZero" => "div0".into(),
        "Overflow" => "overflow".into(),
        "IndexOutOfBounds" => "index".into(),
        other => format!("other:{other}"),
    }
}

pub fn gen_trace(rng: &mut Rng, p: &Program, cycles: usize) -> Vec<CycleIn> {
    (0..cycles)
        .map(|_| CycleIn {
            dt_ns: *rng.pick(&[0i64, 1, 1_000_000, 86_400_000_000_000, 10_000_000]),
            inputs: p
                .inputs
                .iter()
                .filter_map(|n| p.vars.iter().find(|v| v.name == *n))
                .map(|v| (v.name.clone(), v.ty, if rng.chance(1, 3) { gen::boundary(rng, v.ty) } else { Sv::I(0).max_small(rng, v.ty) }))
                .collect(),
        })
        .collect()
}

trait SmallSv {
    fn max_small(self, rng: &mut Rng, t: Ty) -> Sv;
}
impl SmallSv for Sv {
    fn max_small(self, rng: &mut Rng, t: Ty) -> Sv {
        match t {
            Ty::Real | Ty::LReal => Sv::F(*rng.pick(&[0.0, 1.0, -1.0, 0.5, 2.0, 7.25, -2.5, 10.0])),
            Ty::Bool => Sv::I(rng.below(2) as i128),
            _ => Sv::I((rng.range(-9, 9) as i128).clamp(t.tmin(), t.tmax())),
        }
    }
}

fn role_of(path: &str) -> &'static str {
    let last = path.rsplit('.').next().unwrap_or(path);
    if path.contains('[') {
        "array-element"
    } else if last.starts_with("k_") {
        "for-control"
    } else if last.starts_with("g_") {
        "guard"
    } else if path.matches('.').count() >= 2 {
        if last.starts_with('i') {
            "fb-input"
        } else if last.starts_with('o') {
            "fb-output"
        } else if last.starts_with('f') {
            "struct-field"
        } else {
            "fb-state"
        }
    } else {
        "assign"
    }
}

fn trace_json(t: &[CycleIn]) -> J {
    json!(t.iter().map(|c| json!({"dt": c.dt_ns, "in": c.inputs.iter().map(|(n, t, v)| json!([n, t.name(), match v { Sv::I(x) => x.to_string(), Sv::F(f) => format!("f{:016x}", f.to_bits()) }])).collect::<Vec<_>>()})).collect::<Vec<_>>())
}
fn parse_trace(v: &J) -> Vec<CycleIn> {
    v.as_array()
        .map(|a| {
            a.iter()
                .map(|c| CycleIn {
                    dt_ns: c["dt"].as_i64().unwrap_or(0),
                    inputs: c["in"]
                        .as_array()
                        .map(|i| {
                            i.iter()
                                .map(|x| {
                                    let s = x[2].as_str().unwrap_or("0");
                                    let sv = if let Some(h) = s.strip_prefix('f') { Sv::F(f64::from_bits(u64::from_str_radix(h, 16).unwrap_or(0))) } else { Sv::I(s.parse().unwrap_or(0)) };
                                    (x[0].as_str().unwrap_or("").to_string(), Ty::from_name(x[1].as_str().unwrap_or("INT")).unwrap_or(Ty::Int), sv)
                                })
                                .collect()
                        })
                        .unwrap_or_default(),
                })
                .collect()
        })
        .unwrap_or_default()
}

/// Check one (program text, trace). `prog` is present for generated programs (reference available).
fn check_case(sh: &mut Shard, mode: &str, class: &str, label: &str, text: &str, prog: Option<&Program>, trace: &[CycleIn], features: &str) {
    let case = json!({"label": label, "features": features, "text": text, "trace": trace_json(trace)});
    if !sh.begin(class, &case) {
        return;
    }
    let res = execute(text, trace, mode == "c02", mode == "c03");
    match res {
        Err(p) => {
            // a panic is a violation of C01 (every mode reports it there only once: in mode c01)
            if mode == "c01" {
                sh.violation(format!("panic|{}", panic_sig(&p)), format!("{p} [{label}]"), case.clone());
            } else {
                sh.count("cases_skipped_panic_reported_by_C01", 1);
            }
        }
        Ok(Outcome::Rejected(e)) => {
            sh.count("rejected_by_compiler", 1);
            if prog.is_some() && sh.args.get("show-rejected").is_some() {
                sh.note(format!("rejected: {} :: {}", e.lines().next().unwrap_or(""), text.chars().take(200).collect::<String>()));
            }
            let first = e.lines().next().unwrap_or("");
            let reason: String = first.split(" (at ").next().unwrap_or(first).chars().take(80).collect();
            if class.starts_with("cell|") {
                sh.count("matrix_cells_rejected_by_compiler", 1);
                sh.seen("matrix_cells_rejected", format!("{label}: {reason}"));
            } else {
                sh.seen("rejection_reasons", reason);
            }
        }
        Ok(Outcome::Ran(obs)) => {
            sh.count("programs_executed", 1);
            for f in features.split('+') {
                if matches!(f, "fb-output-binding" | "pow" | "short-circuit-guard" | "for-to-type-limit") {
                    sh.count(&format!("programs_executed_with_{f}"), 1);
                }
            }
            sh.count("cycles_executed", obs.len() as u64);
            let total_steps: u64 = obs.iter().map(|o| o.steps).sum();
            if total_steps > 0 {
                sh.nontrivial(&(features.to_string(), fnv(text) % 4096, obs.last().map(|o| o.error.as_ref().map(err_name))));
            }
            match mode {
                "c01" => {
                    for (ci, o) in obs.iter().enumerate() {
                        if let Some(e) = &o.error {
                            let n = err_name(e);
                            sh.seen("fault_kinds_observed", n.clone());
                            if n == "AssertionFailed" && text.to_ascii_uppercase().contains("ASSERT") {
                                // programs that call the ASSERT_* test functions may legitimately fail them
                                sh.count("assertion_failures_in_test_programs", 1);
                            } else if !VALUE_DEPENDENT.contains(&n.as_str()) {
                                sh.violation(format!("static-class-error|{n}|{features}"), format!("cycle {ci}: accepted program failed with {e:?} [{label}]"), case.clone());
                            } else if n == "ExecutionTimeout" {
                                if let Some(p) = prog {
                                    if o.steps > p.step_bound {
                                        sh.violation(format!("non-termination|{features}"), format!("cycle {ci} ran {} statements, static bound {}", o.steps, p.step_bound), case.clone());
                                    } else {
                                        sh.inconclusive("execution deadline hit below the static step bound (slow machine?)");
                                    }
                                }
                            }
                        }
                        if o.frames != 0 {
                            sh.violation(format!("frame-left-behind|{}|{features}", o.error.as_ref().map(err_name).unwrap_or_else(|| "ok".into())), format!("cycle {ci}: {} frame(s) left after the cycle [{label}]", o.frames), case.clone());
                        }
                        if let Some(p) = prog {
                            sh.max("steps_per_cycle", o.steps);
                            if o.steps > p.step_bound && o.error.is_none() {
                                sh.note(format!("step bound exceeded without timeout: {} > {}", o.steps, p.step_bound));
                            }
                        }
                    }
                }
                "c03" => {
                    let mut checked = 0u64;
                    for (ci, o) in obs.iter().enumerate() {
                        checked += 1;
                        for (path, decl, stored, what) in &o.mismatches {
                            let kind = if stored == "DINT" && ["SINT", "INT", "LINT", "USINT", "UINT", "UDINT", "ULINT"].contains(&decl.as_str()) {
                                "int<-DINT".to_string()
                            } else if stored == "LREAL" && decl == "REAL" {
                                "REAL<-LREAL".to_string()
                            } else {
                                format!("decl={decl}|stored={stored}")
                            };
                            sh.violation(format!("{what}|{kind}|role={}|{features}", role_of(path)), format!("cycle {ci}: {path} declared {decl} holds {stored} [{label}]"), case.clone());
                        }
                    }
                    sh.count("type_walks", checked);
                }
                _ => {
                    if let Some(p) = prog {
                        compare_with_reference(sh, p, trace, &obs, features, label, &case);
                    }
                }
            }
            if sh.want_sample() && text.len() < 900 && total_steps > 3 {
                sh.sample(json!({"label": label, "text": text, "cycles": obs.len()}));
            }
        }
    }
    sh.end();
}

fn compare_with_reference(sh: &mut Shard, p: &Program, trace: &[CycleIn], obs: &[CycleObs], features: &str, label: &str, case: &J) {
    let mut r = Ref::new(p);
    for (ci, c) in trace.iter().enumerate() {
        let Some(o) = obs.get(ci) else { break };
        for (n, _, v) in &c.inputs {
            r.set_input(n, *v);
        }
        let rf = r.cycle();
        let rt_class = o.error.as_ref().map(fault_class);
        let ref_class = rf.as_ref().err().map(|f| f.class().to_string());
        if rt_class != ref_class {
            // a runtime error outside the reference's vocabulary is C01's business (static-class); still a divergence here
            sh.violation(format!("fault|runtime={}|reference={}|{features}", rt_class.clone().unwrap_or_else(|| "none".into()), ref_class.clone().unwrap_or_else(|| "none".into())), format!("cycle {ci}: runtime {:?}, reference {:?} [{label}]", o.error, rf.as_ref().err()), case.clone());
            return;
        }
        let mut compared = 0u64;
        for (path, t, want) in r.snapshot() {
            let full = format!("Main.{path}");
            let Some(v) = o.leaves.get(&full) else {
                sh.violation(format!("missing-variable|{features}"), format!("cycle {ci}: {full} not found in runtime storage [{label}]"), case.clone());
                return;
            };
            let Some(got) = value_to_sv(v) else {
                sh.violation(format!("value|non-scalar|{}|{features}", t.name()), format!("cycle {ci}: {full} holds {v:?} [{label}]"), case.clone());
                return;
            };
            compared += 1;
            if !sv_equal(t, got, want) {
                sh.violation(
                    format!("value|{}|role={}|{features}", t.name(), role_of(&full)),
                    format!("cycle {ci}: {full} ({}) = {:?} in the runtime, {:?} in the reference [{label}]", t.name(), v, want),
                    case.clone(),
                );
                return;
            }
        }
        sh.count("variables_compared", compared);
        sh.count("cycles_compared", 1);
        if rf.is_err() {
            sh.count("faults_agreed", 1);
            break;
        }
    }
}

// ------------------------------------------------------------------ matrix cells (C01/C03)

/// (initialiser text, statement that brings the variable to the wanted value): the most negative LINT has no literal form
fn init_for(name: &str, t: Ty, v: Sv) -> (String, String) {
    if t == Ty::LInt && v == Sv::I(i64::MIN as i128) {
        ("LINT#-9223372036854775807".to_string(), format!("{name} := {name} - LINT#1;\n"))
    } else if t == Ty::ULInt && matches!(v, Sv::I(x) if x > i64::MAX as i128) {
        // literals above the signed 64-bit range are not accepted: 2 * (2^63 - 1) + 1 = 2^64 - 1, then count down
        let Sv::I(x) = v else { unreachable!() };
        let down = u64::MAX as i128 - x;
        let tail = if down > 0 { format!("{name} := {name} - ULINT#{down};\n") } else { String::new() };
        ("ULINT#9223372036854775807".to_string(), format!("{name} := {name} * ULINT#2 + ULINT#1;\n{tail}"))
    } else {
        (gen::lit_text(t, v), String::new())
    }
}

fn matrix_cells(rng: &mut Rng, shard: usize, nshards: usize, budget: usize) -> Vec<(String, String, String)> {
    // (label, feature string, program text): single-feature programs, operators x types x boundary operands x context
    let mut cells = Vec::new();
    let mut sampled: Vec<(String, String, String)> = Vec::new();
    let mut sampled_std: Vec<(String, String, String)> = Vec::new();
    let mut n = 0usize;
    let bounds = |t: Ty| -> Vec<Sv> {
        if t.is_real() {
            vec![Sv::F(0.0), Sv::F(1.0), Sv::F(-1.0), Sv::F(if t == Ty::Real { 3.0e38 } else { 1.7e308 }), Sv::F(1.0e-30)]
        } else {
            let (lo, hi) = (t.tmin(), t.tmax());
            let mut v = vec![lo, lo + 1, hi, hi - 1, 0, 1, 2];
            if lo < 0 {
                v.push(-1);
            }
            v.dedup();
            v.into_iter().map(Sv::I).collect()
        }
    };
    let ops = [gen::BinOp::Add, gen::BinOp::Sub, gen::BinOp::Mul, gen::BinOp::Div, gen::BinOp::Mod, gen::BinOp::Pow, gen::BinOp::Eq, gen::BinOp::Lt, gen::BinOp::Ge];
    for a in gen::NUMERIC {
        for b in gen::NUMERIC {
            let w = Ty::wider(a, b);
            let mixed = a.is_int() && b.is_int() && a.is_signed() != b.is_signed();
            for op in ops {
                if op == gen::BinOp::Mod && w.is_real() {
                    continue;
                }
                let rt = if matches!(op, gen::BinOp::Eq | gen::BinOp::Lt | gen::BinOp::Ge) { Ty::Bool } else { w };
                for va in bounds(a) {
                    for vb in bounds(b) {
                        n += 1;
                        if n % nshards != shard {
                            continue;
                        }
                        let feat = format!("matrix|{}{}", if mixed { "mixed-signedness|" } else { "" }, if op == gen::BinOp::Pow { "pow" } else { "arith" });
                        let ((ia, pa), (ib, pb)) = (init_for("a", a, va), init_for("b", b, vb));
                        let text = format!("PROGRAM Main\nVAR\n  a : {} := {ia};\n  b : {} := {ib};\n  r : {};\nEND_VAR\n{pa}{pb}r := a {} b;\nEND_PROGRAM\n", a.name(), b.name(), rt.name(), op.text());
                        // same-type operand pairs (all the type-limit corners: min / -1, min * -1, max + 1 ...) always run
                        if a == b {
                            cells.push((format!("{} {} {}", a.name(), op.text(), b.name()), feat, text));
                            if a.is_int() && matches!(op, gen::BinOp::Add | gen::BinOp::Sub | gen::BinOp::Mul | gen::BinOp::Div) {
                                // the function form of the same operation
                                let f = match op {
                                    gen::BinOp::Add => "ADD",
                                    gen::BinOp::Sub => "SUB",
                                    gen::BinOp::Mul => "MUL",
                                    _ => "DIV",
                                };
                                let text = format!("PROGRAM Main\nVAR\n  a : {} := {ia};\n  b : {} := {ib};\n  r : {};\nEND_VAR\n{pa}{pb}r := {f}(a, b);\nEND_PROGRAM\n", a.name(), b.name(), rt.name());
                                cells.push((format!("{f}({}, {})", a.name(), b.name()), "matrix|arith-function".into(), text));
                            }
                        } else {
                            sampled.push((format!("{} {} {}", a.name(), op.text(), b.name()), feat, text));
                        }
                    }
                }
            }
        }
    }
    // unary minus, every signed/real type at its boundaries, in several contexts
    for t in gen::NUMERIC.iter().filter(|t| t.is_signed() || t.is_real()) {
        for v in bounds(*t) {
            n += 1;
            if n % nshards != shard {
                continue;
            }
            let (ia, pa) = init_for("a", *t, v);
            cells.push((format!("neg {}", t.name()), "matrix|neg".into(), format!("PROGRAM Main\nVAR\n  a : {} := {ia};\n  r : {};\nEND_VAR\n{pa}r := -a;\nEND_PROGRAM\n", t.name(), t.name())));
        }
    }
    // FOR over every integer control type at the type limits, up and down
    for t in gen::INTS {
        for (from, to, by) in [(t.tmax() - 2, t.tmax(), 1i128), (t.tmin() + 2, t.tmin(), -1), (t.tmin(), t.tmin() + 2, 1), (0, 3, 0), (t.tmax() - 5, t.tmax(), 3)] {
            if by < 0 && t.is_unsigned() {
                continue;
            }
            n += 1;
            if n % nshards != shard {
                continue;
            }
            let by_s = if by == 1 { String::new() } else { format!(" BY {}", gen::lit_text(t, Sv::I(by))) };
            cells.push((
                format!("for {} {}..{}", t.name(), from, to),
                format!("matrix|for|{}", if by == 0 { "step0" } else if to == t.tmax() || to == t.tmin() { "to-type-limit" } else { "plain" }),
                {
                    // bounds without a literal form (most negative LINT, ULINT above 2^63-1) are computed into variables first
                    let ((fi, fp), (ti, tp)) = (init_for("lo", t, Sv::I(from)), init_for("hi", t, Sv::I(to)));
                    if fp.is_empty() && tp.is_empty() {
                        format!("PROGRAM Main\nVAR\n  i : {};\n  n : DINT;\nEND_VAR\nFOR i := {fi} TO {ti}{by_s} DO\n  n := n + DINT#1;\nEND_FOR;\nEND_PROGRAM\n", t.name())
                    } else {
                        format!("PROGRAM Main\nVAR\n  i : {tn};\n  n : DINT;\n  lo : {tn} := {fi};\n  hi : {tn} := {ti};\nEND_VAR\n{fp}{tp}FOR i := lo TO hi{by_s} DO\n  n := n + DINT#1;\nEND_FOR;\nEND_PROGRAM\n", tn = t.name())
                    }
                },
            ));
        }
    }
    // CASE selectors of every integer type at every boundary value (the type limits are reached by computation where they have
    // no literal form), with single labels and ranges, with and without ELSE
    for t in gen::INTS {
        for v in bounds(t).into_iter().chain([Sv::I(3)]) {
            for with_else in [true, false] {
                n += 1;
                if n % nshards != shard {
                    continue;
                }
                let (init, pre) = init_for("s", t, v);
                let els = if with_else { "ELSE\n  r := DINT#3;\n" } else { "" };
                cells.push((
                    format!("case {} {:?}", t.name(), v),
                    format!("matrix|case|{}", if t.is_unsigned() { "unsigned-selector" } else { "signed-selector" }),
                    format!("PROGRAM Main\nVAR\n  s : {} := {init};\n  r : DINT;\nEND_VAR\n{pre}CASE s OF\n  1: r := DINT#1;\n  2..4: r := DINT#2;\n{els}END_CASE;\nr := r + DINT#1;\nEND_PROGRAM\n", t.name()),
                ));
            }
        }
    }
    // assignment of every source type into every target type (C03 role = assign), arrays and struct fields too
    for t in gen::ALL {
        for s in t.sources() {
            n += 1;
            if n % nshards != shard {
                continue;
            }
            let v = if s.is_real() { Sv::F(2.0) } else { Sv::I(1) };
            cells.push((
                format!("assign {} <- {}", t.name(), s.name()),
                format!("matrix|assign|{}", if s == t { "same-type" } else { "widening" }),
                format!("TYPE S0 : STRUCT f : {t}; END_STRUCT END_TYPE\nPROGRAM Main\nVAR\n  src : {s} := {lit};\n  dst : {t};\n  arr : ARRAY[0..1] OF {t};\n  st : S0;\nEND_VAR\ndst := src;\narr[1] := src;\nst.f := src;\nEND_PROGRAM\n", t = t.name(), s = s.name(), lit = gen::lit_text(s, v)),
            ));
        }
    }
    // function parameter / return / FB input / FB output paths per widening pair
    for t in gen::NUMERIC.iter().copied().chain(gen::BITS) {
        for s in t.sources() {
            n += 1;
            if n % nshards != shard {
                continue;
            }
            let v = if s.is_real() { Sv::F(2.0) } else { Sv::I(1) };
            cells.push((
                format!("param {} <- {}", t.name(), s.name()),
                format!("matrix|param|{}", if s == t { "same-type" } else { "widening" }),
                format!(
                    "FUNCTION F : {t}\nVAR_INPUT p : {t}; END_VAR\nF := p;\nEND_FUNCTION\nFUNCTION G : {s}\nVAR_INPUT p : {s}; END_VAR\nG := p;\nEND_FUNCTION\nFUNCTION_BLOCK B\nVAR_INPUT i : {t}; END_VAR\nVAR_OUTPUT o : {t}; END_VAR\nVAR keep : {t}; END_VAR\no := i;\nkeep := i;\nEND_FUNCTION_BLOCK\nPROGRAM Main\nVAR\n  src : {s} := {lit};\n  r1 : {t};\n  r2 : {t};\n  r3 : {t};\n  fb : B;\nEND_VAR\nr1 := F(src);\nr2 := F(p := src);\nr3 := G(src);\nfb(i := src);\nr1 := fb.o;\nEND_PROGRAM\n",
                    t = t.name(),
                    s = s.name(),
                    lit = gen::lit_text(s, v)
                ),
            ));
        }
    }
    // the same write paths with the destination declared through an alias type or a subrange of the target type
    for t in gen::NUMERIC.iter().copied().chain(gen::BITS) {
        for s in t.sources() {
            for wrap in ["alias", "subrange"] {
                if wrap == "subrange" && !t.is_int() {
                    continue;
                }
                n += 1;
                if n % nshards != shard {
                    continue;
                }
                let v = if s.is_real() { Sv::F(2.0) } else { Sv::I(1) };
                let (tdecl, dty) = if wrap == "alias" { (format!("TYPE A0 : {}; END_TYPE\n", t.name()), "A0".to_string()) } else { (String::new(), format!("{}(0..100)", t.name())) };
                cells.push((
                    format!("{wrap} {} <- {}", t.name(), s.name()),
                    format!("matrix|{wrap}|{}", if s == t { "same-type" } else { "widening" }),
                    format!(
                        "{tdecl}TYPE S0 : STRUCT f : {d}; END_STRUCT END_TYPE\nFUNCTION F : {d}\nVAR_INPUT p : {d}; END_VAR\nF := p;\nEND_FUNCTION\nFUNCTION_BLOCK B\nVAR_INPUT i : {d}; END_VAR\nVAR_OUTPUT o : {d}; END_VAR\nVAR keep : {d}; END_VAR\no := i;\nkeep := i;\nEND_FUNCTION_BLOCK\nPROGRAM Main\nVAR\n  src : {s} := {lit};\n  dst : {d};\n  arr : ARRAY[0..1] OF {d};\n  st : S0;\n  r1 : {d};\n  r2 : {d};\n  fb : B;\nEND_VAR\ndst := src;\narr[1] := src;\nst.f := src;\nr1 := F(src);\nr2 := F(p := src);\nfb(i := src);\nr1 := fb.o;\nEND_PROGRAM\n",
                        d = dty,
                        s = s.name(),
                        lit = gen::lit_text(s, v)
                    ),
                ));
            }
        }
    }
    // directly addressed variables of every type that fits an address size: the latch / publish conversions must keep the declared type
    for (letter, types) in [("X", vec!["BOOL"]), ("B", vec!["BYTE", "SINT", "USINT"]), ("W", vec!["WORD", "INT", "UINT"]), ("D", vec!["DWORD", "DINT", "UDINT", "REAL"]), ("L", vec!["LWORD", "LINT", "ULINT", "LREAL"])] {
        for t in types {
            n += 1;
            if n % nshards != shard {
                continue;
            }
            let bit = if letter == "X" { ".0" } else { "" };
            cells.push((
                format!("io-bound {t} %{letter}"),
                "matrix|io-binding".into(),
                format!("PROGRAM Main\nVAR\n  i AT %I{letter}0{bit} : {t};\n  m AT %M{letter}8{bit} : {t};\n  q AT %Q{letter}0{bit} : {t};\n  keep : {t};\n  arr : ARRAY[0..1] OF {t};\nEND_VAR\nkeep := i;\narr[1] := m;\nq := i;\nm := keep;\nEND_PROGRAM\n"),
            ));
        }
    }
    // inherited variables (EXTENDS): written from the derived body, a derived method and an inherited method, per widening pair
    for t in gen::NUMERIC.iter().copied().chain(gen::BITS) {
        for s in t.sources() {
            n += 1;
            if n % nshards != shard {
                continue;
            }
            let v = if s.is_real() { Sv::F(2.0) } else { Sv::I(1) };
            cells.push((
                format!("inherited {} <- {}", t.name(), s.name()),
                format!("matrix|inherited|{}", if s == t { "same-type" } else { "widening" }),
                format!(
                    "FUNCTION_BLOCK Base\nVAR total : {t}; arr : ARRAY[0..1] OF {t}; END_VAR\nVAR_OUTPUT o : {t}; END_VAR\nMETHOD PUBLIC SetBase\nVAR_INPUT d : {s}; END_VAR\ntotal := d;\nEND_METHOD\nEND_FUNCTION_BLOCK\nFUNCTION_BLOCK Derived EXTENDS Base\nVAR own : {t}; src : {s} := {lit}; END_VAR\nMETHOD PUBLIC SetDerived\nVAR_INPUT d : {s}; END_VAR\no := d;\nown := d;\nEND_METHOD\ntotal := src;\narr[1] := src;\no := src;\nown := src;\nEND_FUNCTION_BLOCK\nFUNCTION_BLOCK Deeper EXTENDS Derived\nVAR z : {s} := {lit}; END_VAR\ntotal := z;\nown := z;\nEND_FUNCTION_BLOCK\nPROGRAM Main\nVAR b : Base; d : Derived; e : Deeper; k : {s} := {lit}; END_VAR\nd();\nd.SetBase(d := k);\nd.SetDerived(d := k);\nb.SetBase(d := k);\ne();\ne.SetBase(d := k);\ne.SetDerived(d := k);\nEND_PROGRAM\n",
                    t = t.name(),
                    s = s.name(),
                    lit = gen::lit_text(s, v)
                ),
            ));
        }
    }
    // standard functions at their boundaries: conversions (also with an argument of a narrower type, which the checker widens),
    // shifts / rotations by 0, width-1, width, more; string functions with lengths / positions 0, 1, len, len+1, huge, negative;
    // numeric functions outside their domain
    {
        let mut std_cells: Vec<(String, String)> = Vec::new();
        let conv: Vec<Ty> = gen::NUMERIC.iter().copied().chain(gen::BITS).collect();
        for x in &conv {
            for y in &conv {
                if x == y || (x.is_real() && y.is_bits()) || (x.is_bits() && y.is_real()) {
                    continue;
                }
                let f = format!("{}_TO_{}", x.name(), y.name());
                for v in bounds(*x) {
                    if *x == Ty::LWord && matches!(v, Sv::I(b) if b > i64::MAX as i128) {
                        // no literal form above 2^63-1: build the value in a ULINT and convert
                        let (init, pre) = init_for("u", Ty::ULInt, v);
                        std_cells.push((format!("{f} {:?}", v), format!("PROGRAM Main\nVAR\n  u : ULINT := {init};\n  a : LWORD;\n  r : {};\nEND_VAR\n{pre}a := ULINT_TO_LWORD(u);\nr := {f}(a);\nEND_PROGRAM\n", y.name())));
                        continue;
                    }
                    let (init, pre) = init_for("a", *x, v);
                    std_cells.push((format!("{f} {:?}", v), format!("PROGRAM Main\nVAR\n  a : {} := {init};\n  r : {};\nEND_VAR\n{pre}r := {f}(a);\nEND_PROGRAM\n", x.name(), y.name())));
                }
                // argument of a narrower type of the same family
                for sx in x.sources().into_iter().filter(|sx| sx != x) {
                    std_cells.push((format!("{f}({})", sx.name()), format!("PROGRAM Main\nVAR\n  a : {} := {};\n  r : {};\nEND_VAR\nr := {f}(a);\nEND_PROGRAM\n", sx.name(), gen::lit_text(sx, if sx.is_real() { Sv::F(2.0) } else { Sv::I(1) }), y.name())));
                }
            }
        }
        for (t, width) in [("BYTE", 8i64), ("WORD", 16), ("DWORD", 32), ("LWORD", 64)] {
            for f in ["SHL", "SHR", "ROL", "ROR"] {
                for nsh in [0i64, 1, width - 1, width, width + 1, 2 * width, 255, 32767, -1] {
                    for val in ["1", "16#81", "16#7F"] {
                        std_cells.push((format!("{f} {t} by {nsh}"), format!("PROGRAM Main\nVAR\n  w : {t} := {t}#{val};\n  n : INT := INT#{nsh};\n  r : {t};\nEND_VAR\nr := {f}(w, n);\nEND_PROGRAM\n")));
                    }
                }
            }
        }
        let big = ["INT#0", "INT#1", "INT#2", "INT#6", "INT#7", "INT#32767", "INT#-1", "LINT#9223372036854775807", "DINT#2147483647", "USINT#255"];
        for a in big {
            for b in ["INT#0", "INT#1", "INT#3", "INT#7", "INT#-1", "LINT#9223372036854775807"] {
                for (name, call) in [
                    ("LEFT", format!("t := LEFT(s, {a});")),
                    ("RIGHT", format!("t := RIGHT(s, {a});")),
                    ("MID", format!("t := MID(s, {a}, {b});")),
                    ("INSERT", format!("t := INSERT(s, 'XY', {a});")),
                    ("DELETE", format!("t := DELETE(s, {a}, {b});")),
                    ("REPLACE", format!("t := REPLACE(s, 'XY', {a}, {b});")),
                ] {
                    if matches!(name, "LEFT" | "RIGHT" | "INSERT") && b != "INT#0" {
                        continue;
                    }
                    std_cells.push((format!("{name} {a} {b}"), format!("PROGRAM Main\nVAR\n  s : STRING := 'abcdef';\n  t : STRING;\n  n : INT;\nEND_VAR\n{call}\nn := LEN(t) + FIND(s, t);\nEND_PROGRAM\n")));
                }
            }
        }
        for call in [
            "r := SQRT(LREAL#-1.0);", "r := LN(LREAL#0.0);", "r := LN(LREAL#-1.0);", "r := LOG(LREAL#0.0);", "r := EXP(LREAL#1000.0);", "r := ASIN(LREAL#2.0);", "r := ACOS(LREAL#-2.0);", "r := TAN(LREAL#1.5707963267948966);",
            "r := EXPT(LREAL#0.0, LREAL#-1.0);", "r := EXPT(LREAL#-8.0, LREAL#0.333);", "i := ABS(imin);", "i := TRUNC(LREAL#1.0e300);", "i := LREAL_TO_DINT(LREAL#1.0e300);", "i := LREAL_TO_DINT(LREAL#-2147483648.5);", "i := REAL_TO_DINT(REAL#3.0e38);",
            "i := MUX(INT#5, DINT#1, DINT#2);", "i := MUX(INT#-1, DINT#1, DINT#2);", "i := LIMIT(DINT#5, DINT#7, DINT#1);", "i := MIN(imin, DINT#0) + MAX(imin, DINT#0);", "i := SEL(TRUE, DINT#1, imin);", "i := DINT#7 MOD DINT#-1;", "i := imin / DINT#-1;", "i := imin MOD DINT#-1;",
        ] {
            std_cells.push((format!("num {call}"), format!("PROGRAM Main\nVAR\n  r : LREAL;\n  i : DINT;\n  imin : DINT := DINT#-2147483647;\nEND_VAR\nimin := imin - DINT#1;\n{call}\nEND_PROGRAM\n")));
        }
        // JMP / labels in every block relation the checker accepts, and faults raised while a callee's locals are initialised
        let mut flow_cells: Vec<(&str, String)> = Vec::new();
        let prog = |body: &str| format!("PROGRAM Main\nVAR\n  i : INT;\n  n : INT;\n  c : BOOL := TRUE;\nEND_VAR\n{body}\nEND_PROGRAM\n");
        flow_cells.push(("jmp|same-block-forward", prog("JMP done;\nn := INT#1;\ndone: n := n + INT#2;")));
        flow_cells.push(("jmp|endless-same-block", prog("again: i := (i + INT#1) MOD INT#100;\nJMP again;")));
        flow_cells.push(("jmp|endless-out-of-if", prog("again: i := (i + INT#1) MOD INT#100;\nIF c THEN\n  JMP again;\nEND_IF;")));
        flow_cells.push(("jmp|out-of-if", prog("IF c THEN\n  JMP done;\nEND_IF;\nn := INT#1;\ndone: n := n + INT#2;")));
        flow_cells.push(("jmp|out-of-nested-if", prog("IF c THEN\n  IF n < INT#100 THEN\n    JMP done;\n  END_IF;\nEND_IF;\nn := INT#1;\ndone: n := n + INT#2;")));
        flow_cells.push(("jmp|out-of-case", prog("CASE i OF\n  INT#0: JMP done;\nELSE\n  n := INT#5;\nEND_CASE;\nn := INT#1;\ndone: n := n + INT#2;")));
        flow_cells.push(("jmp|out-of-for", prog("FOR i := INT#0 TO INT#3 DO\n  IF i = INT#2 THEN\n    JMP done;\n  END_IF;\nEND_FOR;\nn := INT#1;\ndone: n := n + INT#2;")));
        flow_cells.push(("jmp|out-of-while", prog("WHILE i < INT#3 DO\n  i := i + INT#1;\n  JMP done;\nEND_WHILE;\nn := INT#1;\ndone: n := n + INT#2;")));
        flow_cells.push(("jmp|backward-out-of-if", prog("again: i := i + INT#1;\nIF i < INT#5 THEN\n  JMP again;\nEND_IF;\ni := INT#0;")));
        flow_cells.push(("jmp|into-if", prog("JMP inner;\nIF c THEN\n  n := INT#1;\n  inner: n := n + INT#2;\nEND_IF;")));
        flow_cells.push(("jmp|into-for", prog("JMP inner;\nFOR i := INT#0 TO INT#3 DO\n  n := INT#1;\n  inner: n := n + INT#2;\nEND_FOR;")));
        flow_cells.push(("jmp|sibling-branch", prog("IF c THEN\n  JMP other;\nELSE\n  other: n := n + INT#2;\nEND_IF;")));
        flow_cells.push(("jmp|in-function", "FUNCTION F : INT\nVAR_INPUT\n  a : INT;\nEND_VAR\nIF a > INT#0 THEN\n  JMP done;\nEND_IF;\nF := INT#1;\ndone: F := F + INT#2;\nEND_FUNCTION\nPROGRAM Main\nVAR\n  n : INT;\nEND_VAR\nn := F(INT#1) + F(INT#0);\nEND_PROGRAM\n".to_string()));
        flow_cells.push(("jmp|in-fb", "FUNCTION_BLOCK B\nVAR_INPUT\n  a : INT;\nEND_VAR\nVAR_OUTPUT\n  q : INT;\nEND_VAR\nIF a > INT#0 THEN\n  JMP done;\nEND_IF;\nq := INT#1;\ndone: q := q + INT#2;\nEND_FUNCTION_BLOCK\nPROGRAM Main\nVAR\n  b : B;\n  n : INT;\nEND_VAR\nb(a := INT#1);\nb(a := INT#0);\nn := b.q;\nEND_PROGRAM\n".to_string()));
        for (kind, decl, call) in [
            ("function", "FUNCTION F : INT\nVAR_INPUT\n  a : INT;\n  b : INT;\nEND_VAR\nVAR_TEMP\n  t : INT := a / b;\nEND_VAR\nF := t;\nEND_FUNCTION", "n := F(INT#7, z);"),
            ("function-var", "FUNCTION F : INT\nVAR_INPUT\n  a : INT;\n  b : INT;\nEND_VAR\nVAR\n  t : INT := a / b;\nEND_VAR\nF := t;\nEND_FUNCTION", "n := F(INT#7, z);"),
            ("fb", "FUNCTION_BLOCK B\nVAR_INPUT\n  a : INT;\n  b : INT;\nEND_VAR\nVAR_TEMP\n  t : INT := a / b;\nEND_VAR\nVAR_OUTPUT\n  q : INT;\nEND_VAR\nq := t;\nEND_FUNCTION_BLOCK", "fb(a := INT#7, b := z);\nn := fb.q;"),
            ("method", "FUNCTION_BLOCK B\nMETHOD PUBLIC M : INT\nVAR_INPUT\n  a : INT;\n  b : INT;\nEND_VAR\nVAR_TEMP\n  t : INT := a / b;\nEND_VAR\nM := t;\nEND_METHOD\nEND_FUNCTION_BLOCK", "n := fb.M(INT#7, z);"),
            ("overflowing-initialiser", "FUNCTION F : INT\nVAR_INPUT\n  a : INT;\n  b : INT;\nEND_VAR\nVAR_TEMP\n  t : INT := a * b;\nEND_VAR\nF := t;\nEND_FUNCTION", "n := F(INT#32767, z + INT#2);"),
        ] {
            let fbdecl = if decl.contains("FUNCTION_BLOCK") { "  fb : B;\n" } else { "" };
            let text = format!("{decl}\nPROGRAM Main\nVAR\n{fbdecl}  n : INT;\n  z : INT;\n  k : INT;\nEND_VAR\nk := k + INT#1;\n{call}\nEND_PROGRAM\n");
            flow_cells.push((Box::leak(format!("local-initialiser-fault|{kind}").into_boxed_str()), text));
        }
        for (label, text) in flow_cells {
            n += 1;
            if n % nshards != shard {
                continue;
            }
            sampled_std.push((label.to_string(), format!("matrix|{label}"), text));
        }
        // time / date and BCD functions at their limits (variables, so nothing is folded at compile time)
        for (class, call) in [
            ("time-function", "vt := ADD_TIME(tmax, tmax);"), ("time-function", "vt := SUB_TIME(T#0s, tmax);"), ("time-function", "vt := SUB_TIME(SUB_TIME(T#0s, tmax), tmax);"), ("time-function", "vt := MUL_TIME(tmax, limax);"),
            ("time-function", "vt := DIV_TIME(tmax, zi);"), ("time-function", "vt := MUL_TIME(tmax, LREAL#1.0e300);"), ("time-function", "vt := DIV_TIME(tmax, zr);"), ("time-function", "vt := MUL_TIME(tmax, zr / zr);"),
            ("time-function", "vdt := ADD_DT_TIME(dtmax, tmax);"), ("time-function", "vdt := SUB_DT_TIME(DT#1970-01-01-00:00:00, tmax);"), ("time-function", "vdt := CONCAT_DATE_TOD(D#2262-04-11, TOD#23:59:59);"),
            ("time-function", "vd := DT_TO_DATE(dtmax);"), ("time-function", "vtd := DT_TO_TOD(dtmax);"), ("time-function", "vtd := ADD_TOD_TIME(TOD#23:59:59, T#2s);"), ("time-function", "vtd := SUB_TOD_TIME(TOD#00:00:00, T#2s);"),
            ("time-function", "vt := SUB_DT_DT(dtmax, DT#1970-01-01-00:00:00);"), ("time-function", "vt := SUB_DATE_DATE(D#1970-01-01, D#2262-04-11);"), ("time-function", "vt := SUB_TOD_TOD(TOD#00:00:00, TOD#23:59:59);"),
            ("time-function", "i := DAY_OF_WEEK(D#1970-01-01) + DAY_OF_WEEK(D#2262-04-11);"), ("time-function", "vd := CONCAT_DATE(INT#2262, INT#13, INT#32);"), ("time-function", "vd := CONCAT_DATE(INT#-1, INT#0, INT#0);"),
            ("time-function", "vtd := CONCAT_TOD(INT#24, INT#60, INT#60, INT#1000);"), ("time-function", "vdt := CONCAT_DT(INT#9999, INT#12, INT#31, INT#23, INT#59, INT#59, INT#999);"),
            ("bcd", "b := TO_BCD_BYTE(USINT#255);"), ("bcd", "b := TO_BCD_BYTE(USINT#99);"), ("bcd", "w := UINT_TO_BCD_WORD(UINT#65535);"), ("bcd", "us := BCD_TO_USINT(BYTE#16#99);"),
            ("bcd-invalid-digit", "us := BCD_TO_USINT(BYTE#16#FF);"), ("bcd-invalid-digit", "ui := WORD_BCD_TO_UINT(WORD#16#1A00);"),
        ] {
            std_cells.push((format!("{class} {call}"), format!("PROGRAM Main\nVAR\n  vt : TIME; vd : DATE; vdt : DT; vtd : TOD; i : INT; zi : INT; zr : LREAL; b : BYTE; w : WORD; us : USINT; ui : UINT;\n  tmax : TIME := T#106751d; limax : LINT := LINT#9223372036854775807; dtmax : DT := DT#2262-04-11-23:47:16;\nEND_VAR\n{call}\nEND_PROGRAM\n")));
        }
        for (label, text) in std_cells {
            n += 1;
            if n % nshards != shard {
                continue;
            }
            let class = if label.starts_with("time-function") { "time-function" } else if label.starts_with("bcd-invalid") { "bcd-invalid-digit" } else if label.starts_with("bcd ") { "bcd" } else if label.contains("_TO_") { "conversion" } else if (label.starts_with("SH") || label.starts_with("RO")) && label.ends_with("by -1") { "shift-negative-count" } else if label.starts_with("SH") || label.starts_with("RO") { "shift" } else if label.starts_with("num ") { "numeric-function" } else { "string-function" };
            sampled_std.push((label, format!("matrix|std|{class}"), text));
        }
    }
    // feature-switch cells: the deviations the generator otherwise avoids
    let specials: Vec<(&str, &str, String)> = vec![
        ("case variation", "switch|case-variation", "PROGRAM Main\nVAR\n  Counter : INT;\nEND_VAR\ncounter := COUNTER + INT#1;\nEND_PROGRAM\n".into()),
        ("untyped literal", "switch|untyped-literal", "PROGRAM Main\nVAR\n  x : INT;\n  u : UINT;\n  r : REAL;\nEND_VAR\nx := x + 1;\nu := u + 1;\nr := r + 1.5;\nEND_PROGRAM\n".into()),
        ("return in program", "switch|return-in-program", "PROGRAM Main\nVAR\n  x : INT;\nEND_VAR\nx := x + INT#1;\nIF x > INT#0 THEN\n  RETURN;\nEND_IF;\nx := INT#0;\nEND_PROGRAM\n".into()),
        ("fb call without args", "switch|fb-call-without-args", "FUNCTION_BLOCK B\nVAR_INPUT a : INT; b : INT; END_VAR\nVAR_OUTPUT o : INT; END_VAR\no := a + b;\nEND_FUNCTION_BLOCK\nPROGRAM Main\nVAR\n  fb : B;\nEND_VAR\nfb();\nEND_PROGRAM\n".into()),
        ("subrange overflow", "switch|subrange-overflow", "PROGRAM Main\nVAR\n  s : INT(0..10);\n  x : INT := INT#50;\nEND_VAR\ns := x;\nEND_PROGRAM\n".into()),
        ("subrange defaults", "switch|subrange-default", "TYPE Lvl : INT(5..10); END_TYPE\nTYPE Rec : STRUCT lo : SINT(-20..-3); hi : UINT(100..200); END_STRUCT END_TYPE\nFUNCTION_BLOCK Hold\nVAR_INPUT i : INT(5..10); END_VAR\nVAR_OUTPUT o : DINT(1000..2000); END_VAR\nVAR st : Lvl; n : INT; END_VAR\nn := n + INT#1;\nEND_FUNCTION_BLOCK\nPROGRAM Main\nVAR\n  level : INT(5..10);\n  neg : SINT(-20..-3);\n  big : UINT(100..200);\n  named : Lvl;\n  arr : ARRAY[0..2] OF INT(5..10);\n  rec : Rec;\n  h : Hold;\n  zero_ok : INT(-3..3);\n  n : INT;\nEND_VAR\nn := n + INT#1;\nh();\nEND_PROGRAM\n".into()),
        ("subrange of alias default", "switch|subrange-of-alias-default", "TYPE Base : INT; END_TYPE\nPROGRAM Main\nVAR\n  v : Base(5..10);\n  n : INT;\nEND_VAR\nn := n + INT#1;\nEND_PROGRAM\n".into()),
        ("enum case", "switch|case-enum-selector", "TYPE E : (Red, Green, Blue); END_TYPE\nPROGRAM Main\nVAR\n  e : E := E#Green;\n  r : INT;\nEND_VAR\nCASE e OF\n  E#Red: r := INT#1;\n  E#Green: r := INT#2;\nEND_CASE;\nEND_PROGRAM\n".into()),
        ("pow negative int exponent", "switch|pow-negative-exponent", "PROGRAM Main\nVAR\n  a : INT := INT#2;\n  b : INT := INT#-1;\n  r : INT;\nEND_VAR\nr := a ** b;\nEND_PROGRAM\n".into()),
        ("en/eno calls", "switch|en-eno", "FUNCTION Scale : INT\nVAR_INPUT EN : BOOL; x : INT; END_VAR\nVAR_OUTPUT ENO : BOOL; END_VAR\nScale := x * INT#2;\nEND_FUNCTION\nFUNCTION Compute : INT\nVAR_INPUT enable : BOOL; base : INT; END_VAR\nVAR tmp : INT; ok : BOOL; END_VAR\ntmp := Scale(EN := enable, x := base, ENO => ok);\nIF enable THEN\n  Compute := tmp + base;\nELSE\n  Compute := base * INT#3;\nEND_IF;\nEND_FUNCTION\nFUNCTION_BLOCK Gate\nVAR_INPUT EN : BOOL; x : INT; END_VAR\nVAR_OUTPUT ENO : BOOL; y : INT; END_VAR\nVAR n : INT; END_VAR\nn := n + INT#1;\ny := x + n;\nEND_FUNCTION_BLOCK\nFUNCTION_BLOCK User\nVAR_INPUT go : BOOL; END_VAR\nVAR_OUTPUT o : INT; END_VAR\nVAR loc : INT := INT#7; t : INT; END_VAR\nt := Scale(EN := go, x := loc);\nIF go THEN\n  o := t + loc;\nELSE\n  o := loc;\nEND_IF;\nEND_FUNCTION_BLOCK\nPROGRAM Main\nVAR d1 : INT; r1 : INT; r2 : INT; ok2 : BOOL := TRUE; g : Gate; h : Gate; gn : INT; hy : INT; gok : BOOL := TRUE; u : User; u2 : User; uo : INT; u2o : INT; skipped : INT; END_VAR\nd1 := Scale(EN := TRUE, x := INT#4);\nskipped := Scale(EN := FALSE, x := INT#4, ENO => ok2);\nr1 := Compute(enable := TRUE, base := INT#5);\nr2 := Compute(enable := FALSE, base := INT#5);\ng(EN := FALSE, x := INT#3, ENO => gok);\nh(EN := TRUE, x := INT#3);\nhy := h.y;\nu(go := FALSE);\nu2(go := TRUE);\nuo := u.o;\nu2o := u2.o;\nEND_PROGRAM\n".into()),
        ("recursion", "switch|recursion", "FUNCTION R : DINT\nVAR_INPUT n : DINT; END_VAR\nIF n <= DINT#0 THEN\n  R := DINT#0;\nELSE\n  R := R(n - DINT#1) + DINT#1;\nEND_IF;\nEND_FUNCTION\nPROGRAM Main\nVAR\n  x : DINT;\nEND_VAR\nx := R(DINT#50);\nEND_PROGRAM\n".into()),
        ("exit in nested if", "switch|none", "PROGRAM Main\nVAR\n  i : DINT;\n  n : DINT;\nEND_VAR\nFOR i := DINT#0 TO DINT#9 DO\n  IF i > DINT#3 THEN\n    IF TRUE THEN EXIT; END_IF;\n  END_IF;\n  n := n + DINT#1;\nEND_FOR;\nEND_PROGRAM\n".into()),
        ("time arithmetic", "switch|time-arith", "PROGRAM Main\nVAR\n  t : TIME := T#1s;\n  u : TIME;\n  b : BOOL;\nEND_VAR\nu := ADD_TIME(t, T#5ms);\nu := SUB_TIME(u, t);\nb := u < t;\nu := MUL_TIME(t, INT#3);\nEND_PROGRAM\n".into()),
        ("bit ops", "switch|bit-ops", "PROGRAM Main\nVAR\n  w : WORD := WORD#16#F0F0;\n  v : WORD;\nEND_VAR\nv := SHL(w, 3);\nv := ROR(v, 5);\nEND_PROGRAM\n".into()),
        ("string ops", "switch|strings", "PROGRAM Main\nVAR\n  s : STRING := 'abc';\n  t : STRING;\n  n : INT;\nEND_VAR\nt := CONCAT(s, 'def');\nn := LEN(t);\nEND_PROGRAM\n".into()),
    ];
    for (l, f, t) in specials {
        n += 1;
        if n % nshards != shard {
            continue;
        }
        cells.push((l.to_string(), f.to_string(), t));
    }
    // the operator x type x boundary-value matrix is sampled in the quick tier, everything else always runs
    if sampled.len() > budget {
        rng.shuffle(&mut sampled);
        sampled.truncate(budget);
    }
    cells.extend(sampled);
    // standard-function cells: everything but the (large) conversion matrix always runs; conversions are sampled in the quick tier
    let (conv, other): (Vec<_>, Vec<_>) = sampled_std.into_iter().partition(|c| c.1.ends_with("|conversion"));
    cells.extend(other);
    let mut conv = conv;
    if conv.len() > budget / 2 {
        rng.shuffle(&mut conv);
        conv.truncate(budget / 2);
    }
    cells.extend(conv);
    cells
}

/// FB instances associated with a task are executed by the scheduler itself (Runtime::register_task with `fb_instances`;
/// the ST front end has no syntax for it). Faults at every stage of such a call - initialisation of VAR_TEMP locals, body -
/// must end the cycle like any other fault: value-dependent error, no frame left behind, next cycle runs.
fn task_bound_fb_cells(sh: &mut Shard) {
    use trust_runtime::task::TaskConfig;
    for (label, temps, body) in [
        ("temp-initialiser-fault", "VAR_TEMP t : INT := a / b; END_VAR", "q := t;"),
        ("body-fault", "VAR_TEMP t : INT; END_VAR", "t := a / b;\nq := t;"),
        ("no-fault", "VAR_TEMP t : INT := a; END_VAR", "q := t;"),
        ("temp-initialiser-overflow", "VAR_TEMP t : INT := a * big; END_VAR", "q := t;"),
    ] {
        let text = format!("FUNCTION_BLOCK B\nVAR_INPUT a : INT := INT#7; b : INT; big : INT := INT#32767; END_VAR\n{temps}\nVAR_OUTPUT q : INT; END_VAR\n{body}\nEND_FUNCTION_BLOCK\nPROGRAM Main\nVAR fbi : B; k : INT; END_VAR\nk := k + INT#1;\nEND_PROGRAM\n");
        let case = json!({"class": "task-bound-fb", "label": label, "text": text});
        if !sh.begin(&format!("cell|task-bound-fb|{label}"), &case) {
            continue;
        }
        let r = catch(|| -> Result<Vec<(Option<String>, usize)>, String> {
            let mut h = TestHarness::from_source(&text).map_err(|e| e.to_string())?;
            let pid = match h.runtime().storage().get_global("Main") {
                Some(Value::Instance(id)) => *id,
                _ => return Err("program instance not found".into()),
            };
            let fbref = h.runtime().storage().ref_for_instance(pid, "fbi").ok_or("no reference to fbi")?;
            h.runtime_mut().register_task(TaskConfig { name: "T".into(), interval: Duration::from_millis(1), single: None, priority: 0, programs: vec![], fb_instances: vec![fbref] });
            let mut out = Vec::new();
            for _ in 0..3 {
                h.advance_time(Duration::from_millis(1));
                let res = h.cycle();
                out.push((res.errors.first().map(|e| format!("{e:?}")), h.runtime().storage().frames().len()));
            }
            Ok(out)
        });
        match r {
            Err(p) => sh.violation(format!("panic|{}", panic_sig(&p)), format!("{p} [task-bound FB {label}]"), case.clone()),
            Ok(Err(e)) => sh.note(format!("task-bound FB cell {label} not run: {e}")),
            Ok(Ok(obs)) => {
                sh.count("task_bound_fb_cells_executed", 1);
                for (ci, (err, frames)) in obs.iter().enumerate() {
                    if *frames != 0 {
                        sh.violation(format!("frames-left|task-bound-fb|{label}"), format!("cycle {ci}: {frames} call frame(s) left after the cycle (error {err:?})"), case.clone());
                        break;
                    }
                    if let Some(e) = err {
                        let name = e.split(['(', ' ', '{']).next().unwrap_or("");
                        if !matches!(name, "DivisionByZero" | "ModuloByZero" | "Overflow" | "IndexOutOfBounds" | "NullReference" | "ForStepZero" | "DateTimeRange" | "ExecutionTimeout" | "ResourceFaulted") {
                            sh.violation(format!("static-class-error|{name}|task-bound-fb|{label}"), format!("cycle {ci}: {e}"), case.clone());
                            break;
                        }
                    }
                }
            }
        }
        sh.end();
    }
}

pub fn run(sh: &mut Shard) {
    let mode = sh.args.get("mode").unwrap_or("c01").to_string();
    if let Some(path) = sh.args.replay.clone() {
        let v: J = serde_json::from_str(&std::fs::read_to_string(path).expect("replay")).expect("json");
        let r = if v.get("replay").is_some() { v["replay"].clone() } else { v };
        let r = if r.get("case").is_some() { r["case"].clone() } else { r };
        let text = r["text"].as_str().unwrap_or("").to_string();
        let trace = parse_trace(&r["trace"]);
        // generated programs are regenerated from their seed for the reference comparison
        let prog = r["gen_seed"].as_str().and_then(|s| s.parse::<u64>().ok()).map(|s| {
            let mut g = Rng::new(s);
            gen::generate(&mut g, r["extended"].as_bool().unwrap_or(false), &[])
        });
        check_case(sh, &mode, "replay", "replay", &text, prog.as_ref(), &trace, r["features"].as_str().unwrap_or(""));
        return;
    }
    let thorough = sh.args.thorough();
    let rng = Rng::new(sh.args.shard_seed());
    let (shard, nshards) = (sh.args.shard as usize, sh.args.nshards as usize);
    let empty = vec![CycleIn { dt_ns: 1_000_000, inputs: vec![] }; 3];
    if mode == "c01" && shard == 0 {
        task_bound_fb_cells(sh);
    }
    if mode != "c02" {
        // systematic single-feature cells
        let budget = if thorough { usize::MAX } else { 2500 };
        for (label, feat, text) in matrix_cells(&mut rng.fork(99), shard, nshards, budget) {
            check_case(sh, &mode, &format!("cell|{feat}"), &label, &text, None, &empty, &feat);
        }
        // the repository's own .st files, as far as they build stand-alone
        for (i, (path, text)) in crate::engines::c12::corpus_files().into_iter().enumerate() {
            if i % nshards != shard || text.len() > 30_000 {
                continue;
            }
            check_case(sh, &mode, "corpus", &path, &text, None, &empty, "corpus");
        }
    }
    if mode == "c02" {
        for (k, cell) in crate::engines::c02cells::CELLS.iter().enumerate() {
            if k % nshards == shard {
                semantic_cell(sh, cell);
            }
        }
    }
    let mut i = 0u64;
    while sh.time_left() {
        i += 1;
        let seed = rng.fork(i).next();
        let mut g = Rng::new(seed);
        let extended = mode != "c02" && g.chance(1, 2);
        let p = gen::generate(&mut g, extended, &[]);
        let text = gen::program_text(&p);
        let ncyc = 3 + g.usize(3);
        let trace = gen_trace(&mut g, &p, ncyc);
        let feats: Vec<String> = p.features.iter().cloned().collect();
        let f = if feats.is_empty() { "core".to_string() } else { feats.join("+") };
        let case_extra = json!({"gen_seed": seed.to_string(), "extended": extended});
        let _ = case_extra;
        check_case_gen(sh, &mode, &f, &text, &p, &trace, seed, extended);
    }
    if mode == "c01" {
        budget_cells(sh);
    }
}

/// "Each scan cycle terminates ... budget timeout": loops that cannot finish inside a short execution budget (300 ms) and whose
/// bodies execute nothing, one statement, or another loop.  The cycle runs on its own thread; it must come back - with
/// ExecutionTimeout, or Ok if it really finished - within 20 s.  A cycle that does not come back cannot be interrupted, so this
/// part runs last, stops at the first hang and leaves the stuck thread to die with the process.
fn budget_cells(sh: &mut Shard) {
    let loops: Vec<(&str, String)> = vec![
        ("for-empty-body", "FOR i := LINT#0 TO LINT#9000000000000000000 DO\nEND_FOR;".into()),
        ("for-only-empty-statements", "FOR i := LINT#0 TO LINT#9000000000000000000 DO\n;;\nEND_FOR;".into()),
        ("for-one-statement", "FOR i := LINT#0 TO LINT#9000000000000000000 DO\n n := i;\nEND_FOR;".into()),
        ("for-descending-empty-body", "FOR i := LINT#9000000000000000000 TO LINT#0 BY LINT#-1 DO\nEND_FOR;".into()),
        ("for-nested-empty", "FOR i := LINT#0 TO LINT#3000000000 DO\n FOR j := LINT#0 TO LINT#3000000000 DO\n END_FOR;\nEND_FOR;".into()),
        ("while-empty-body", "WHILE TRUE DO\nEND_WHILE;".into()),
        ("while-one-statement", "WHILE n >= LINT#0 DO\n n := LINT#1;\nEND_WHILE;".into()),
        ("repeat-empty-body", "REPEAT\nUNTIL FALSE END_REPEAT;".into()),
        ("repeat-continue", "REPEAT\n CONTINUE;\nUNTIL FALSE END_REPEAT;".into()),
        ("for-empty-body-in-function", "n := Spin(LINT#9000000000000000000);".into()),
        ("for-empty-body-in-fb", "fb(hi := LINT#9000000000000000000);".into()),
        ("jmp-endless", "again: n := n + LINT#0;\nJMP again;".into()),
    ];
    let (shard, nshards) = (sh.args.shard as usize, sh.args.nshards as usize);
    for (k, (name, body)) in loops.iter().enumerate() {
        if k % nshards != shard {
            continue;
        }
        let text = format!(
            "FUNCTION Spin : LINT\nVAR_INPUT hi : LINT; END_VAR\nVAR k : LINT; END_VAR\nFOR k := LINT#0 TO hi DO\nEND_FOR;\nSpin := k;\nEND_FUNCTION\nFUNCTION_BLOCK Spinner\nVAR_INPUT hi : LINT; END_VAR\nVAR k : LINT; END_VAR\nFOR k := LINT#0 TO hi DO\nEND_FOR;\nEND_FUNCTION_BLOCK\nPROGRAM Main\nVAR i : LINT; j : LINT; n : LINT; fb : Spinner; END_VAR\n{body}\nEND_PROGRAM\n"
        );
        let case = json!({"label": format!("budget:{name}"), "features": "budget", "text": text, "trace": []});
        if !sh.begin("budget-cell", &case) {
            continue;
        }
        let (tx, rx) = std::sync::mpsc::channel();
        let t2 = text.clone();
        let spawned = std::thread::Builder::new().stack_size(STACK).spawn(move || {
            let r = catch(move || -> Result<(String, usize), String> {
                let mut h = trust_runtime::harness::TestHarness::from_source(&t2).map_err(|e| e.to_string())?;
                h.runtime_mut().set_execution_deadline(Some(std::time::Instant::now() + std::time::Duration::from_millis(300)));
                let r = h.cycle();
                Ok((format!("{:?}", r.errors), h.runtime().storage().frames().len()))
            });
            let _ = tx.send(r);
        });
        if spawned.is_err() {
            sh.inconclusive("budget cell: thread spawn failed");
            sh.end();
            continue;
        }
        match rx.recv_timeout(std::time::Duration::from_secs(20)) {
            Err(_) => {
                sh.violation(format!("non-termination|budget-not-enforced|{name}"), format!("a cycle with an execution budget of 300 ms was still running after 20 s [{name}]"), case.clone());
                sh.end();
                return; // the stuck thread keeps a core busy: stop here
            }
            Ok(Err(p)) => sh.violation(format!("panic|{}", panic_sig(&p)), format!("{p} [budget:{name}]"), case.clone()),
            Ok(Ok(Err(e))) => {
                sh.count("budget_cells_rejected_by_compiler", 1);
                sh.note(format!("budget cell {name} rejected: {}", e.lines().next().unwrap_or("")));
            }
            Ok(Ok(Ok((errs, frames)))) => {
                sh.count("budget_cells_returned", 1);
                if errs.contains("ExecutionTimeout") {
                    sh.count("budget_cells_ended_by_the_budget", 1);
                } else if errs != "[]" {
                    sh.violation(format!("budget|unexpected-error|{name}"), format!("the cycle ended with {errs}"), case.clone());
                }
                if frames != 0 {
                    sh.violation(format!("frames-left|budget|{name}"), format!("{frames} call frame(s) left after the cycle ended with {errs}"), case.clone());
                }
                sh.nontrivial(&("budget", name));
            }
        }
        sh.end();
    }
}

#[allow(clippy::too_many_arguments)]
fn check_case_gen(sh: &mut Shard, mode: &str, feats: &str, text: &str, p: &Program, trace: &[CycleIn], seed: u64, extended: bool) {
    // same as check_case, but the replay record carries the generator seed so the reference can be rebuilt
    let label = format!("gen:{seed}");
    let _ = extended;
    check_case(sh, mode, &format!("gen|{feats}"), &label, text, Some(p), trace, feats);
}

/// One hand-derived semantic cell (engines/c02cells.rs): run it in the real runtime and compare the listed variables.
fn semantic_cell(sh: &mut Shard, cell: &crate::engines::c02cells::Cell) {
    let case = json!({"label": format!("cell:{}", cell.name), "features": "semantic-cell", "text": cell.text, "trace": []});
    if !sh.begin("semantic-cell", &case) {
        return;
    }
    let text = cell.text.to_string();
    let cycles = cell.cycles;
    let r = catch(move || -> Result<Vec<(Vec<(String, String)>, String)>, String> {
        let mut h = trust_runtime::harness::TestHarness::from_source(&text).map_err(|e| e.to_string())?;
        let mut out = Vec::new();
        for _ in 0..cycles {
            h.advance_time(trust_runtime::value::Duration::from_millis(10));
            let r = h.cycle();
            out.push((crate::walk::snapshot(h.runtime().storage()), format!("{:?}", r.errors)));
        }
        Ok(out)
    });
    match r {
        Err(p) => {
            sh.count("cases_skipped_panic_reported_by_C01", 1);
            sh.note(format!("semantic cell {} panicked: {p}", cell.name));
        }
        Ok(Err(e)) => {
            sh.count("semantic_cells_rejected_by_compiler", 1);
            sh.note(format!("semantic cell {} rejected: {}", cell.name, e.lines().next().unwrap_or("")));
        }
        Ok(Ok(obs)) => {
            sh.count("semantic_cells_checked", 1);
            let mut bad = Vec::new();
            for (ci, path, want) in cell.expect {
                let Some((snap, errs)) = obs.get(*ci) else { continue };
                if errs != "[]" {
                    bad.push(format!("cycle {ci}: errors {errs}"));
                    break;
                }
                let got = snap.iter().find(|(k, _)| k == path).map(|(_, v)| v.as_str());
                sh.count("semantic_cell_values_compared", 1);
                if got != Some(*want) {
                    bad.push(format!("cycle {ci}: {path} = {} in the runtime, {want} by IEC semantics", got.unwrap_or("<missing>")));
                }
            }
            sh.nontrivial(&("semantic-cell", cell.name));
            if !bad.is_empty() {
                sh.violation(format!("cell|{}", cell.name), bad.join("; "), case.clone());
            }
        }
    }
    sh.end();
}

#[allow(dead_code)]
fn _unused(_: &refsem::Fault) {}
