//! C11 — STBC container: total decoder/validator, exact round trip, validated => safe to apply.

use crate::alloc::measured;
use crate::ctx::{catch, fnv_bytes, on_stack, panic_sig, Shard};
use crate::rng::Rng;
use serde_json::json;
use trust_runtime::bytecode::*;
use trust_runtime::harness::{bytecode_bytes_from_source, TestHarness};

const STACK: usize = 2 * 1024 * 1024;
const ALLOC_CAP: usize = 1 << 30;

pub const SEEDS: &[(&str, &str)] = &[
    (
        "tasks-fb-struct",
        r#"
TYPE Color : (Red, Green, Blue); END_TYPE
TYPE Point : STRUCT x : INT; y : DINT; name : STRING; END_STRUCT END_TYPE
TYPE Small : INT(0..10); END_TYPE
TYPE Arr : ARRAY[0..3] OF INT; END_TYPE
TYPE MyInt : INT; END_TYPE
FUNCTION Add2 : INT
VAR_INPUT a : INT; b : INT := INT#2; END_VAR
Add2 := a + b;
END_FUNCTION
FUNCTION_BLOCK Counter
VAR_INPUT enable : BOOL; END_VAR
VAR_OUTPUT count : INT; END_VAR
VAR t : TON; END_VAR
IF enable THEN count := count + INT#1; END_IF;
t(IN := enable, PT := T#5ms);
END_FUNCTION_BLOCK
PROGRAM Main
VAR
  c : Counter; p : Point; a : Arr; col : Color := Color#Green; s : Small := 3; m : MyInt;
  r : REAL := 1.5; lr : LREAL := 2.5; str : STRING := 'hello'; ws : WSTRING := "wide";
  i : INT; t1 : TIME := T#1s; d : DATE := D#2024-01-02; b : BYTE := 16#FF; w : WORD;
  din AT %IX0.0 : BOOL; dout AT %QX0.1 : BOOL; mw AT %MW2 : WORD;
END_VAR
c(enable := din);
p.x := Add2(a := c.count);
FOR i := 0 TO 3 DO a[i] := i * INT#2; END_FOR;
CASE i OF 1: m := 1; 2..3: m := 2; ELSE m := 0; END_CASE;
dout := c.count > INT#3;
mw := INT_TO_WORD(c.count);
END_PROGRAM
PROGRAM Second
VAR k : DINT; END_VAR
k := k + 1;
WHILE k > 100 DO k := k - 100; END_WHILE;
END_PROGRAM
CONFIGURATION C
VAR_GLOBAL trigger : BOOL := FALSE; END_VAR
VAR_GLOBAL RETAIN g_count : INT := INT#7; END_VAR
RESOURCE R ON CPU
TASK Fast (INTERVAL := T#10ms, PRIORITY := 0);
TASK Ev (SINGLE := trigger, PRIORITY := 1);
PROGRAM M WITH Fast : Main;
PROGRAM S WITH Ev : Second;
END_RESOURCE
END_CONFIGURATION
"#,
    ),
    (
        "minimal",
        "PROGRAM P\nVAR x : INT; END_VAR\nx := x + INT#1;\nEND_PROGRAM\n",
    ),
    (
        "oop",
        r#"
INTERFACE IShape
METHOD Area : REAL END_METHOD
END_INTERFACE
CLASS Base
VAR PUBLIC v : INT; END_VAR
METHOD PUBLIC GetV : INT
GetV := v;
END_METHOD
END_CLASS
CLASS Derived EXTENDS Base IMPLEMENTS IShape
METHOD PUBLIC Area : REAL
Area := 2.0;
END_METHOD
END_CLASS
FUNCTION_BLOCK FbWithMethod
VAR n : DINT; END_VAR
METHOD PUBLIC Inc : DINT
n := n + 1;
Inc := n;
END_METHOD
END_FUNCTION_BLOCK
PROGRAM P
VAR d : Derived; f : FbWithMethod; r : REAL; k : DINT; rp : REF_TO INT; target : INT; END_VAR
r := d.Area();
k := f.Inc();
rp := REF(target);
IF rp <> NULL THEN rp^ := INT#5; END_IF;
END_PROGRAM
"#,
    ),
    (
        "globals-arrays",
        r#"
TYPE Rec : STRUCT a : ARRAY[1..2, 0..1] OF DINT; f : LREAL; e : BOOL; END_STRUCT END_TYPE
PROGRAM P
VAR recs : ARRAY[0..2] OF Rec; one : Rec; grid : ARRAY[1..2, 0..1] OF DINT; j : INT; sum : DINT; vec : ARRAY[1..3] OF INT; neg : ARRAY[-2..2] OF INT; END_VAR
VAR_EXTERNAL gx : DINT; ga : ARRAY[1..3] OF INT; END_VAR
vec[2] := INT#7;
neg[-1] := INT#3;
ga[3] := INT#9;
REPEAT
  j := j + INT#1;
  grid[1, 0] := gx;
  one.f := LREAL#2.0;
UNTIL j >= INT#3 END_REPEAT;
sum := gx + DINT#1;
END_PROGRAM
CONFIGURATION C
VAR_GLOBAL gx : DINT := 4; gy AT %QD4 : DWORD; ga : ARRAY[1..3] OF INT; END_VAR
TASK T1 (INTERVAL := T#1ms, PRIORITY := 3);
PROGRAM I1 WITH T1 : P;
END_CONFIGURATION
"#,
    ),
];

fn fix_crc(b: &mut [u8]) {
    if b.len() < 24 {
        return;
    }
    let off = u32::from_le_bytes([b[16], b[17], b[18], b[19]]) as usize;
    if off <= b.len() {
        let c = crc32fast::hash(&b[off..]);
        b[20..24].copy_from_slice(&c.to_le_bytes());
    }
}

fn clear_crc_flag(b: &mut [u8]) {
    if b.len() >= 12 {
        b[8] &= !1;
    }
}

struct Outcome {
    apply_skipped: bool,
    decoded: bool,
    validated: bool,
    applied_ok: bool,
}

/// Stage 1 (measured): decode -> validate -> metadata -> re-encode round trip, under catch on a 2 MiB stack.
/// Returns (outcome, apply?) where apply? says whether stage 2 should run.
fn stage1(bytes: Vec<u8>) -> Result<(Outcome, bool), String> {
    on_stack(STACK, move || {
        catch(move || {
            let mut o = Outcome { apply_skipped: false, decoded: false, validated: false, applied_ok: false };
            let Ok(m) = BytecodeModule::decode(&bytes) else { return Ok((o, false)) };
            o.decoded = true;
            let v = m.validate();
            let meta = m.metadata();
            // decode(encode(m)) == m whenever encode accepts the module
            if let Ok(enc) = m.encode() {
                match BytecodeModule::decode(&enc) {
                    Ok(m2) if m2 == m => {}
                    Ok(_) => return Err("RT|decode(encode(m)) != m".to_string()),
                    Err(e) => return Err(format!("RT|encode(m) does not decode: {e}")),
                }
            }
            if v.is_ok() {
                o.validated = true;
                // A container may legitimately declare a process image of up to 3 x 4 GiB; applying it
                // allocates exactly that.  That is not what the O(|b|) clause is about, and it would
                // exhaust the machine, so apply is only exercised for images <= 64 MiB per area.
                let too_big = meta.as_ref().map(|md| md.resources.iter().any(|r| r.process_image.inputs.max(r.process_image.outputs).max(r.process_image.memory) > (64 << 20))).unwrap_or(false);
                if too_big {
                    o.apply_skipped = true;
                    return Ok((o, false));
                }
                return Ok((o, true));
            }
            Ok((o, false))
        })
        .and_then(|r| r)
    })
}

/// Stage 2 (not under the O(|b|) budget): a validated container is applied to a runtime built from the seed.
fn stage2(bytes: Vec<u8>, seed_src: &'static str) -> Result<bool, String> {
    on_stack(STACK, move || {
        catch(move || {
            let mut rt = TestHarness::from_source(seed_src).map_err(|e| format!("SEED|{e}"))?.into_runtime();
            Ok(rt.apply_bytecode_bytes(&bytes, None).is_ok())
        })
        .and_then(|r| r)
    })
}

fn one(sh: &mut Shard, class: &str, seed_name: &str, seed_src: &'static str, label: String, bytes: Vec<u8>) {
    let case = if bytes.len() <= 6000 {
        json!({"seed": seed_name, "class": class, "label": label, "hex": bytes.iter().map(|b| format!("{b:02x}")).collect::<String>()})
    } else {
        json!({"seed": seed_name, "class": class, "label": label, "len": bytes.len()})
    };
    if !sh.begin(&format!("{class}"), &case) {
        return;
    }
    let n = bytes.len();
    let key = fnv_bytes(&bytes);
    let budget = 64 * n + (1 << 20);
    let b2 = bytes.clone();
    let (res, peak, largest) = measured(ALLOC_CAP, || stage1(b2));
    let res = match res {
        Ok((mut o, true)) => match stage2(bytes, seed_src) {
            Ok(ok) => {
                o.applied_ok = ok;
                Ok(o)
            }
            Err(p) => Err(if p.starts_with("SEED|") { p } else { format!("APPLY|{p}") }),
        },
        Ok((o, false)) => Ok(o),
        Err(p) => Err(p),
    };
    sh.max("peak_bytes", peak as u64);
    match res {
        Err(p) if p.starts_with("RT|") => sh.violation(format!("roundtrip|{class}"), p, case.clone()),
        Err(p) if p.starts_with("SEED|") => sh.inconclusive(p),
        Err(p) if p.starts_with("APPLY|") => sh.violation(format!("apply-panic|{}", panic_sig(&p[6..])), format!("validated container panics apply_bytecode_bytes: {p} [{label}]"), case.clone()),
        Err(p) => sh.violation(format!("panic|{}", panic_sig(&p)), format!("{p} [{label}]"), case.clone()),
        Ok(o) => {
            if peak > budget {
                sh.violation(format!("memory|{class}"), format!("peak {peak} B (largest request {largest} B) for {n} B input, budget {budget} [{label}]"), case.clone());
            }
            sh.count("inputs", 1);
            if o.decoded {
                sh.count("decoded_ok", 1);
                sh.nontrivial(&key);
            }
            if o.validated {
                sh.count("validated_ok", 1);
                sh.count(if o.apply_skipped { "apply_skipped_image_over_64MiB" } else if o.applied_ok { "applied_ok" } else { "applied_err" }, 1);
            }
        }
    }
    sh.end();
}

fn hostile_u32(section_len: u32) -> [u32; 8] {
    [0, 1, 0x7fff_ffff, 0x8000_0000, 0xffff_ffff, section_len, section_len.wrapping_add(1), 0x0100_0000]
}

fn structure_mutants(m: &BytecodeModule, rng: &mut Rng) -> Vec<(String, BytecodeModule)> {
    let mut out = Vec::new();
    let ntypes = match m.section(SectionId::TypeTable) {
        Some(SectionData::TypeTable(t)) => t.entries.len() as u32,
        _ => 0,
    };
    // type-graph cycles with a constant of that type
    let cyc: Vec<(&str, Box<dyn Fn(u32) -> TypeData>)> = vec![
        ("alias-self", Box::new(|me| TypeData::Alias { target_type_id: me })),
        ("subrange-self", Box::new(|me| TypeData::Subrange { base_type_id: me, lower: 0, upper: 1 })),
        ("array-self", Box::new(|me| TypeData::Array { elem_type_id: me, dims: vec![(0, 1)] })),
        ("struct-self", Box::new(|me| TypeData::Struct { fields: vec![Field { name_idx: 0, type_id: me }] })),
        ("enum-self", Box::new(|me| TypeData::Enum { base_type_id: me, variants: vec![EnumVariant { name_idx: 0, value: 0 }] })),
        ("ref-self", Box::new(|me| TypeData::Reference { target_type_id: me })),
        ("union-self", Box::new(|me| TypeData::Union { fields: vec![Field { name_idx: 0, type_id: me }] })),
    ];
    for (name, mk) in &cyc {
        let mut m2 = m.clone();
        let me = ntypes;
        if let Some(SectionData::TypeTable(t)) = m2.section_mut(SectionId::TypeTable) {
            let kind = match mk(me) {
                TypeData::Alias { .. } => TypeKind::Alias,
                TypeData::Subrange { .. } => TypeKind::Subrange,
                TypeData::Array { .. } => TypeKind::Array,
                TypeData::Struct { .. } => TypeKind::Struct,
                TypeData::Enum { .. } => TypeKind::Enum,
                TypeData::Reference { .. } => TypeKind::Reference,
                _ => TypeKind::Union,
            };
            t.entries.push(TypeEntry { kind, name_idx: None, data: mk(me) });
            t.offsets.push(0);
        }
        if let Some(SectionData::ConstPool(c)) = m2.section_mut(SectionId::ConstPool) {
            c.entries.push(ConstEntry { type_id: me, payload: vec![0; 8] });
        }
        out.push((format!("type-cycle:{name}"), m2));
        // 2-cycle
        let mut m3 = m.clone();
        if let Some(SectionData::TypeTable(t)) = m3.section_mut(SectionId::TypeTable) {
            t.entries.push(TypeEntry { kind: TypeKind::Alias, name_idx: None, data: TypeData::Alias { target_type_id: me + 1 } });
            let d = mk(me);
            let kind = match d {
                TypeData::Alias { .. } => TypeKind::Alias,
                TypeData::Subrange { .. } => TypeKind::Subrange,
                TypeData::Array { .. } => TypeKind::Array,
                TypeData::Struct { .. } => TypeKind::Struct,
                TypeData::Enum { .. } => TypeKind::Enum,
                TypeData::Reference { .. } => TypeKind::Reference,
                _ => TypeKind::Union,
            };
            t.entries.push(TypeEntry { kind, name_idx: None, data: d });
            t.offsets.push(0);
            t.offsets.push(0);
        }
        if let Some(SectionData::ConstPool(c)) = m3.section_mut(SectionId::ConstPool) {
            c.entries.push(ConstEntry { type_id: me, payload: vec![0; 8] });
        }
        out.push((format!("type-2cycle:{name}"), m3));
    }
    // dangling / extreme indices everywhere (random field, several per call)
    let extremes = [u32::MAX, 0x7fff_ffff, 0x8000_0000, ntypes, ntypes + 1, 1 << 24];
    for k in 0..24 {
        let mut m2 = m.clone();
        let x = *rng.pick(&extremes);
        let mut label = String::new();
        let nsec = m2.sections.len();
        let s = &mut m2.sections[rng.usize(nsec)];
        match &mut s.data {
            SectionData::TypeTable(t) if !t.entries.is_empty() => {
                let i = rng.usize(t.entries.len());
                match &mut t.entries[i].data {
                    TypeData::Array { elem_type_id, dims } => {
                        if rng.bool() {
                            *elem_type_id = x;
                        } else {
                            *dims = vec![(i64::MIN, i64::MAX), (i64::MAX, i64::MIN)];
                        }
                    }
                    TypeData::Struct { fields } | TypeData::Union { fields } => {
                        if let Some(f) = fields.first_mut() {
                            f.type_id = x;
                            f.name_idx = x;
                        }
                    }
                    TypeData::Enum { base_type_id, .. } => *base_type_id = x,
                    TypeData::Alias { target_type_id } | TypeData::Reference { target_type_id } => *target_type_id = x,
                    TypeData::Subrange { base_type_id, lower, upper } => {
                        *base_type_id = x;
                        *lower = i64::MAX;
                        *upper = i64::MIN;
                    }
                    TypeData::Pou { pou_id } => *pou_id = x,
                    TypeData::Primitive { prim_id, max_length } => {
                        *prim_id = x as u16;
                        *max_length = 0xffff;
                    }
                    TypeData::Interface { methods } => {
                        if let Some(mm) = methods.first_mut() {
                            mm.slot = x;
                        }
                    }
                }
                t.entries[i].name_idx = if rng.bool() { Some(x) } else { t.entries[i].name_idx };
                label = format!("type-entry[{i}] index {x:#x}");
            }
            SectionData::ConstPool(c) if !c.entries.is_empty() => {
                let i = rng.usize(c.entries.len());
                match rng.below(3) {
                    0 => c.entries[i].type_id = x,
                    1 => c.entries[i].payload.clear(),
                    _ => c.entries[i].payload = vec![0xff; 1 + rng.usize(40)],
                }
                label = format!("const[{i}] {x:#x}");
            }
            SectionData::RefTable(r) if !r.entries.is_empty() => {
                let i = rng.usize(r.entries.len());
                match rng.below(4) {
                    0 => r.entries[i].owner_id = x,
                    1 => r.entries[i].offset = x,
                    2 => r.entries[i].segments.push(RefSegment::Field { name_idx: x }),
                    _ => r.entries[i].segments.push(RefSegment::Index(vec![i64::MIN, i64::MAX])),
                }
                label = format!("ref[{i}] {x:#x}");
            }
            SectionData::PouIndex(p) if !p.entries.is_empty() => {
                let i = rng.usize(p.entries.len());
                let e = &mut p.entries[i];
                match rng.below(8) {
                    0 => e.code_offset = x,
                    1 => e.code_length = x,
                    2 => e.local_ref_start = x,
                    3 => e.local_ref_count = x,
                    4 => e.return_type_id = Some(x),
                    5 => e.owner_pou_id = Some(x),
                    6 => e.name_idx = x,
                    _ => {
                        if let Some(pp) = e.params.first_mut() {
                            pp.type_id = x;
                            pp.default_const_idx = Some(x);
                        } else {
                            e.id = x;
                        }
                    }
                }
                label = format!("pou[{i}] {x:#x}");
            }
            SectionData::PouBodies(code) if !code.is_empty() => {
                // extreme jump offsets / operands: overwrite 4 bytes somewhere with extremes
                let at = rng.usize(code.len());
                let v: i32 = *rng.pick(&[i32::MIN, i32::MAX, -1, i32::MIN + 1, 0x7fff_fff0]);
                for (j, b) in v.to_le_bytes().iter().enumerate() {
                    if at + j < code.len() {
                        code[at + j] = *b;
                    }
                }
                label = format!("code[{at}] {v:#x}");
            }
            SectionData::ResourceMeta(rm) if !rm.resources.is_empty() => {
                let r = &mut rm.resources[0];
                match rng.below(7) {
                    0 => r.inputs_size = x,
                    1 => r.outputs_size = x,
                    2 => r.name_idx = x,
                    3 => {
                        if let Some(t) = r.tasks.first_mut() {
                            t.interval_nanos = *rng.pick(&[i64::MIN, -1, i64::MAX]);
                        }
                    }
                    4 => {
                        if let Some(t) = r.tasks.first_mut() {
                            t.program_name_idx.push(x);
                            t.single_name_idx = Some(x);
                        }
                    }
                    5 => {
                        if let Some(t) = r.tasks.first_mut() {
                            t.fb_ref_idx.push(x);
                        }
                    }
                    _ => {
                        // task naming an unknown program: point at some other valid string
                        if let Some(t) = r.tasks.first_mut() {
                            t.program_name_idx = vec![0, 1, 2];
                            t.priority = x;
                        }
                    }
                }
                label = format!("resource {x:#x}");
            }
            SectionData::IoMap(io) if !io.bindings.is_empty() => {
                let i = rng.usize(io.bindings.len());
                match rng.below(3) {
                    0 => io.bindings[i].address_str_idx = x,
                    1 => io.bindings[i].ref_idx = x,
                    _ => io.bindings[i].type_id = Some(x),
                }
                label = format!("io[{i}] {x:#x}");
            }
            SectionData::DebugMap(d) if !d.entries.is_empty() => {
                let i = rng.usize(d.entries.len());
                d.entries[i].pou_id = x;
                d.entries[i].file_idx = x;
                d.entries[i].code_offset = x;
                label = format!("debug[{i}] {x:#x}");
            }
            SectionData::VarMeta(v) if !v.entries.is_empty() => {
                let i = rng.usize(v.entries.len());
                v.entries[i].ref_idx = x;
                v.entries[i].init_const_idx = Some(x);
                v.entries[i].type_id = x;
                label = format!("varmeta[{i}] {x:#x}");
            }
            SectionData::RetainInit(v) if !v.entries.is_empty() => {
                v.entries[0].ref_idx = x;
                v.entries[0].const_idx = x;
                label = format!("retaininit {x:#x}");
            }
            SectionData::StringTable(t) | SectionData::DebugStringTable(t) => {
                if rng.bool() {
                    t.entries.clear();
                } else {
                    t.entries.truncate(1);
                }
                label = "string table shrunk".into();
            }
            _ => {}
        }
        if !label.is_empty() {
            out.push((format!("index:{k}:{label}"), m2));
        }
    }
    // duplicate / missing sections
    for i in 0..m.sections.len() {
        let mut m2 = m.clone();
        m2.sections.remove(i);
        out.push((format!("missing-section:{:#x}", m.sections[i].id), m2));
        let mut m3 = m.clone();
        let dup = m3.sections[i].clone();
        m3.sections.push(dup);
        out.push((format!("duplicate-section:{:#x}", m.sections[i].id), m3));
    }
    // a task's FB list naming a reference into an array (the compiler emits those for literal-index accesses) whose index
    // values sit at the extremes: validate only bounds-checks table indices, so these containers validate and are applied
    let index_refs: Vec<RefEntry> = match m.section(SectionId::RefTable) {
        Some(SectionData::RefTable(t)) => t.entries.iter().filter(|e| e.segments.iter().any(|s| matches!(s, RefSegment::Index(_)))).cloned().collect(),
        _ => Vec::new(),
    };
    for (ri, base) in index_refs.iter().enumerate().take(12) {
        for (xi, x) in [i64::MIN, i64::MIN + 1, i64::MIN + 2, i64::MAX, i64::MAX - 1, -1, 1 << 62, -(1 << 62)].iter().enumerate() {
            for all in [true, false] {
                let mut e = base.clone();
                for seg in e.segments.iter_mut() {
                    if let RefSegment::Index(v) = seg {
                        for (k, slot) in v.iter_mut().enumerate() {
                            if all || k == 0 {
                                *slot = *x;
                            }
                        }
                    }
                }
                let mut m2 = m.clone();
                let mut new_ref = None;
                if let Some(SectionData::RefTable(t)) = m2.section_mut(SectionId::RefTable) {
                    t.entries.push(e);
                    new_ref = Some(t.entries.len() as u32 - 1);
                }
                if let (Some(idx), Some(SectionData::ResourceMeta(r))) = (new_ref, m2.section_mut(SectionId::ResourceMeta)) {
                    if let Some(task) = r.resources.iter_mut().flat_map(|res| res.tasks.iter_mut()).next() {
                        task.fb_ref_idx = vec![idx];
                        out.push((format!("task-fb-ref:extreme-index:{ri}:{xi}:{all}"), m2));
                    }
                }
            }
        }
    }
    // amplification: small tables that reference each other many times - one reference with a long index segment,
    // named again and again by a task's FB list (every index is in bounds, so the container validates)
    for (n, reps) in [(200usize, 200usize), (1500, 1500)] {
        let mut m2 = m.clone();
        let mut new_ref = None;
        if let Some(SectionData::RefTable(t)) = m2.section_mut(SectionId::RefTable) {
            t.entries.push(RefEntry { location: RefLocation::Global, owner_id: 0, offset: 0, segments: vec![RefSegment::Index(vec![0; n])] });
            new_ref = Some(t.entries.len() as u32 - 1);
        }
        if let (Some(idx), Some(SectionData::ResourceMeta(r))) = (new_ref, m2.section_mut(SectionId::ResourceMeta)) {
            if let Some(task) = r.resources.iter_mut().flat_map(|res| res.tasks.iter_mut()).next() {
                task.fb_ref_idx = vec![idx; reps];
                out.push((format!("amplify:ref-index-{n}-x-fb-list-{reps}"), m2));
            }
        }
    }
    out
}

pub fn run(sh: &mut Shard) {
    if let Some(path) = sh.args.replay.clone() {
        let v: serde_json::Value = serde_json::from_str(&std::fs::read_to_string(path).expect("replay")).expect("json");
        let r = if v.get("replay").is_some() { v["replay"].clone() } else { v };
        let r = if r.get("case").is_some() { r["case"].clone() } else { r };
        let seed_name = r["seed"].as_str().unwrap_or("minimal").to_string();
        let (_, src) = SEEDS.iter().find(|(n, _)| *n == seed_name).copied().unwrap_or(SEEDS[1]);
        if let Some(hex) = r["hex"].as_str() {
            let bytes: Vec<u8> = (0..hex.len() / 2).map(|i| u8::from_str_radix(&hex[2 * i..2 * i + 2], 16).unwrap()).collect();
            one(sh, r["class"].as_str().unwrap_or("replay"), &seed_name, src, "replay".into(), bytes);
        } else {
            sh.inconclusive("replay case too large to store; rerun the check with the same seed");
        }
        return;
    }
    let thorough = sh.args.thorough();
    let rng = Rng::new(sh.args.shard_seed());
    let (shard, nshards) = (sh.args.shard as usize, sh.args.nshards as usize);
    let mut containers: Vec<(&'static str, &'static str, Vec<u8>)> = Vec::new();
    for (name, src) in SEEDS {
        match catch(|| bytecode_bytes_from_source(src)) {
            Ok(Ok(b)) => containers.push((name, src, b)),
            Ok(Err(e)) => sh.inconclusive(format!("seed program {name} does not compile: {e}")),
            Err(p) => sh.violation(format!("panic|compile|{}", panic_sig(&p)), p, json!({"seed": name})),
        }
    }
    // O1: emitted containers validate, round-trip bit-exactly, and apply
    for (name, src, b) in &containers {
        let case = json!({"seed": name, "class": "emitted"});
        if !sh.begin("emitted", &case) {
            continue;
        }
        let r = catch(|| {
            let m = BytecodeModule::decode(b).map_err(|e| format!("emitted container does not decode: {e}"))?;
            m.validate().map_err(|e| format!("emitted container does not validate: {e}"))?;
            m.metadata().map_err(|e| format!("emitted container has no metadata: {e}"))?;
            let enc = m.encode().map_err(|e| format!("re-encode failed: {e}"))?;
            if &enc != b {
                let at = enc.iter().zip(b.iter()).position(|(a, c)| a != c).unwrap_or(enc.len().min(b.len()));
                return Err(format!("encode(decode(e)) != e (len {} vs {}, first diff at {at})", enc.len(), b.len()));
            }
            let mut rt = TestHarness::from_source(src).map_err(|e| e.to_string())?.into_runtime();
            rt.apply_bytecode_bytes(b, None).map_err(|e| format!("emitted container cannot be applied: {e}"))?;
            Ok::<_, String>(())
        });
        match r {
            Err(p) => sh.violation(format!("panic|emitted|{}", panic_sig(&p)), p, case.clone()),
            Ok(Err(e)) => sh.violation(format!("emitted|{}", e.split(':').next().unwrap_or("").split('(').next().unwrap_or("")), e, case.clone()),
            Ok(Ok(())) => sh.count("emitted_containers_ok", 1),
        }
        sh.end();
    }
    // O1 over a program corpus: whatever the harness accepts must be emitted, and the emitted container must validate,
    // round-trip bit-exactly and apply.  Shapes: the first statement of a POU is a loop / branch (back edges to offset 0),
    // the repository's own .st files, and generated programs.
    {
        let mut progs: Vec<(String, String)> = Vec::new();
        for (k, first) in ["WHILE k < DINT#3 DO\n  k := k + DINT#1;\nEND_WHILE;", "REPEAT\n  k := k + DINT#1;\nUNTIL k > DINT#3\nEND_REPEAT;", "FOR k := DINT#0 TO DINT#3 DO\n  n := n + DINT#1;\nEND_FOR;", "IF k = DINT#0 THEN\n  n := DINT#1;\nELSE\n  n := DINT#2;\nEND_IF;", "CASE k OF\n  0: n := DINT#1;\n  1..3: n := DINT#2;\nELSE\n  n := DINT#3;\nEND_CASE;"].iter().enumerate() {
            progs.push((format!("first-statement-{k}-program"), format!("PROGRAM Main\nVAR k : DINT; n : DINT; END_VAR\n{first}\nn := n + DINT#1;\nEND_PROGRAM\n")));
            progs.push((format!("first-statement-{k}-fb"), format!("FUNCTION_BLOCK B\nVAR k : DINT; n : DINT; END_VAR\n{first}\nEND_FUNCTION_BLOCK\nPROGRAM Main\nVAR b : B; END_VAR\nb();\nEND_PROGRAM\n")));
            progs.push((format!("first-statement-{k}-function"), format!("FUNCTION F : DINT\nVAR k : DINT; n : DINT; END_VAR\n{first}\nF := n;\nEND_FUNCTION\nPROGRAM Main\nVAR r : DINT; END_VAR\nr := F();\nEND_PROGRAM\n")));
        }
        // the *last* statement of a POU is a loop / branch with 1-3 body statements whose condition has one of the shapes the
        // encoder treats differently (plain comparison, array element with a variable index, struct field, FB output,
        // function call, string comparison): code after a construct the encoder has to give up on and roll back
        for (ci, cond) in ["k > DINT#3", "arr[i] = DINT#0", "arr[i] > arr[k]", "st.f > DINT#3", "fbi.q > DINT#3", "F2(k) > DINT#3", "s = 'x'", "NOT flag", "arr[F2(i)] = DINT#0"].iter().enumerate() {
            for nbody in 1..=3usize {
                let body: String = ["  k := k + DINT#1;\n", "  i := (i + DINT#1) MOD DINT#4;\n", "  arr[i] := k;\n"][..nbody].concat();
                for (si, stmt) in [
                    format!("REPEAT\n{body}UNTIL {cond} OR k > DINT#8\nEND_REPEAT;"),
                    format!("REPEAT\n{body}UNTIL {cond}\nEND_REPEAT;"),
                    format!("WHILE {cond} AND k < DINT#8 DO\n{body}END_WHILE;"),
                    format!("WHILE {cond} DO\n{body}  EXIT;\nEND_WHILE;"),
                    format!("IF {cond} THEN\n{body}ELSE\n{body}END_IF;"),
                    format!("IF flag THEN\n{body}ELSIF {cond} THEN\n{body}END_IF;"),
                    format!("FOR n := DINT#0 TO DINT#2 DO\n  IF {cond} THEN\n  {body}  END_IF;\nEND_FOR;"),
                ]
                .iter()
                .enumerate()
                {
                    let decl = "VAR k : DINT; n : DINT; i : DINT; arr : ARRAY[0..3] OF DINT; st : S1; fbi : B1; s : STRING; flag : BOOL; END_VAR";
                    let types = "TYPE S1 : STRUCT f : DINT; END_STRUCT END_TYPE\nFUNCTION_BLOCK B1\nVAR_OUTPUT q : DINT; END_VAR\nq := q + DINT#1;\nEND_FUNCTION_BLOCK\nFUNCTION F2 : DINT\nVAR_INPUT a : DINT; END_VAR\nF2 := a MOD DINT#4;\nEND_FUNCTION\n";
                    progs.push((format!("last-statement-c{ci}-b{nbody}-s{si}-program"), format!("{types}PROGRAM Main\n{decl}\nn := n + DINT#1;\n{stmt}\nEND_PROGRAM\n")));
                    if nbody == 2 {
                        progs.push((format!("last-statement-c{ci}-b{nbody}-s{si}-fb"), format!("{types}FUNCTION_BLOCK W\n{decl}\nn := n + DINT#1;\n{stmt}\nEND_FUNCTION_BLOCK\nPROGRAM Main\nVAR w : W; END_VAR\nw();\nEND_PROGRAM\n")));
                        if ci != 4 {
                            // no FB instances in functions
                            let fdecl = decl.replace(" fbi : B1;", "");
                            progs.push((format!("last-statement-c{ci}-b{nbody}-s{si}-function"), format!("{types}FUNCTION G : DINT\n{fdecl}\nG := n;\n{stmt}\nEND_FUNCTION\nPROGRAM Main\nVAR r : DINT; END_VAR\nr := G();\nEND_PROGRAM\n")));
                        }
                    }
                }
            }
        }
        for (path, text) in crate::engines::c12::corpus_files() {
            if text.len() < 20_000 {
                progs.push((path, text));
            }
        }
        let ngen = if thorough { 4000 } else { 400 };
        for g in 0..ngen {
            let mut r = rng.fork(1_000_000 + g);
            let ext = r.bool();
            let p = crate::gen::generate(&mut r, ext, &[]);
            progs.push((format!("gen:{g}"), crate::gen::program_text(&p)));
        }
        for (i, (label, text)) in progs.iter().enumerate() {
            if i % nshards != shard || !sh.time_left() {
                continue;
            }
            let case = json!({"class": "emitted-corpus", "label": label, "text": if text.len() < 4000 { text.as_str() } else { "" }});
            if !sh.begin("emitted-corpus", &case) {
                continue;
            }
            let t2 = text.clone();
            let r = catch(move || -> Result<bool, String> {
                let Ok(h) = TestHarness::from_source(&t2) else { return Ok(false) };
                let b = bytecode_bytes_from_source(&t2).map_err(|e| format!("accepted program is not emitted: {e}"))?;
                let m = BytecodeModule::decode(&b).map_err(|e| format!("emitted container does not decode: {e}"))?;
                m.validate().map_err(|e| format!("emitted container does not validate: {e}"))?;
                let enc = m.encode().map_err(|e| format!("re-encode failed: {e}"))?;
                if enc != b {
                    return Err("encode(decode(e)) != e".to_string());
                }
                let mut rt = h.into_runtime();
                rt.apply_bytecode_bytes(&b, None).map_err(|e| format!("emitted container cannot be applied: {e}"))?;
                Ok(true)
            });
            match r {
                Err(p) => sh.violation(format!("panic|emitted-corpus|{}", panic_sig(&p)), format!("{p} [{label}]"), case.clone()),
                Ok(Err(e)) => {
                    let cls: String = e.split(':').take(2).collect::<Vec<_>>().join(":").chars().filter(|c| !c.is_ascii_digit()).take(90).collect();
                    sh.violation(format!("emitted-corpus|{cls}"), format!("{e} [{label}]"), case.clone());
                }
                Ok(Ok(true)) => {
                    sh.count("emitted_corpus_programs_ok", 1);
                    sh.nontrivial(&("emitted-corpus", label));
                }
                Ok(Ok(false)) => sh.count("emitted_corpus_programs_rejected_by_harness", 1),
            }
            sh.end();
        }
    }
    // systematic sweeps are split across shards by offset
    for (name, src, b) in &containers {
        let small = b.len() <= 3000;
        if !(small || thorough) {
            continue;
        }
        let n = b.len();
        // (i) every 4-byte aligned offset x hostile u32, CRC recomputed
        for off in (0..n.saturating_sub(3)).step_by(4) {
            if (off / 4) % nshards != shard {
                continue;
            }
            for h in hostile_u32(n as u32) {
                let mut m = b.clone();
                m[off..off + 4].copy_from_slice(&h.to_le_bytes());
                fix_crc(&mut m);
                one(sh, "u32-sweep", name, src, format!("u32 {h:#x} at {off}"), m);
            }
        }
        sh.count("u32_sweep_offsets", (n / 4 / nshards) as u64);
        // (iii) truncation at every offset, CRC flag cleared so the gate is passed
        let step = if thorough { 1 } else { 3 };
        for k in (0..n).step_by(step) {
            if k % nshards != shard {
                continue;
            }
            let mut m = b[..k].to_vec();
            clear_crc_flag(&mut m);
            one(sh, "truncate", name, src, format!("truncate {k}"), m);
        }
    }
    // (ii) structure-aware
    for (name, src, b) in &containers {
        let Ok(m) = BytecodeModule::decode(b) else { continue };
        let muts = structure_mutants(&m, &mut rng.fork(17));
        for (i, (label, m2)) in muts.into_iter().enumerate() {
            if i % nshards != shard {
                continue;
            }
            match catch(|| m2.encode()) {
                Ok(Ok(bytes)) => {
                    let class = label.split(':').next().unwrap_or("struct").to_string();
                    one(sh, &format!("struct|{class}"), name, src, label, bytes);
                }
                Ok(Err(_)) => sh.count("struct_mutants_rejected_by_encoder", 1),
                Err(p) => sh.violation(format!("panic|encode|{}", panic_sig(&p)), format!("{p} [{label}]"), json!({"seed": name, "label": label})),
            }
        }
    }
    // random part
    let mut i = 0u64;
    while sh.time_left() && !containers.is_empty() {
        i += 1;
        let mut r = rng.fork(i);
        let (name, src, b) = &containers[r.usize(containers.len())];
        match r.below(5) {
            0 => {
                // multi-point u32 patch
                let mut m = b.clone();
                for _ in 0..1 + r.usize(3) {
                    let off = r.usize(m.len() / 4) * 4;
                    let h = *r.pick(&hostile_u32(m.len() as u32));
                    if off + 4 <= m.len() {
                        m[off..off + 4].copy_from_slice(&h.to_le_bytes());
                    }
                }
                fix_crc(&mut m);
                one(sh, "rand-u32", name, src, "multi u32".into(), m);
            }
            1 => {
                // byte flips
                let mut m = b.clone();
                for _ in 0..1 + r.usize(6) {
                    let off = 24 + r.usize(m.len() - 24);
                    m[off] = r.next() as u8;
                }
                fix_crc(&mut m);
                one(sh, "rand-bytes", name, src, "byte flips".into(), m);
            }
            2 => {
                // valid header + random body
                let mut m = b[..24].to_vec();
                let nsec = r.below(4) as u16;
                m[14..16].copy_from_slice(&nsec.to_le_bytes());
                m[16..20].copy_from_slice(&24u32.to_le_bytes());
                for _ in 0..r.usize(300) {
                    m.push(r.next() as u8);
                }
                // make section entries plausible sometimes
                fix_crc(&mut m);
                one(sh, "rand-body", name, src, "random body".into(), m);
            }
            3 => {
                if let Ok(m) = BytecodeModule::decode(b) {
                    let muts = structure_mutants(&m, &mut r);
                    if !muts.is_empty() {
                        let (label, m2) = muts.into_iter().nth(r.usize(20)).unwrap_or_else(|| ("none".into(), m.clone()));
                        if let Ok(Ok(bytes)) = catch(|| m2.encode()) {
                            let class = label.split(':').next().unwrap_or("struct").to_string();
                            one(sh, &format!("struct|{class}"), name, src, label, bytes);
                        }
                    }
                }
            }
            _ => {
                // splice a window of another container's body
                let (_, _, o) = &containers[r.usize(containers.len())];
                let mut m = b.clone();
                let a = 24 + r.usize(o.len() - 24);
                let l = r.usize(64).min(o.len() - a);
                let at = 24 + r.usize(m.len() - 24);
                for j in 0..l {
                    if at + j < m.len() {
                        m[at + j] = o[a + j];
                    }
                }
                fix_crc(&mut m);
                one(sh, "rand-splice", name, src, "splice".into(), m);
            }
        }
    }
}
