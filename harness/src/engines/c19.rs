//! C19 — web IDE file API stays inside the project; no lost concurrent edit.
//!
//!  A  confinement: every file operation x hostile path string x session kind runs against a
//!     project nested in a sentinel tree (marker files outside, hidden entries and symlinks to the
//!     outside inside).  The whole tree is snapshotted before and after EVERY call, refused ones
//!     included; replies are scanned for outside / hidden marker text.
//!  B  write histories: k sessions x m optimistic writes with unique ids on few files, call/return
//!     events on one logical clock, delays injected at failpoint H3 (between the unlocked disk
//!     read and the state lock); an offline checker orders successes by returned version.

use crate::ctx::{catch, panic_sig, Shard};
use crate::rng::Rng;
use serde_json::{json, Value as J};
use std::collections::BTreeMap;
use std::path::{Path, PathBuf};
use std::sync::atomic::{AtomicU64, Ordering};
use std::sync::{Arc, Mutex};
use trust_runtime::web::ide::{IdeRole, WebIdeState};

const OUT: &str = "OUTSIDE_MARKER_7f3a";
const HID: &str = "HIDDEN_MARKER_9c2e";

fn write(p: &Path, s: &str) {
    if let Some(d) = p.parent() {
        std::fs::create_dir_all(d).expect("mkdir");
    }
    std::fs::write(p, s).expect("write");
}

/// base/{outside.st, sibling/secret.st, project/{main.st, lib/util.st, docs/readme.txt, .hidden/inner.st,
/// .hiddenfile.st, dirlink -> ../sibling, filelink.st -> ../outside.st, loop -> .}}
fn build_tree(base: &Path) -> PathBuf {
    let _ = std::fs::remove_dir_all(base);
    let root = base.join("project");
    write(&base.join("outside.st"), &format!("(* {OUT} a *)\nPROGRAM Outside END_PROGRAM\n"));
    write(&base.join("sibling/secret.st"), &format!("(* {OUT} b *)\nPROGRAM Secret END_PROGRAM\n"));
    write(&base.join("sibling/sub/deep.txt"), &format!("{OUT} c"));
    write(&root.join("main.st"), "PROGRAM Main\nVAR x : INT; END_VAR\nx := x + 1;\nEND_PROGRAM\n");
    write(&root.join("lib/util.st"), "FUNCTION Util : INT\nUtil := 1;\nEND_FUNCTION\n");
    write(&root.join("docs/readme.txt"), "readme\n");
    write(&root.join(".hidden/inner.st"), &format!("(* {HID} a *)\nPROGRAM Hid END_PROGRAM\n"));
    write(&root.join(".hiddenfile.st"), &format!("(* {HID} b *)\n"));
    std::os::unix::fs::symlink("../sibling", root.join("dirlink")).expect("symlink");
    // a sibling whose path has the project root's path as a string prefix (project-backup, project2), reachable through links
    write(&base.join("project-backup/secret.st"), &format!("(* {OUT} d *)\nPROGRAM Backup END_PROGRAM\n"));
    write(&base.join("project-backup/keep/deep.txt"), &format!("{OUT} e"));
    write(&base.join("project2/secret.st"), &format!("(* {OUT} f *)\nPROGRAM Two END_PROGRAM\n"));
    std::os::unix::fs::symlink("../project-backup", root.join("backuplink")).expect("symlink");
    std::os::unix::fs::symlink("../project2", root.join("lib/twolink")).expect("symlink");
    std::os::unix::fs::symlink("../outside.st", root.join("filelink.st")).expect("symlink");
    std::os::unix::fs::symlink(".", root.join("loop")).expect("symlink");
    // a visible name for a hidden directory of the same project
    std::os::unix::fs::symlink(".hidden", root.join("hidlink")).expect("symlink");
    root
}

/// path -> "kind:size:hash:target"; symlinks are NOT followed.
fn snapshot(base: &Path) -> BTreeMap<String, String> {
    let mut out = BTreeMap::new();
    let mut stack = vec![base.to_path_buf()];
    while let Some(d) = stack.pop() {
        let Ok(rd) = std::fs::read_dir(&d) else { continue };
        for e in rd.flatten() {
            let p = e.path();
            let rel = p.strip_prefix(base).unwrap_or(&p).to_string_lossy().to_string();
            let Ok(md) = std::fs::symlink_metadata(&p) else { continue };
            if md.file_type().is_symlink() {
                out.insert(rel, format!("link:{:?}", std::fs::read_link(&p).ok()));
            } else if md.is_dir() {
                out.insert(format!("{rel}/"), "dir".into());
                stack.push(p);
            } else {
                let data = std::fs::read(&p).unwrap_or_default();
                out.insert(rel, format!("file:{}:{:x}", data.len(), crate::ctx::fnv_bytes(&data)));
            }
        }
    }
    out
}

/// Is `rel` (relative to base; the snapshot never follows links) a location the API may legitimately change?
fn inside_visible_project(rel: &str) -> bool {
    let Some(r) = rel.strip_prefix("project/") else { return false };
    !r.split('/').any(|c| c.starts_with('.'))
}

fn path_strings(rng: &mut Rng) -> Vec<(String, &'static str)> {
    let mut v: Vec<(String, &'static str)> = vec![
        ("main.st".into(), "plain"),
        ("lib/util.st".into(), "plain"),
        ("new/file.st".into(), "plain-new"),
        ("lib/new.st".into(), "plain-new"),
        ("docs".into(), "plain-dir"),
        ("../outside.st".into(), "dotdot"),
        ("lib/../../outside.st".into(), "dotdot"),
        ("lib/../../sibling/secret.st".into(), "dotdot"),
        ("..".into(), "dotdot"),
        ("../sibling/new.st".into(), "dotdot"),
        ("./main.st".into(), "curdir"),
        ("lib/./util.st".into(), "curdir"),
        ("lib//util.st".into(), "double-slash"),
        ("//main.st".into(), "double-slash"),
        ("lib\\util.st".into(), "backslash"),
        ("..\\outside.st".into(), "backslash"),
        ("lib\\..\\..\\outside.st".into(), "backslash"),
        (".hidden/inner.st".into(), "hidden"),
        (".hiddenfile.st".into(), "hidden"),
        ("lib/.secret.st".into(), "hidden"),
        (".hidden".into(), "hidden"),
        (".hidden/new.st".into(), "hidden"),
        ("backuplink/secret.st".into(), "via-dir-symlink-prefix-sibling"),
        ("backuplink/new.st".into(), "via-dir-symlink-prefix-sibling"),
        ("backuplink/keep".into(), "via-dir-symlink-prefix-sibling"),
        ("backuplink/keep/deep.txt".into(), "via-dir-symlink-prefix-sibling"),
        ("backuplink".into(), "via-dir-symlink-prefix-sibling"),
        ("lib/twolink/secret.st".into(), "via-dir-symlink-prefix-sibling"),
        ("lib/twolink/made/x.st".into(), "via-dir-symlink-prefix-sibling"),
        ("../project-backup/secret.st".into(), "dotdot"),
        ("../project2/new.st".into(), "dotdot"),
        ("dirlink/secret.st".into(), "via-dir-symlink"),
        ("dirlink/new.st".into(), "via-dir-symlink"),
        ("dirlink".into(), "via-dir-symlink"),
        ("dirlink/sub/deep.txt".into(), "via-dir-symlink"),
        ("dirlink/newdir/x.st".into(), "via-dir-symlink"),
        ("hidlink/inner.st".into(), "via-dir-symlink-to-hidden"),
        ("hidlink/new.st".into(), "via-dir-symlink-to-hidden"),
        ("hidlink".into(), "via-dir-symlink-to-hidden"),
        ("loop/hidlink/inner.st".into(), "via-dir-symlink-to-hidden"),
        ("filelink.st".into(), "via-file-symlink"),
        ("loop/main.st".into(), "via-loop-symlink"),
        ("loop/loop/lib/util.st".into(), "via-loop-symlink"),
        ("loop/dirlink/secret.st".into(), "via-dir-symlink"),
        ("/etc/passwd".into(), "absolute"),
        ("/tmp/c19-abs.st".into(), "absolute"),
        ("main.st\0.txt".into(), "nul"),
        ("lib/\0".into(), "nul"),
        ("m\u{0430}in.st".into(), "unicode-lookalike"),
        ("\u{2025}/outside.st".into(), "unicode-lookalike"),
        ("lib/\u{ff0e}\u{ff0e}/\u{ff0e}\u{ff0e}/outside.st".into(), "unicode-lookalike"),
        ("main.st.".into(), "trailing"),
        ("main.st ".into(), "trailing"),
        (" ../outside.st".into(), "trailing"),
        ("lib/ ".into(), "trailing"),
        ("".into(), "empty"),
        ("   ".into(), "empty"),
        (format!("{}/x.st", "a".repeat(4000)), "very-long"),
        (format!("{}x.st", "d/".repeat(1500)), "very-long"),
        ("~/x.st".into(), "tilde"),
        ("%2e%2e/outside.st".into(), "percent"),
        ("..%2foutside.st".into(), "percent"),
    ];
    // a few random compositions
    let parts = ["..", ".", "lib", "dirlink", "backuplink", "twolink", ".hidden", "loop", "main.st", "", "new", "\\", "sub"];
    for _ in 0..8 {
        let n = 1 + rng.usize(5);
        let s: Vec<&str> = (0..n).map(|_| *rng.pick(&parts)).collect();
        v.push((s.join("/"), "random"));
    }
    v
}

const OPS: [&str; 19] = ["list", "tree", "open", "create-file", "create-dir", "write", "rename-from", "rename-to", "delete", "search", "format", "diagnostics", "symbols", "workspace-symbols", "rename-symbol", "rename-symbol-with-buffer", "definition", "references", "hover"];

struct Sessions {
    editor: String,
    viewer: String,
    expired: String,
    bogus: String,
}

fn make_state(root: &Path) -> (WebIdeState, Sessions, Arc<AtomicU64>) {
    let clock = Arc::new(AtomicU64::new(10_000));
    let c2 = clock.clone();
    let st = WebIdeState::verif_with_clock(Some(root.to_path_buf()), Arc::new(move || c2.load(Ordering::SeqCst)));
    let expired = st.create_session(IdeRole::Editor).expect("session").token;
    clock.store(10_000 + 3600, Ordering::SeqCst); // TTL is 15 minutes
    let editor = st.create_session(IdeRole::Editor).expect("session").token;
    let viewer = st.create_session(IdeRole::Viewer).expect("session").token;
    (st, Sessions { editor, viewer, expired, bogus: "deadbeefdeadbeefdeadbeefdeadbeef".into() }, clock)
}

/// Run one operation; returns (debug rendering of the reply, was it Ok).
fn call(st: &WebIdeState, op: &str, tok: &str, path: &str, write_enabled: bool) -> (String, bool) {
    let r: Result<String, trust_runtime::web::ide::IdeError> = match op {
        "list" => st.list_sources(tok).map(|v| format!("{v:?}")),
        "tree" => st.list_tree(tok).map(|v| format!("{v:?}")),
        "open" => st.open_source(tok, path).map(|v| format!("{v:?}")),
        "create-file" => st.create_entry(tok, path, false, Some("(* created *)\n".into()), write_enabled).map(|v| format!("{v:?}")),
        "create-dir" => st.create_entry(tok, path, true, None, write_enabled).map(|v| format!("{v:?}")),
        "write" => {
            // a well-behaved client opens first; the version of a file it cannot open is guessed as 1
            let ver = st.open_source(tok, path).map(|s| s.version).unwrap_or(1);
            st.apply_source(tok, path, ver, "(* written by c19 *)\n".into(), write_enabled).map(|v| format!("{v:?}"))
        }
        "rename-from" => st.rename_entry(tok, path, "renamed/target.st", write_enabled).map(|v| format!("{v:?}")),
        "rename-to" => st.rename_entry(tok, "lib/util.st", path, write_enabled).map(|v| format!("{v:?}")),
        "delete" => st.delete_entry(tok, path, write_enabled).map(|v| format!("{v:?}")),
        "search" => st.workspace_search(tok, "MARKER", if path.is_empty() { None } else { Some(path) }, None, 50).map(|v| format!("{v:?}")),
        "format" => st.format_source(tok, path, None).map(|v| format!("{v:?}")),
        "diagnostics" => st.diagnostics(tok, path, None).map(|v| format!("{v:?}")),
        "symbols" => st.file_symbols(tok, path, "", 50).map(|v| format!("{v:?}")),
        // symbol-level operations: the position (0, 9) is the POU name in every .st file of the sentinel tree
        "rename-symbol" => st.rename_symbol(tok, path, None, trust_wasm_analysis::Position { line: 0, character: 9 }, "RenamedByC19", write_enabled).map(|v| format!("{v:?}")),
        "rename-symbol-with-buffer" => st.rename_symbol(tok, path, Some("PROGRAM Main\nVAR x : INT; END_VAR\nx := x + 2; (* unsaved buffer *)\nEND_PROGRAM\n".into()), trust_wasm_analysis::Position { line: 0, character: 9 }, "RenamedByC19", write_enabled).map(|v| format!("{v:?}")),
        "definition" => st.definition(tok, path, None, trust_wasm_analysis::Position { line: 0, character: 9 }).map(|v| format!("{v:?}")),
        "references" => st.references(tok, path, None, trust_wasm_analysis::Position { line: 0, character: 9 }, true).map(|v| format!("{v:?}")),
        "hover" => st.hover(tok, path, None, trust_wasm_analysis::Position { line: 0, character: 9 }).map(|v| format!("{v:?}")),
        _ => st.workspace_symbols(tok, "Outside", 50).map(|v| format!("{v:?}")),
    };
    match r {
        Ok(s) => (s, true),
        Err(e) => (format!("ERR {:?}: {e}", e.kind()), false),
    }
}

fn part_a(sh: &mut Shard, rng: &mut Rng, work: &Path) {
    let base = work.join(format!("c19a-{}-{}", sh.args.shard, std::process::id()));
    let mut root = build_tree(&base);
    let (mut st, mut ses, _clock) = make_state(&root);
    let paths = path_strings(rng);
    let (shard, nshards) = (sh.args.shard as usize, sh.args.nshards as usize);
    let mut before = snapshot(&base);
    let mut n = 0usize;
    for (pi, (path, pclass)) in paths.iter().enumerate() {
        for op in OPS {
            for (sname, wen) in [("editor", true), ("viewer", true), ("expired", true), ("bogus", true), ("editor", false)] {
                n += 1;
                if n % nshards != shard {
                    continue;
                }
                // path-less operations only need one path
                if matches!(op, "list" | "tree" | "workspace-symbols") && pi > 0 {
                    continue;
                }
                let tok = match sname {
                    "editor" => ses.editor.clone(),
                    "viewer" => ses.viewer.clone(),
                    "expired" => ses.expired.clone(),
                    _ => ses.bogus.clone(),
                };
                let case = json!({"part": "A", "op": op, "path": path, "path_class": pclass, "session": sname, "write_enabled": wen});
                if !sh.begin(&format!("A|{op}|{pclass}"), &case) {
                    continue;
                }
                let may_mutate = sname == "editor" && wen;
                let res = catch(|| call(&st, op, &tok, path, wen));
                let after = snapshot(&base);
                sh.count("A_calls", 1);
                match res {
                    Err(p) => sh.violation(format!("A|panic|{op}|{}", panic_sig(&p)), format!("{p} (path {path:?})"), case.clone()),
                    Ok((reply, ok)) => {
                        sh.count(if ok { "A_calls_ok" } else { "A_calls_refused" }, 1);
                        if reply.contains(OUT) {
                            sh.violation(format!("A|outside-content-in-reply|{op}|{pclass}"), format!("{op}({path:?}) as {sname}: reply contains text of a file outside the project: {}", reply.chars().take(300).collect::<String>()), case.clone());
                        } else if reply.contains("secret.st") || reply.contains("deep.txt") || reply.contains("Outside") || reply.contains("Secret") {
                            sh.violation(format!("A|outside-names-in-reply|{op}|{pclass}"), format!("{op}({path:?}) as {sname}: reply names entries outside the project: {}", reply.chars().take(300).collect::<String>()), case.clone());
                        }
                        if reply.contains(HID) || reply.contains("inner.st") || reply.contains(".hiddenfile") {
                            sh.violation(format!("A|hidden-in-reply|{op}|{pclass}"), format!("{op}({path:?}) as {sname}: reply exposes a hidden entry: {}", reply.chars().take(300).collect::<String>()), case.clone());
                        }
                        sh.nontrivial(&(op, path.clone(), sname, wen));
                    }
                }
                if after != before {
                    let mut changed: Vec<String> = Vec::new();
                    for (k, v) in &after {
                        if before.get(k) != Some(v) {
                            changed.push(k.clone());
                        }
                    }
                    for k in before.keys() {
                        if !after.contains_key(k) {
                            changed.push(k.clone());
                        }
                    }
                    sh.count("A_calls_that_changed_the_tree", 1);
                    let bad: Vec<&String> = changed.iter().filter(|c| !inside_visible_project(c)).collect();
                    if !bad.is_empty() {
                        let where_ = if bad.iter().any(|b| !b.starts_with("project/")) { "outside-root" } else { "hidden" };
                        sh.violation(format!("A|fs-effect-{where_}|{op}|{pclass}"), format!("{op}({path:?}) as {sname} (write_enabled={wen}) changed {bad:?}"), case.clone());
                    } else if !may_mutate {
                        sh.violation(format!("A|mutation-without-right|{op}|{sname}|{}", if wen { "enabled" } else { "write-disabled" }), format!("{op}({path:?}) as {sname} (write_enabled={wen}) changed {changed:?}"), case.clone());
                    }
                    // restore the sentinel tree and start from a fresh state
                    root = build_tree(&base);
                    let (s2, ses2, _c) = make_state(&root);
                    st = s2;
                    ses = ses2;
                    before = snapshot(&base);
                }
                sh.end();
            }
        }
    }
    let _ = std::fs::remove_dir_all(&base);
}

// ------------------------------------------------------------------ B

#[derive(Clone, Debug)]
struct Wr {
    client: usize,
    file: usize,
    call: u64,
    ret: u64,
    base_version: u64,
    base_content: String,
    content: String,
    result: Result<u64, String>, // version or error kind
    /// the file was deleted and created again with `content` by this client (not a versioned write)
    recreate: bool,
}

fn part_b(sh: &mut Shard, rng: &mut Rng, work: &Path, runs: usize) {
    for run in 0..runs {
        if !sh.time_left() {
            break;
        }
        let k = 2 + rng.usize(7);
        let m = 5 + rng.usize(46);
        let nfiles = 1 + rng.usize(2);
        let delay_permille = *rng.pick(&[0u64, 100, 500, 1000]);
        let seed = rng.next();
        let case = json!({"part": "B", "sessions": k, "writes": m, "files": nfiles, "delay_permille": delay_permille, "seed": seed.to_string()});
        if !sh.begin("B|history", &case) {
            continue;
        }
        let base = work.join(format!("c19b-{}-{}-{run}", sh.args.shard, std::process::id()));
        let _ = std::fs::remove_dir_all(&base);
        let root = base.join("project");
        // file names that have directory names as proper string prefixes (pump.st / pump, lib_io/x.st / lib), so that
        // bystander operations on those directories must not disturb the tracked files
        let prefixy = rng.chance(1, 2);
        // in a third of the histories writers sometimes replace a file by deleting and creating it again
        let recreates = rng.chance(1, 3);
        let files: Vec<String> = if prefixy { ["pump.st", "lib_io/x.st"][..nfiles].iter().map(|s| s.to_string()).collect() } else { (0..nfiles).map(|i| format!("f{i}.st")).collect() };
        let bystander_dirs: Vec<&str> = if prefixy { vec!["pump", "pu", "lib", "lib_i", "other"] } else { vec!["f0", "f", "f1.s", "other"] };
        for f in &files {
            write(&root.join(f), "(* init *)\n");
        }
        let st = Arc::new(WebIdeState::new(Some(root.clone())));
        let clockv = Arc::new(AtomicU64::new(0));
        // failpoint: yield / sleep between the unlocked disk read and the state lock
        let fp_seed = Arc::new(AtomicU64::new(seed | 1));
        let fps = fp_seed.clone();
        trust_runtime::verif::set_failpoint(Some(Arc::new(move |name: &str| {
            if name == "ide.apply_source.after_disk_read" {
                let x = fps.fetch_add(0x9E37_79B9_7F4A_7C15, Ordering::Relaxed);
                let r = (x ^ (x >> 29)).wrapping_mul(0xBF58_476D_1CE4_E5B9) >> 40;
                if r % 1000 < delay_permille {
                    if r % 3 == 0 {
                        std::thread::sleep(std::time::Duration::from_micros(50 + r % 400));
                    } else {
                        std::thread::yield_now();
                    }
                }
            }
        })));
        let log: Arc<Mutex<Vec<Wr>>> = Arc::new(Mutex::new(Vec::new()));
        let mut handles = Vec::new();
        for c in 0..k {
            let st = st.clone();
            let files = files.clone();
            let log = log.clone();
            let clockv = clockv.clone();
            let mut r = Rng::new(seed ^ (c as u64 + 1) * 7919);
            handles.push(std::thread::spawn(move || {
                let tok = st.create_session(IdeRole::Editor).expect("session").token;
                let mut ctr = 0u64;
                // what this client last saw per file: an editor keeps its version until it saves again
                let mut held: Vec<Option<(u64, String)>> = vec![None; files.len()];
                for _ in 0..m {
                    let fi = r.usize(files.len());
                    // a third of the writes reuse the (version, content) the client already holds instead of re-opening
                    let snap = match (&held[fi], r.chance(1, 3)) {
                        (Some((v, c)), true) => Held { version: *v, content: c.clone() },
                        _ => {
                            let Ok(s) = st.open_source(&tok, &files[fi]) else { continue };
                            Held { version: s.version, content: s.content }
                        }
                    };
                    if r.chance(1, 4) {
                        std::thread::yield_now();
                    }
                    ctr += 1;
                    if recreates && r.chance(1, 12) {
                        // replace the file: delete it and create it again with new content (create retried: a stale
                        // writer may not bring the path back, but be robust if it does)
                        let content = format!("(* r{c}-{ctr} *)\n");
                        let call = clockv.fetch_add(1, Ordering::SeqCst);
                        let mut res: Result<u64, String> = Err("delete-refused".into());
                        if st.delete_entry(&tok, &files[fi], true).is_ok() {
                            res = Err("create-refused".into());
                            for _ in 0..5 {
                                match st.create_entry(&tok, &files[fi], false, Some(content.clone()), true) {
                                    Ok(x) => {
                                        res = Ok(x.version.unwrap_or(1));
                                        break;
                                    }
                                    Err(e) => res = Err(format!("create-refused:{:?}", e.kind())),
                                }
                            }
                        }
                        let ret = clockv.fetch_add(1, Ordering::SeqCst);
                        held[fi] = match &res {
                            Ok(v) => Some((*v, content.clone())),
                            Err(_) => None,
                        };
                        log.lock().unwrap().push(Wr { client: c, file: fi, call, ret, base_version: 0, base_content: "<replaced>".into(), content, result: res, recreate: true });
                        continue;
                    }
                    let content = format!("(* w{c}-{ctr} *)\n");
                    let call = clockv.fetch_add(1, Ordering::SeqCst);
                    let (snap_version, snap_content) = (snap.version, snap.content.clone());
                    let res = st.apply_source(&tok, &files[fi], snap.version, content.clone(), true);
                    let ret = clockv.fetch_add(1, Ordering::SeqCst);
                    log.lock().unwrap().push(Wr {
                        client: c,
                        file: fi,
                        call,
                        ret,
                        base_version: snap.version,
                        base_content: snap.content,
                        content,
                        result: res.as_ref().map(|w| w.version).map_err(|e| format!("{:?}", e.kind())),
                        recreate: false,
                    });
                    held[fi] = match res {
                        Ok(w) => Some((w.version, format!("(* w{c}-{ctr} *)\n"))),
                        Err(_) => Some((snap_version, snap_content)),
                    };
                }
            }));
        }
        // bystander: an editor doing unrelated file operations (never on the tracked files themselves)
        let by_stop = Arc::new(std::sync::atomic::AtomicBool::new(false));
        let by_ops = Arc::new(AtomicU64::new(0));
        let bystander = {
            let (st, by_stop, by_ops) = (st.clone(), by_stop.clone(), by_ops.clone());
            let dirs: Vec<String> = bystander_dirs.iter().map(|s| s.to_string()).collect();
            let mut r = Rng::new(seed ^ 0xB157);
            std::thread::spawn(move || {
                let tok = st.create_session(IdeRole::Editor).expect("session").token;
                while !by_stop.load(Ordering::SeqCst) {
                    let d = r.pick(&dirs).clone();
                    match r.below(9) {
                        6 | 7 => {
                            // rename one of those directories away and back: only entries inside it may follow
                            let _ = st.create_entry(&tok, &d, true, None, true);
                            let _ = st.rename_entry(&tok, &d, &format!("{d}_moved"), true);
                            let _ = st.rename_entry(&tok, &format!("{d}_moved"), &d, true);
                        }
                        0 | 1 => {
                            let _ = st.create_entry(&tok, &d, true, None, true);
                            let _ = st.create_entry(&tok, &format!("{d}/z.st"), false, Some("(* z *)\n".into()), true);
                        }
                        2 | 3 => {
                            let _ = st.delete_entry(&tok, &d, true);
                        }
                        4 => {
                            let _ = st.create_entry(&tok, "unrelated.st", false, Some("(* u *)\n".into()), true);
                            let _ = st.rename_entry(&tok, "unrelated.st", "unrelated2.st", true);
                            let _ = st.delete_entry(&tok, "unrelated2.st", true);
                        }
                        5 => {
                            let _ = st.list_sources(&tok);
                        }
                        _ => std::thread::yield_now(),
                    }
                    by_ops.fetch_add(1, Ordering::Relaxed);
                }
            })
        };
        let mut joined = true;
        for h in handles {
            if h.join().is_err() {
                joined = false;
            }
        }
        by_stop.store(true, Ordering::SeqCst);
        if bystander.join().is_err() {
            joined = false;
        }
        sh.count("B_bystander_operations", by_ops.load(Ordering::Relaxed));
        trust_runtime::verif::set_failpoint(None);
        if !joined {
            sh.violation("B|panic-in-writer", "a writer thread panicked", case.clone());
            sh.end();
            continue;
        }
        let hist = log.lock().unwrap().clone();
        let mut overlapping = false;
        for (fi, f) in files.iter().enumerate() {
            let mut succ: Vec<&Wr> = hist.iter().filter(|w| w.file == fi && w.result.is_ok()).collect();
            let fails = hist.iter().filter(|w| w.file == fi && w.result.is_err()).count();
            succ.sort_by_key(|w| *w.result.as_ref().unwrap());
            sh.count("B_successful_writes", succ.len() as u64);
            sh.count("B_conflicts", fails as u64);
            // overlapping writers on this file?
            let ws: Vec<&Wr> = hist.iter().filter(|w| w.file == fi).collect();
            if ws.iter().any(|a| ws.iter().any(|b| a.client != b.client && a.call < b.ret && b.call < a.ret)) {
                overlapping = true;
            }
            if hist.iter().any(|w| w.file == fi && w.recreate) {
                sh.count("B_files_replaced_by_delete_and_create", 1);
                if hist.iter().any(|w| w.file == fi && w.recreate && matches!(&w.result, Err(e) if e.starts_with("create-refused"))) {
                    // deleted but not created again by the same client: outside the model
                    sh.count("B_files_left_unmodelled_after_delete", 1);
                    continue;
                }
                // versions restart with the new file, so successes cannot be ordered by version. Necessary condition from the
                // call / return instants alone: the content a successful write was based on must not have been replaced by a
                // success that lies entirely between the write that produced that content and this write.
                let all: Vec<&Wr> = hist.iter().filter(|w| w.file == fi && w.result.is_ok()).collect();
                for w in all.iter().filter(|w| !w.recreate) {
                    let (p_ret, found) = if w.base_content == "(* init *)\n" { (0u64, true) } else { all.iter().find(|p| p.content == w.base_content).map(|p| (p.ret, true)).unwrap_or((0, false)) };
                    if !found {
                        sh.violation("B|base-content-never-written", format!("{f}: a successful write was based on {:?}, which no successful operation produced", w.base_content), json!({"case": case, "history": render(&hist, fi)}));
                        break;
                    }
                    if let Some(q) = all.iter().find(|q| q.content != w.base_content && q.content != w.content && q.call > p_ret && q.ret < w.call) {
                        sh.violation(
                            "B|lost-update-across-delete-and-create",
                            format!("{f}: write {:?} (client {}, based on version {} content {:?}) succeeded although {:?} (client {}, {}) had completed in between: that content was silently overwritten", w.content, w.client, w.base_version, w.base_content, q.content, q.client, if q.recreate { "delete + create" } else { "write" }),
                            json!({"case": case, "history": render(&hist, fi)}),
                        );
                        break;
                    }
                }
                let disk = std::fs::read_to_string(root.join(f)).unwrap_or_default();
                let maximal: Vec<&str> = all.iter().filter(|l| !all.iter().any(|o| o.call > l.ret)).map(|l| l.content.as_str()).collect();
                if !all.is_empty() && !maximal.contains(&disk.as_str()) {
                    sh.violation("B|disk-not-a-last-success", format!("{f}: disk holds {disk:?}, the operations not followed by another are {maximal:?}"), json!({"case": case, "history": render(&hist, fi)}));
                }
                continue;
            }
            let mut prev_content = "(* init *)\n".to_string();
            let mut prev_version = 0u64;
            for w in &succ {
                let v = *w.result.as_ref().unwrap();
                if v == prev_version {
                    sh.violation("B|two-successes-same-version", format!("{f}: two successful writes returned version {v}"), json!({"case": case, "history": render(&hist, fi)}));
                }
                if w.base_content != prev_content {
                    sh.violation(
                        "B|lost-update",
                        format!("{f}: write {:?} (client {}, based on version {} content {:?}) succeeded with version {v}, but the previous successful write left {:?}: an intervening successful write was silently overwritten", w.content, w.client, w.base_version, w.base_content, prev_content),
                        json!({"case": case, "history": render(&hist, fi)}),
                    );
                    break;
                }
                prev_content = w.content.clone();
                prev_version = v;
            }
            let disk = std::fs::read_to_string(root.join(f)).unwrap_or_default();
            if disk != prev_content {
                sh.violation("B|disk-not-last-success", format!("{f}: disk holds {disk:?}, last successful write was {prev_content:?}"), json!({"case": case, "history": render(&hist, fi)}));
            }
            // a fresh client must see the same
            let tok = st.create_session(IdeRole::Viewer).expect("session").token;
            match st.open_source(&tok, f) {
                Ok(s) if s.content == prev_content => {}
                other => sh.violation("B|open-not-last-success", format!("{f}: open_source returns {:?}, last successful write was {prev_content:?}", other.map(|s| s.content)), json!({"case": case})),
            }
        }
        sh.count("B_histories_checked", 1);
        if overlapping {
            let fp: Vec<(usize, bool)> = hist.iter().map(|w| (w.client, w.result.is_ok())).collect();
            sh.nontrivial(&fp);
            sh.count("B_histories_with_overlapping_writers", 1);
        }
        if sh.want_sample() && hist.len() < 40 {
            sh.sample(json!({"part": "B", "history": render(&hist, 0)}));
        }
        let _ = std::fs::remove_dir_all(&base);
        sh.end();
    }
}

/// Part B2 (round e): one file reachable under two path strings inside the project (a hard link), two editor sessions that
/// each use their own name for it, strictly alternating calls (no overlap, so the verdict needs no interleaving argument):
/// a write based on a content that is no longer the file's content must be refused, whichever name it comes through,
/// and the file always holds the content of the last accepted write.
fn part_b2(sh: &mut Shard, rng: &mut Rng, work: &Path, runs: usize) {
    for run in 0..runs {
        let steps = 6 + rng.usize(20);
        let seed = rng.next();
        let case = json!({"part": "B2", "steps": steps, "seed": seed.to_string()});
        if !sh.begin("B2|aliases", &case) {
            continue;
        }
        let base = work.join(format!("c19b2-{}-{}-{run}", sh.args.shard, std::process::id()));
        let _ = std::fs::remove_dir_all(&base);
        let root = base.join("project");
        write(&root.join("a.st"), "(* init *)\n");
        if std::fs::hard_link(root.join("a.st"), root.join("b.st")).is_err() {
            sh.inconclusive("B2: hard links are not supported here");
            sh.end();
            return;
        }
        let st = WebIdeState::new(Some(root.clone()));
        let names = ["a.st", "b.st"];
        let toks: Vec<String> = (0..2).map(|_| st.create_session(IdeRole::Editor).expect("session").token).collect();
        let mut held: Vec<Option<(u64, String)>> = vec![None, None];
        let mut r = Rng::new(seed);
        let mut current = "(* init *)\n".to_string();
        let mut trace: Vec<String> = Vec::new();
        let mut bad: Option<(String, String)> = None;
        for k in 0..steps {
            let c = r.usize(2);
            if held[c].is_none() || r.chance(1, 3) {
                match st.open_source(&toks[c], names[c]) {
                    Ok(s) => {
                        trace.push(format!("{c}:open {} -> v{} {:?}", names[c], s.version, s.content.trim()));
                        if s.content != current {
                            bad = Some(("B2|open-not-last-success".into(), format!("client {c} opened {} and got {:?}, the file holds {:?}", names[c], s.content, current)));
                            break;
                        }
                        held[c] = Some((s.version, s.content));
                    }
                    Err(e) => trace.push(format!("{c}:open {} -> {:?}", names[c], e.kind())),
                }
                continue;
            }
            let (v, basec) = held[c].clone().unwrap();
            let content = format!("(* w{c}-{k} *)\n");
            let res = st.apply_source(&toks[c], names[c], v, content.clone(), true);
            trace.push(format!("{c}:write {} expecting v{v} (based on {:?}) -> {:?}", names[c], basec.trim(), res.as_ref().map(|w| w.version).map_err(|e| e.kind())));
            match res {
                Ok(w) => {
                    if basec != current {
                        bad = Some(("B2|stale-write-accepted-through-path-alias".into(), format!("client {c} wrote {:?} through {} based on {:?}, but the file held {:?} (written through the other name): that content was silently overwritten", content.trim(), names[c], basec.trim(), current.trim())));
                        break;
                    }
                    sh.count("B2_writes_accepted", 1);
                    current = content.clone();
                    held[c] = Some((w.version, content));
                }
                Err(_) => {
                    if basec == current {
                        sh.count("B2_up_to_date_writes_refused", 1);
                    } else {
                        sh.count("B2_stale_writes_refused", 1);
                    }
                    held[c] = None; // a well-behaved client re-opens after a conflict
                }
            }
            let disk = std::fs::read_to_string(root.join("a.st")).unwrap_or_default();
            if disk != current {
                bad = Some(("B2|disk-not-last-success".into(), format!("the file holds {disk:?}, the last accepted write was {current:?}")));
                break;
            }
        }
        match bad {
            Some((sig, d)) => sh.violation(sig, d, json!({"case": case, "trace": trace})),
            None => {
                sh.count("B2_alias_histories_checked", 1);
                sh.nontrivial(&("B2", seed));
            }
        }
        let _ = std::fs::remove_dir_all(&base);
        sh.end();
    }
}

struct Held {
    version: u64,
    content: String,
}

fn render(h: &[Wr], file: usize) -> Vec<J> {
    let mut v: Vec<&Wr> = h.iter().filter(|w| w.file == file).collect();
    v.sort_by_key(|w| w.call);
    v.into_iter().take(80).map(|w| json!({"client": w.client, "call": w.call, "ret": w.ret, "base_version": w.base_version, "base": w.base_content.trim(), "write": w.content.trim(), "result": match &w.result { Ok(v) => json!(v), Err(e) => json!(e) }})).collect()
}

pub fn run(sh: &mut Shard) {
    let work = PathBuf::from(std::env::var("TPV_WORKDIR").unwrap_or_else(|_| "/tmp".into()));
    let mut rng = Rng::new(sh.args.shard_seed());
    if let Some(path) = sh.args.replay.clone() {
        let v: J = serde_json::from_str(&std::fs::read_to_string(path).expect("replay")).expect("json");
        let r = if v.get("replay").is_some() { v["replay"].clone() } else { v };
        let r = if r.get("case").is_some() { r["case"].clone() } else { r };
        if r["part"] == "A" {
            let base = work.join(format!("c19r-{}", std::process::id()));
            let root = build_tree(&base);
            let (st, ses, _c) = make_state(&root);
            let tok = match r["session"].as_str().unwrap_or("editor") {
                "editor" => ses.editor,
                "viewer" => ses.viewer,
                "expired" => ses.expired,
                _ => ses.bogus,
            };
            let before = snapshot(&base);
            sh.begin("replay", &r);
            let (reply, _) = call(&st, r["op"].as_str().unwrap(), &tok, r["path"].as_str().unwrap(), r["write_enabled"].as_bool().unwrap_or(true));
            let after = snapshot(&base);
            let changed: Vec<&String> = after.keys().chain(before.keys()).filter(|k| after.get(*k) != before.get(*k)).collect();
            let may = r["session"] == "editor" && r["write_enabled"].as_bool().unwrap_or(true);
            if reply.contains(OUT) || reply.contains(HID) || reply.contains("secret.st") || reply.contains("inner.st") || changed.iter().any(|c| !inside_visible_project(c)) || (!changed.is_empty() && !may) {
                sh.violation("A|replay", format!("reply {}; changed {changed:?}", reply.chars().take(300).collect::<String>()), r.clone());
            }
            sh.end();
            let _ = std::fs::remove_dir_all(&base);
        } else if r["part"] == "B2" {
            let seed: u64 = r["seed"].as_str().and_then(|x| x.parse().ok()).unwrap_or(1);
            let steps = r["steps"].as_u64().unwrap_or(10);
            // the generator draws (steps, seed) from the rng: replay by searching the same stream is not possible, so run a
            // batch of fresh histories (the verdict does not depend on a schedule; any stale accepted write reproduces it)
            let _ = (seed, steps);
            part_b2(sh, &mut rng, &work, 200);
        } else {
            // histories depend on the OS schedule: re-run the same parameters a number of times
            part_b(sh, &mut rng, &work, 50);
        }
        return;
    }
    let thorough = sh.args.thorough();
    // B is time-boxed (first), A is a bounded enumeration
    part_b2(sh, &mut rng.fork(3), &work, if thorough { 4000 } else { 150 });
    part_b(sh, &mut rng.fork(2), &work, if thorough { 100_000 } else { 10_000 });
    part_a(sh, &mut rng.fork(1), &work);
}
