//! C15 — formatting never changes the program and is idempotent.
//!
//! The real trust-lsp binary is asked for full, range and on-type formatting under many
//! configurations; the returned edits are applied with the UTF-16 editor model and the token
//! sequence oracle (trust_syntax::lex on both texts) decides.  The web IDE's own formatter
//! (WebIdeState::format_source) goes through the same oracle.

use crate::ctx::{catch, panic_sig, Shard};
use crate::lsp::{Editor, Lsp};
use crate::rng::Rng;
use serde_json::{json, Value as J};
use trust_syntax::lex;

/// (kind, text) of every non-trivia token (keywords upper-cased) and separately comments / pragmas / strings.
fn token_view(s: &str) -> (Vec<String>, Vec<String>) {
    let mut code = Vec::new();
    let mut keep = Vec::new();
    for t in lex(s) {
        let text = &s[usize::from(t.range.start())..usize::from(t.range.end())];
        let k = format!("{:?}", t.kind);
        if t.kind.is_trivia() {
            if k != "Whitespace" {
                // re-indenting the continuation lines of a multi-line comment is layout, not content:
                // compare comments line by line with surrounding blanks trimmed
                let norm: Vec<&str> = text.lines().map(|l| l.trim()).collect();
                keep.push(format!("{k}:{}", norm.join("\n")));
            }
            continue;
        }
        if t.kind.is_keyword() {
            code.push(format!("{k}:{}", text.to_ascii_uppercase()));
        } else if k == "Error" && (text.starts_with("(*") || text.starts_with("/*")) {
            // an unterminated block comment lexes as one error token reaching the end of the text: like a comment,
            // it is compared line by line with surrounding blanks trimmed
            let norm: Vec<&str> = text.trim_end().lines().map(|l| l.trim()).collect();
            code.push(format!("{k}:{}", norm.join("\n")));
        } else {
            if k.contains("String") {
                keep.push(format!("{k}:{text}"));
            }
            code.push(format!("{k}:{text}"));
        }
    }
    (code, keep)
}

fn first_diff(a: &[String], b: &[String]) -> String {
    let i = a.iter().zip(b.iter()).position(|(x, y)| x != y).unwrap_or(a.len().min(b.len()));
    format!("at token {i}: {:?} vs {:?} (lengths {} / {})", a.get(i), b.get(i), a.len(), b.len())
}

fn same_program(before: &str, after: &str) -> Result<(), (String, String)> {
    let (c1, k1) = token_view(before);
    let (c2, k2) = token_view(after);
    if c1 != c2 {
        return Err(("tokens-changed".into(), first_diff(&c1, &c2)));
    }
    if k1 != k2 {
        return Err(("comment-pragma-or-string-changed".into(), first_diff(&k1, &k2)));
    }
    Ok(())
}

const TEXTS: [&str; 12] = [
    "PROGRAM Main\nVAR\nx:INT;\nlongname : DINT:=5;\nEND_VAR\nx:=x+1;\nIF x>3 THEN x:=0;END_IF;\nEND_PROGRAM\n",
    "program lower\nvar a:bool; end_var\nif a then\na:=not a; (* c1 *)\nelsif a then // line\nelse a:=true;\nend_if;\nend_program\n",
    "FUNCTION F : REAL\nVAR_INPUT p:REAL; q : REAL; END_VAR\nF:=p*q+(p-q)/2.0**2.0;\nEND_FUNCTION\n",
    "PROGRAM P\nVAR s:STRING:='a  b';w:WSTRING:=\"x  y\";t:TIME:=T#1s;END_VAR\n{pragma  one}  s:=CONCAT(s,'  ;  ');{p2}\nEND_PROGRAM\n",
    "PROGRAM Crlf\r\nVAR x : INT; END_VAR\r\nx:=1;\r\nCASE x OF\r\n1:x:=2;\r\n2..4: x:=3;\r\nELSE x:=0;\r\nEND_CASE;\r\nEND_PROGRAM\r\n",
    "TYPE T : STRUCT a:INT; b : ARRAY[0..3] OF REAL; END_STRUCT END_TYPE\nTYPE E:(A,B,C);END_TYPE\n",
    "FUNCTION_BLOCK Fb\nVAR_INPUT i:INT;END_VAR\nVAR_OUTPUT o:INT;END_VAR\nMETHOD PUBLIC M:INT\nM:=i;\nEND_METHOD\nFOR i:=0 TO 10 BY 2 DO o:=o+i;END_FOR;\nWHILE o>0 DO o:=o-1;END_WHILE;\nREPEAT o:=o+1;UNTIL o>5 END_REPEAT;\nEND_FUNCTION_BLOCK\n",
    "PROGRAM Long\nVAR a,b,c,d : DINT; END_VAR\na := b + c + d + a + b + c + d + a + b + c + d + a + b + c + d + a + b + c + d + a + b + c + d;\nb := Foo(aaaaaaaaaa := a, bbbbbbbbbbbb := b, cccccccccccc := c, dddddddddddd := d, eeeeeeeeee := a);\nEND_PROGRAM\n",
    "CONFIGURATION C\nVAR_GLOBAL g:INT;END_VAR\nTASK T(INTERVAL:=T#10ms,PRIORITY:=1);\nPROGRAM P1 WITH T:Main;\nEND_CONFIGURATION\n",
    "PROGRAM Broken\nVAR x : INT END_VAR\nx := ;\nIF x THEN\nEND_PROGRAM\n",
    "(* leading\n   multi-line\n     comment *)\nPROGRAM C\nVAR x:INT; (* trailing *) END_VAR\n(* a *) x (* b *) := (* c *) 1 (* d *) ; // e\nEND_PROGRAM\n",
    "PROGRAM Ops\nVAR a,b:BOOL; n:INT; p:REF_TO INT; END_VAR\na:=a AND b OR NOT a XOR b;\nn:=-n+(-1)*n MOD 2;\na:=n<=1 AND n>=0 OR n<>2;\np:=REF(n);p^:=3;\nn:=16#FF+2#1010+INT#5;\nEND_PROGRAM\n",
];

/// Inputs reported (by reading the formatter) to lose or change tokens under the DEFAULT configuration; each is formatted
/// once per run as a full document and compared like every other text. One label per input, so that a finding names it.
const REPORTED: [(&str, &str); 6] = [
    ("string-with-colon-on-initialiser-continuation-line", "PROGRAM P\nVAR\nnames : ARRAY[0..1] OF STRING := [\n'a:b',\n'cc:dd'];\nEND_VAR\nEND_PROGRAM\n"),
    ("int-dot-int", "PROGRAM P\ny := 1 . 5;\nEND_PROGRAM\n"),
    ("pragma-over-two-lines", "PROGRAM P\n{attribute 'a'\n 'b'}\nx := 1;\nEND_PROGRAM\n"),
    ("no-break-space-line-and-comment-tail", "PROGRAM P\n\u{a0}\nx := 1; // c\u{a0}\nEND_PROGRAM\n"),
    ("lf-inside-comment-of-crlf-text", "PROGRAM P\r\n(* a\n b *)\r\nEND_PROGRAM\r\n"),
    ("time-of-day-on-initialiser-continuation-line", "PROGRAM P\nVAR\nlongername : ARRAY[0..1] OF TOD := [\nTOD#12:30:00,\nTOD#01:02:03];\nt : INT;\nEND_VAR\nEND_PROGRAM\n"),
];

fn configs(rng: &mut Rng) -> J {
    let mut f = serde_json::Map::new();
    if rng.bool() {
        f.insert("indentWidth".into(), json!(*rng.pick(&[1, 2, 4, 8])));
    }
    if rng.bool() {
        f.insert("insertSpaces".into(), json!(rng.bool()));
    }
    if rng.bool() {
        f.insert("keywordCase".into(), json!(*rng.pick(&["upper", "lower", "preserve"])));
    }
    if rng.bool() {
        f.insert("alignVarDecls".into(), json!(rng.bool()));
    }
    if rng.bool() {
        f.insert("alignAssignments".into(), json!(rng.bool()));
    }
    if rng.bool() {
        f.insert("maxLineLength".into(), json!(*rng.pick(&[20, 40, 80, 120, 10])));
    }
    if rng.bool() {
        f.insert("spacingStyle".into(), json!(*rng.pick(&["spaced", "compact"])));
    }
    if rng.bool() {
        f.insert("endKeywordStyle".into(), json!(*rng.pick(&["aligned", "indented"])));
    }
    json!({"stLsp": {"format": f}})
}

/// Statement lists composed of lines the individual formatting passes treat differently: long comma lists (wrapped when a
/// line-length limit is configured), assignments with operators in different columns (aligned), and - next to them, at the
/// same indentation - comments, pragmas and string literals that contain `:=` / `=>` / `:` and must come through verbatim.
fn composed(rng: &mut Rng) -> String {
    const LINES: [&str; 26] = [
        // literals that contain comment / pragma delimiters, followed by real comments (round e)
        "url := 'http://plc.local/api'; // endpoint",
        "s := 'a // b';   // c // d",
        "s := '(* not a comment *)'; (* a comment *)",
        "s := 'open (* only'; // tail",
        "s := \"w // x\"; // wide",
        "s := '{not a pragma}'; {pragma} // c",
        "s := 'it$'s // here'; // after an escaped quote",
        "a := 1; (* c1 *) total := 2; // c2 (* not nested *)",
        "s := '*) // (*';",
        "a := a / 2; // halve: a / 2",
        "averyveryverylongname := a + total;",
        "a := 1;",
        "total := total + a;",
        "// total := 0; commented out",
        "// fb(in1 := a, out1 => total);",
        "(* a := 2; *)",
        "s := 'k:=v';",
        "Log('k:=v', 'x => y');",
        "{attribute 'x' := 'y'}",
        "foo(aaaaaaaaaa, bbbbbbbbbbbb, ccccccccccc, dddddddddd, eeeeeeeeee);",
        "total := bar(a, total, averyveryverylongname, a + 1, total * 2, a, a);",
        "fb(in1 := a, in2 := total, out1 => averyveryverylongname);",
        "s := 'text, with, commas, inside, a, long, string, literal';",
        "a := 2; // then total := a;",
        "x := 1; (* y := 2, z := 3 *)",
        "",
    ];
    let mut out = String::from("PROGRAM P\nVAR\n  a : INT;\n  total : INT; // t : INT := 5;\n  averyveryverylongname : INT := 3;\n  s : STRING := 'a:b';\nEND_VAR\n");
    let n = 6 + rng.usize(18);
    let mut depth = 0usize;
    for _ in 0..n {
        match rng.below(12) {
            0 if depth < 2 => {
                out += "IF a > 0 THEN\n";
                depth += 1;
            }
            1 if depth > 0 => {
                out += "END_IF;\n";
                depth -= 1;
            }
            _ => {
                out += LINES[rng.usize(LINES.len())];
                out.push('\n');
            }
        }
    }
    for _ in 0..depth {
        out += "END_IF;\n";
    }
    out += "END_PROGRAM\n";
    out
}

fn mutate(rng: &mut Rng, s: &str) -> String {
    let toks = lex(s);
    let mut parts: Vec<String> = toks.iter().map(|t| s[usize::from(t.range.start())..usize::from(t.range.end())].to_string()).collect();
    for _ in 0..rng.usize(4) {
        if parts.is_empty() {
            break;
        }
        let i = rng.usize(parts.len());
        match rng.below(6) {
            0 => {
                parts.remove(i);
            }
            1 => {
                let p = parts[i].clone();
                parts.insert(i, p);
            }
            2 => parts.insert(i, (*rng.pick(&["(* \u{1F600} c *)", "// lc\n", "{pragma}", "'s  s'", "\r\n", "   ", "\t", ";", "END_IF", "(", "x"])).to_string()),
            3 => {
                if parts[i].trim().is_empty() {
                    parts[i] = (*rng.pick(&["", " ", "\n", "\n\n\n", "  \t "])).to_string();
                }
            }
            4 => {
                let j = rng.usize(parts.len());
                parts.swap(i, j);
            }
            _ => {}
        }
    }
    let mut out = parts.concat();
    // line-level mutations: repeat a line (also with other indentation / trailing blanks), so adjacent lines are equal after re-indenting
    if rng.chance(1, 2) {
        let lines: Vec<&str> = out.split_inclusive('\n').collect();
        let cands: Vec<usize> = (0..lines.len()).filter(|i| !lines[*i].trim().is_empty()).collect();
        if !cands.is_empty() {
            let i = cands[rng.usize(cands.len())];
            let l = lines[i].trim_end_matches(['\n', '\r']);
            let dup = match rng.below(4) {
                0 => format!("{l}\n"),
                1 => format!("\t{}   \n", l.trim()),
                2 => format!("        {}\n", l.trim()),
                _ => format!("{l}\n{l}\n"),
            };
            let mut v: Vec<String> = lines.iter().map(|x| x.to_string()).collect();
            if !v[i].ends_with('\n') {
                v[i].push('\n');
            }
            v.insert(i + 1, dup);
            out = v.concat();
        }
    }
    out
}

/// Adjacent-token gluing matrix: every pair of representative tokens on one statement line.
fn glue_cases() -> Vec<String> {
    let toks = ["x", "y1", "1", "2.5", "16#F", "T#1s", "'s'", "+", "-", "*", "/", "**", ":=", "=", "<>", "<=", ">=", "<", ">", "(", ")", "[", "]", ",", ".", "..", "^", "#", ":", ";", "AND", "OR", "NOT", "MOD", "TRUE", "INT#1", "%IX0.0", "(* c *)", "{p}"];
    let mut v = Vec::new();
    for a in toks {
        for b in toks {
            v.push(format!("PROGRAM G\nVAR x : INT; END_VAR\nx := {a} {b} ;\nEND_PROGRAM\n"));
            v.push(format!("PROGRAM G\nVAR x : INT; END_VAR\nx := {a}{b};\nEND_PROGRAM\n"));
        }
    }
    v
}

pub struct Stats {
    full: u64,
    changed: u64,
    range: u64,
    ontype: u64,
    edits: u64,
}

fn format_full(l: &mut Lsp, uri: &str, text: &str, opts: &J) -> Result<(String, usize), String> {
    l.open(uri, text);
    let r = l.request("textDocument/formatting", json!({"textDocument": {"uri": uri}, "options": opts}))?;
    l.close(uri);
    let mut ed = Editor::new(text);
    let edits = r.as_array().cloned().unwrap_or_default();
    ed.apply_edits(&edits).map_err(|e| format!("EDIT|{e}"))?;
    Ok((ed.text, edits.len()))
}

pub fn check_text(l: &mut Lsp, n: &mut u64, text: &str, rng: &mut Rng, st: &mut Stats) -> Result<(), (String, String)> {
    let opts = json!({"tabSize": *rng.pick(&[2, 4, 8]), "insertSpaces": rng.bool()});
    *n += 1;
    let uri = format!("file:///c15/d{n}.st");
    let h = |e: String| if let Some(m) = e.strip_prefix("EDIT|") { ("full|edit-not-applicable".to_string(), m.to_string()) } else { ("harness".to_string(), e) };
    // the source text stays open under `uri` for all requests about it (requests return edits, they do not change the document)
    l.open(&uri, text);
    let res = check_open_text(l, n, &uri, text, rng, st, &opts, &h);
    l.close(&uri);
    res
}

#[allow(clippy::too_many_arguments)]
fn check_open_text(l: &mut Lsp, n: &mut u64, uri: &str, text: &str, rng: &mut Rng, st: &mut Stats, opts: &J, h: &dyn Fn(String) -> (String, String)) -> Result<(), (String, String)> {
    let (f1, ne) = {
        let r = l.request("textDocument/formatting", json!({"textDocument": {"uri": uri}, "options": opts})).map_err(h)?;
        let mut ed = Editor::new(text);
        let edits = r.as_array().cloned().unwrap_or_default();
        ed.apply_edits(&edits).map_err(|e| h(format!("EDIT|{e}")))?;
        (ed.text, edits.len())
    };
    st.full += 1;
    st.edits += ne as u64;
    if f1 != text {
        st.changed += 1;
    }
    same_program(text, &f1).map_err(|(c, d)| (format!("full|{c}"), format!("{d}\n--- source ---\n{text}\n--- formatted ---\n{f1}")))?;
    // idempotence
    *n += 1;
    let (f2, _) = format_full(l, &format!("file:///c15/d{n}.st"), &f1, opts).map_err(h)?;
    if f2 != f1 {
        let at = f1.bytes().zip(f2.bytes()).position(|(a, b)| a != b).unwrap_or(f1.len().min(f2.len()));
        return Err(("full|not-idempotent".into(), format!("formatting the formatted text changes it again near byte {at}: {:?} -> {:?}", &f1[at.saturating_sub(20)..(at + 20).min(f1.len())].to_string(), f2.get(at.saturating_sub(20)..(at + 20).min(f2.len())))));
    }
    // range formatting on random line ranges
    let ed0 = Editor::new(text);
    let nl = ed0.line_count();
    for _ in 0..3 {
        let a = rng.usize(nl);
        let b = (a + rng.usize(4)).min(nl - 1);
        let end_col = Editor::utf16_len(ed0.line(b).unwrap_or(""));
        let r = l.request("textDocument/rangeFormatting", json!({"textDocument": {"uri": uri}, "range": {"start": {"line": a, "character": 0}, "end": {"line": b, "character": end_col}}, "options": opts})).map_err(|e| ("harness".to_string(), e))?;
        st.range += 1;
        let edits = r.as_array().cloned().unwrap_or_default();
        st.edits += edits.len() as u64;
        let mut ed = ed0.clone();
        ed.apply_edits(&edits).map_err(|e| ("range|edit-not-applicable".to_string(), format!("lines {a}..{b}: {e}")))?;
        same_program(text, &ed.text).map_err(|(c, d)| (format!("range|{c}"), format!("range lines {a}..{b}: {d}\n--- source ---\n{text}\n--- after edits ---\n{}", ed.text)))?;
    }
    // on-type formatting after ';' and after newline
    let positions: Vec<(usize, usize, &str)> = {
        let mut v = Vec::new();
        for ln in 0..nl {
            let line = ed0.line(ln).unwrap_or("");
            if let Some(i) = line.rfind(';') {
                v.push((ln, Editor::utf16_len(&line[..=i]), ";"));
            }
            if ln > 0 {
                v.push((ln, 0, "\n"));
            }
        }
        v
    };
    for _ in 0..3.min(positions.len()) {
        let (ln, col, ch) = positions[rng.usize(positions.len())];
        let r = l.request("textDocument/onTypeFormatting", json!({"textDocument": {"uri": uri}, "position": {"line": ln, "character": col}, "ch": ch, "options": opts})).map_err(|e| ("harness".to_string(), e))?;
        st.ontype += 1;
        let edits = r.as_array().cloned().unwrap_or_default();
        st.edits += edits.len() as u64;
        let mut ed = ed0.clone();
        ed.apply_edits(&edits).map_err(|e| ("ontype|edit-not-applicable".to_string(), format!("at {ln}:{col} {ch:?}: {e}")))?;
        same_program(text, &ed.text).map_err(|(c, d)| (format!("ontype|{c}"), format!("on-type {ch:?} at {ln}:{col}: {d}\n--- source ---\n{text}\n--- after edits ---\n{}", ed.text)))?;
    }
    Ok(())
}

fn web_ide_format(text: &str) -> Result<(), (String, String)> {
    use trust_runtime::web::ide::{IdeRole, WebIdeState};
    let st = WebIdeState::new(Some(std::env::temp_dir()));
    let tok = st.create_session(IdeRole::Editor).map_err(|e| ("harness".to_string(), e.to_string()))?.token;
    let r = st.format_source(&tok, "c15_virtual.st", Some(text.to_string())).map_err(|e| ("harness".to_string(), e.to_string()))?;
    same_program(text, &r.content).map_err(|(c, d)| (format!("webide|{c}"), format!("{d}\n--- source ---\n{text}\n--- formatted ---\n{}", r.content)))?;
    let r2 = st.format_source(&tok, "c15_virtual.st", Some(r.content.clone())).map_err(|e| ("harness".to_string(), e.to_string()))?;
    if r2.content != r.content {
        return Err(("webide|not-idempotent".into(), format!("--- once ---\n{}\n--- twice ---\n{}", r.content, r2.content)));
    }
    Ok(())
}

pub fn run(sh: &mut Shard) {
    let mut l = match Lsp::start(json!({})) {
        Ok(l) => l,
        Err(e) => {
            sh.inconclusive(format!("cannot start trust-lsp: {e}"));
            return;
        }
    };
    let mut n = 0u64;
    if let Some(path) = sh.args.replay.clone() {
        let v: J = serde_json::from_str(&std::fs::read_to_string(path).expect("replay")).expect("json");
        let r = if v.get("replay").is_some() { v["replay"].clone() } else { v };
        let r = if r.get("case").is_some() { r["case"].clone() } else { r };
        let text = r["text"].as_str().unwrap_or("").to_string();
        l.notify("workspace/didChangeConfiguration", json!({"settings": r["config"].clone()}));
        let mut st = Stats { full: 0, changed: 0, range: 0, ontype: 0, edits: 0 };
        sh.begin("replay", &r);
        let mut g = Rng::new(r["rng"].as_str().and_then(|s| s.parse().ok()).unwrap_or(1));
        if let Err((sig, d)) = check_text(&mut l, &mut n, &text, &mut g, &mut st) {
            sh.violation(sig, d, r.clone());
        }
        if let Err((sig, d)) = web_ide_format(&text) {
            sh.violation(sig, d, r.clone());
        }
        sh.end();
        return;
    }
    if sh.args.shard == 0 {
        l.notify("workspace/didChangeConfiguration", json!({"settings": {"stLsp": {"format": {}}}}));
        for (label, text) in REPORTED {
            let class = format!("reported-{label}");
            let case = json!({"class": class, "config": {"stLsp": {"format": {}}}, "text": text, "rng": "0"});
            if !sh.begin(&class, &case) {
                continue;
            }
            n += 1;
            match format_full(&mut l, &format!("file:///c15/rep{n}.st"), text, &json!({"tabSize": 4, "insertSpaces": true})) {
                Ok((out, _)) => {
                    sh.count("reported_inputs_formatted", 1);
                    if let Err((sig, d)) = same_program(text, &out) {
                        sh.violation(format!("full|{sig}|{class}"), d.chars().take(600).collect::<String>(), case.clone());
                    }
                }
                Err(e) => sh.inconclusive(e),
            }
            sh.end();
        }
    }
    let rng = Rng::new(sh.args.shard_seed());
    let corpus: Vec<(String, String)> = crate::engines::c12::corpus_files().into_iter().filter(|(_, t)| t.len() < 6000).collect();
    let glue = glue_cases();
    let (shard, nshards) = (sh.args.shard as usize, sh.args.nshards as usize);
    let mut i = 0u64;
    let mut glue_i = shard;
    while sh.time_left() {
        i += 1;
        let mut g = rng.fork(i);
        let cfg = configs(&mut g);
        l.notify("workspace/didChangeConfiguration", json!({"settings": cfg}));
        let (class, text) = match g.below(10) {
            0 | 1 => ("builtin", g.pick(&TEXTS).to_string()),
            2 | 3 => ("builtin-mutant", { let t = TEXTS[g.usize(TEXTS.len())]; mutate(&mut g, t) }),
            4 => ("composed", composed(&mut g)),
            5 if !corpus.is_empty() => ("corpus", corpus[g.usize(corpus.len())].1.clone()),
            6 if !corpus.is_empty() => ("corpus-mutant", { let t = corpus[g.usize(corpus.len())].1.clone(); mutate(&mut g, &t) }),
            _ => {
                let t = glue[glue_i % glue.len()].clone();
                glue_i += nshards;
                ("glue-matrix", t)
            }
        };
        let rseed = g.next();
        let case = json!({"class": class, "config": cfg, "text": text, "rng": rseed.to_string()});
        if !sh.begin(class, &case) {
            continue;
        }
        let mut st = Stats { full: 0, changed: 0, range: 0, ontype: 0, edits: 0 };
        let mut g2 = Rng::new(rseed);
        let r = catch(|| check_text(&mut l, &mut n, &text, &mut g2, &mut st));
        match r {
            Err(p) => sh.violation(format!("panic|{}", panic_sig(&p)), p, case.clone()),
            Ok(Err((sig, d))) => {
                if sig == "harness" {
                    sh.inconclusive(d);
                    match Lsp::start(json!({})) {
                        Ok(l2) => l = l2,
                        Err(_) => break,
                    }
                } else {
                    // signature: clause + which config switches were on (sorted keys) is too fine; keep clause + text class
                    // idempotence failures are classified by whether line wrapping was configured
                    let wrap = if cfg["stLsp"]["format"].get("maxLineLength").is_some() { "|wrap-configured" } else { "|no-wrap" };
                    let extra = if sig.contains("not-idempotent") { wrap } else { "" };
                    sh.violation(format!("{sig}{extra}|{class}"), d.chars().take(1500).collect::<String>(), case.clone());
                }
            }
            Ok(Ok(())) => {
                sh.count("full_formats_checked", st.full);
                sh.count("full_formats_that_changed_the_text", st.changed);
                sh.count("range_formats_checked", st.range);
                sh.count("ontype_formats_checked", st.ontype);
                sh.count("edits_applied", st.edits);
                if st.changed > 0 || st.edits > 0 {
                    sh.nontrivial(&(text.clone(), cfg.to_string()));
                }
                if sh.want_sample() && text.len() < 300 {
                    sh.sample(case.clone());
                }
            }
        }
        match catch(|| web_ide_format(&text)) {
            Err(p) => sh.violation(format!("panic|webide|{}", panic_sig(&p)), p, case.clone()),
            Ok(Err((sig, d))) if sig != "harness" => sh.violation(format!("{sig}|{class}"), d.chars().take(1500).collect::<String>(), case.clone()),
            Ok(Err(_)) => sh.count("webide_format_refused", 1),
            Ok(Ok(())) => sh.count("webide_formats_checked", 1),
        }
        if !l.alive() {
            sh.violation("server-died", "trust-lsp exited while formatting", case.clone());
            match Lsp::start(json!({})) {
                Ok(l2) => l = l2,
                Err(_) => break,
            }
        }
        sh.end();
    }
    sh.count("glue_matrix_cells_done", (glue_i / nshards.max(1)) as u64);
}
