//! C04 — standard function blocks follow the IEC definitions on every trace.
//!
//! Differential monitor: N interleaved FB instances of mixed kinds inside one ST program are
//! driven cycle by cycle through the public TestHarness; after every cycle each instance's
//! outputs are compared with an independently written model (below) that follows the property
//! statement and docs/specs/08.  Time between two *calls of an instance* is attributed to the
//! input seen at the later call; an instance that is not called in a cycle must keep its outputs.

use crate::ctx::{catch, panic_sig, Shard};
use crate::rng::Rng;
use serde_json::{json, Value as J};
use trust_runtime::harness::TestHarness;
use trust_runtime::value::{Duration, Value};

#[derive(Clone, Copy, Debug, PartialEq, Eq, Hash)]
pub enum Kind {
    Ton,
    Tof,
    Tp,
    Ctu,
    Ctd,
    Ctud,
    RTrig,
    FTrig,
    Sr,
    Rs,
}
const KINDS: [Kind; 10] = [Kind::Ton, Kind::Tof, Kind::Tp, Kind::Ctu, Kind::Ctd, Kind::Ctud, Kind::RTrig, Kind::FTrig, Kind::Sr, Kind::Rs];

#[derive(Clone, Copy, Debug, PartialEq, Eq, Hash)]
pub enum IntTy {
    Int,
    DInt,
    LInt,
    UDInt,
    ULInt,
    SInt,
    USInt,
    UInt,
}
impl IntTy {
    fn name(self) -> &'static str {
        match self {
            IntTy::Int => "INT",
            IntTy::DInt => "DINT",
            IntTy::LInt => "LINT",
            IntTy::UDInt => "UDINT",
            IntTy::ULInt => "ULINT",
            IntTy::SInt => "SINT",
            IntTy::USInt => "USINT",
            IntTy::UInt => "UINT",
        }
    }
    fn min(self) -> i128 {
        match self {
            IntTy::Int => i16::MIN as i128,
            IntTy::DInt => i32::MIN as i128,
            IntTy::LInt => i64::MIN as i128,
            IntTy::SInt => i8::MIN as i128,
            _ => 0,
        }
    }
    fn max(self) -> i128 {
        match self {
            IntTy::Int => i16::MAX as i128,
            IntTy::DInt => i32::MAX as i128,
            IntTy::LInt => i64::MAX as i128,
            IntTy::UDInt => u32::MAX as i128,
            IntTy::ULInt => u64::MAX as i128,
            IntTy::SInt => i8::MAX as i128,
            IntTy::USInt => u8::MAX as i128,
            IntTy::UInt => u16::MAX as i128,
        }
    }
    fn value(self, v: i128) -> Value {
        match self {
            IntTy::Int => Value::Int(v as i16),
            IntTy::DInt => Value::DInt(v as i32),
            IntTy::LInt => Value::LInt(v as i64),
            IntTy::UDInt => Value::UDInt(v as u32),
            IntTy::ULInt => Value::ULInt(v as u64),
            IntTy::SInt => Value::SInt(v as i8),
            IntTy::USInt => Value::USInt(v as u8),
            IntTy::UInt => Value::UInt(v as u16),
        }
    }
}

fn int_of(v: &Value) -> Option<(i128, &'static str)> {
    Some(match v {
        Value::SInt(x) => (*x as i128, "SINT"),
        Value::Int(x) => (*x as i128, "INT"),
        Value::DInt(x) => (*x as i128, "DINT"),
        Value::LInt(x) => (*x as i128, "LINT"),
        Value::USInt(x) => (*x as i128, "USINT"),
        Value::UInt(x) => (*x as i128, "UINT"),
        Value::UDInt(x) => (*x as i128, "UDINT"),
        Value::ULInt(x) => (*x as i128, "ULINT"),
        _ => return None,
    })
}

/// One FB instance in the generated program.
#[derive(Clone, Debug)]
pub struct Inst {
    pub kind: Kind,
    /// FB type name as written (TON, TON_LTIME, CTU, CTU_DINT, ...)
    pub type_name: String,
    pub ltime: bool,
    pub ity: IntTy,
    /// read outputs through `Q => var` (true) or `var := fb.Q` after the call (false)
    pub out_binding: bool,
}

// ---------------------------------------------------------------- models

#[derive(Clone, Debug, Default)]
pub struct Model {
    // timers
    acc: i128,
    timing: bool,
    prev_in: bool,
    q: bool,
    et_lo: i128, // allowed ET interval after this call
    et_hi: i128,
    last_call: Option<i128>,
    // counters
    cv: i128,
    prev_cu: bool,
    prev_cd: bool,
    qu: bool,
    qd: bool,
    // triggers
    m: bool,
    called: bool,
}

#[derive(Clone, Debug)]
pub struct Inputs {
    pub call: bool,
    pub b: [bool; 4], // IN / CU,CD,R,LD / CLK / S,R
    pub pt: i64,      // nanos
    pub pv: i128,
}

impl Model {
    /// Advance the model for one *call* at absolute time `now` (nanos).
    fn call(&mut self, inst: &Inst, i: &Inputs, now: i128) {
        let dt = match self.last_call {
            None => 0,
            Some(t) => (now - t).max(0),
        };
        self.last_call = Some(now);
        self.called = true;
        let ptp = (i.pt as i128).max(0);
        match inst.kind {
            Kind::Ton => {
                let input = i.b[0];
                self.acc = if input { self.acc + dt } else { 0 };
                self.q = input && self.acc >= ptp;
                let et = self.acc.min(ptp);
                self.et_lo = et;
                self.et_hi = et;
            }
            Kind::Tof => {
                let input = i.b[0];
                if input {
                    self.q = true;
                    self.acc = 0;
                    self.timing = false;
                    self.et_lo = 0;
                    self.et_hi = 0;
                } else {
                    if self.prev_in {
                        self.timing = true;
                        self.acc = 0;
                    }
                    if self.timing {
                        self.acc += dt;
                        if self.acc >= ptp {
                            self.q = false;
                            self.timing = false;
                            // delay expired: IEC holds ET at PT, docs diagram drops it; either accepted
                            self.et_lo = 0;
                            self.et_hi = ptp;
                        } else {
                            self.q = true;
                            self.et_lo = self.acc;
                            self.et_hi = self.acc;
                        }
                    } else {
                        self.q = false;
                        self.et_lo = 0;
                        self.et_hi = ptp;
                    }
                }
                self.prev_in = input;
            }
            Kind::Tp => {
                let input = i.b[0];
                let rising = input && !self.prev_in;
                if rising && !self.timing {
                    self.timing = true;
                    self.acc = 0;
                }
                if self.timing {
                    self.acc += dt;
                    if self.acc >= ptp {
                        self.timing = false;
                    }
                }
                self.q = self.timing;
                if self.timing {
                    self.et_lo = self.acc;
                    self.et_hi = self.acc;
                } else {
                    // after the pulse: IEC holds PT while IN stays high, docs diagram drops to 0
                    self.et_lo = 0;
                    self.et_hi = ptp;
                }
                self.prev_in = input;
            }
            Kind::Ctu => {
                let (cu, r) = (i.b[0], i.b[2]);
                let rising = cu && !self.prev_cu;
                if r {
                    self.cv = 0;
                } else if rising && self.cv < inst.ity.max() {
                    self.cv += 1;
                }
                self.prev_cu = cu;
                self.q = self.cv >= i.pv;
            }
            Kind::Ctd => {
                let (cd, ld) = (i.b[1], i.b[3]);
                let rising = cd && !self.prev_cd;
                if ld {
                    self.cv = i.pv;
                } else if rising && self.cv > inst.ity.min() {
                    self.cv -= 1;
                }
                self.prev_cd = cd;
                self.q = self.cv <= 0;
            }
            Kind::Ctud => {
                let (cu, cd, r, ld) = (i.b[0], i.b[1], i.b[2], i.b[3]);
                let rcu = cu && !self.prev_cu;
                let rcd = cd && !self.prev_cd;
                if r {
                    self.cv = 0;
                } else if ld {
                    self.cv = i.pv;
                } else if !(rcu && rcd) {
                    if rcu && self.cv < inst.ity.max() {
                        self.cv += 1;
                    } else if rcd && self.cv > inst.ity.min() {
                        self.cv -= 1;
                    }
                }
                self.prev_cu = cu;
                self.prev_cd = cd;
                self.qu = self.cv >= i.pv;
                self.qd = self.cv <= 0;
            }
            Kind::RTrig => {
                let clk = i.b[0];
                self.q = clk && !self.m;
                self.m = clk;
            }
            Kind::FTrig => {
                let clk = i.b[0];
                self.q = !clk && !self.m;
                self.m = !clk;
            }
            Kind::Sr => {
                let (s1, r) = (i.b[0], i.b[1]);
                self.q = s1 || (!r && self.q);
            }
            Kind::Rs => {
                let (s, r1) = (i.b[0], i.b[1]);
                self.q = !r1 && (s || self.q);
            }
        }
    }
}

// ---------------------------------------------------------------- program text

fn program_text(insts: &[Inst]) -> String {
    let mut v = String::from("PROGRAM P\nVAR\n");
    let mut body = String::new();
    for (k, it) in insts.iter().enumerate() {
        v += &format!("  call_{k} : BOOL;\n  fb_{k} : {};\n", it.type_name);
        let (call, post): (String, String) = match it.kind {
            Kind::Ton | Kind::Tof | Kind::Tp => {
                let t = if it.ltime { "LTIME" } else { "TIME" };
                v += &format!("  in_{k} : BOOL;\n  pt_{k} : {t};\n  q_{k} : BOOL;\n  et_{k} : {t};\n");
                if it.out_binding {
                    (format!("fb_{k}(IN := in_{k}, PT := pt_{k}, Q => q_{k}, ET => et_{k});"), String::new())
                } else {
                    (format!("fb_{k}(IN := in_{k}, PT := pt_{k});"), format!("q_{k} := fb_{k}.Q; et_{k} := fb_{k}.ET;"))
                }
            }
            Kind::Ctu => {
                let t = it.ity.name();
                v += &format!("  cu_{k} : BOOL;\n  r_{k} : BOOL;\n  pv_{k} : {t};\n  q_{k} : BOOL;\n  cv_{k} : {t};\n");
                if it.out_binding {
                    (format!("fb_{k}(CU := cu_{k}, R := r_{k}, PV := pv_{k}, Q => q_{k}, CV => cv_{k});"), String::new())
                } else {
                    (format!("fb_{k}(CU := cu_{k}, R := r_{k}, PV := pv_{k});"), format!("q_{k} := fb_{k}.Q; cv_{k} := fb_{k}.CV;"))
                }
            }
            Kind::Ctd => {
                let t = it.ity.name();
                v += &format!("  cd_{k} : BOOL;\n  ld_{k} : BOOL;\n  pv_{k} : {t};\n  q_{k} : BOOL;\n  cv_{k} : {t};\n");
                if it.out_binding {
                    (format!("fb_{k}(CD := cd_{k}, LD := ld_{k}, PV := pv_{k}, Q => q_{k}, CV => cv_{k});"), String::new())
                } else {
                    (format!("fb_{k}(CD := cd_{k}, LD := ld_{k}, PV := pv_{k});"), format!("q_{k} := fb_{k}.Q; cv_{k} := fb_{k}.CV;"))
                }
            }
            Kind::Ctud => {
                let t = it.ity.name();
                v += &format!("  cu_{k} : BOOL;\n  cd_{k} : BOOL;\n  r_{k} : BOOL;\n  ld_{k} : BOOL;\n  pv_{k} : {t};\n  qu_{k} : BOOL;\n  qd_{k} : BOOL;\n  cv_{k} : {t};\n");
                if it.out_binding {
                    (format!("fb_{k}(CU := cu_{k}, CD := cd_{k}, R := r_{k}, LD := ld_{k}, PV := pv_{k}, QU => qu_{k}, QD => qd_{k}, CV => cv_{k});"), String::new())
                } else {
                    (format!("fb_{k}(CU := cu_{k}, CD := cd_{k}, R := r_{k}, LD := ld_{k}, PV := pv_{k});"), format!("qu_{k} := fb_{k}.QU; qd_{k} := fb_{k}.QD; cv_{k} := fb_{k}.CV;"))
                }
            }
            Kind::RTrig | Kind::FTrig => {
                v += &format!("  clk_{k} : BOOL;\n  q_{k} : BOOL;\n");
                if it.out_binding {
                    (format!("fb_{k}(CLK := clk_{k}, Q => q_{k});"), String::new())
                } else {
                    (format!("fb_{k}(CLK := clk_{k});"), format!("q_{k} := fb_{k}.Q;"))
                }
            }
            Kind::Sr => {
                v += &format!("  s_{k} : BOOL;\n  r_{k} : BOOL;\n  q_{k} : BOOL;\n");
                if it.out_binding {
                    (format!("fb_{k}(S1 := s_{k}, R := r_{k}, Q1 => q_{k});"), String::new())
                } else {
                    (format!("fb_{k}(S1 := s_{k}, R := r_{k});"), format!("q_{k} := fb_{k}.Q1;"))
                }
            }
            Kind::Rs => {
                v += &format!("  s_{k} : BOOL;\n  r_{k} : BOOL;\n  q_{k} : BOOL;\n");
                if it.out_binding {
                    (format!("fb_{k}(S := s_{k}, R1 := r_{k}, Q1 => q_{k});"), String::new())
                } else {
                    (format!("fb_{k}(S := s_{k}, R1 := r_{k});"), format!("q_{k} := fb_{k}.Q1;"))
                }
            }
        };
        body += &format!("IF call_{k} THEN\n  {call}\nEND_IF;\n");
        if !post.is_empty() {
            body += &format!("{post}\n");
        }
    }
    format!("{v}END_VAR\n{body}END_PROGRAM\n")
}

// ---------------------------------------------------------------- trace generation

fn gen_insts(rng: &mut Rng) -> Vec<Inst> {
    let n = 1 + rng.usize(6);
    (0..n)
        .map(|_| {
            let kind = *rng.pick(&KINDS);
            let ltime = rng.chance(1, 3);
            let (type_name, ity) = match kind {
                Kind::Ton | Kind::Tof | Kind::Tp => {
                    let base = match kind {
                        Kind::Ton => "TON",
                        Kind::Tof => "TOF",
                        _ => "TP",
                    };
                    (if ltime { format!("{base}_LTIME") } else { base.to_string() }, IntTy::Int)
                }
                Kind::Ctu | Kind::Ctd | Kind::Ctud => {
                    let base = match kind {
                        Kind::Ctu => "CTU",
                        Kind::Ctd => "CTD",
                        _ => "CTUD",
                    };
                    match rng.below(10) {
                        0 => (format!("{base}_INT"), IntTy::Int),
                        1 => (format!("{base}_DINT"), IntTy::DInt),
                        2 => (format!("{base}_LINT"), IntTy::LInt),
                        3 => (format!("{base}_UDINT"), IntTy::UDInt),
                        4 => (format!("{base}_ULINT"), IntTy::ULInt),
                        // plain name is ANY_INT: the PV variable's type decides (checker admits these five)
                        5 => (base.to_string(), IntTy::DInt),
                        6 => (base.to_string(), IntTy::LInt),
                        7 => (base.to_string(), IntTy::UDInt),
                        8 => (base.to_string(), IntTy::ULInt),
                        _ => (base.to_string(), IntTy::Int),
                    }
                }
                Kind::RTrig => ((if rng.chance(1, 5) { "DIFU" } else { "R_TRIG" }).to_string(), IntTy::Int),
                Kind::FTrig => ((if rng.chance(1, 5) { "DIFD" } else { "F_TRIG" }).to_string(), IntTy::Int),
                Kind::Sr => ("SR".to_string(), IntTy::Int),
                Kind::Rs => ("RS".to_string(), IntTy::Int),
            };
            // member access on a plain (ANY_INT) counter has static type ANY_INT, which the checker
            // does not let you assign to a typed variable: read those through output bindings
            let plain_counter = matches!(kind, Kind::Ctu | Kind::Ctd | Kind::Ctud) && !type_name.contains('_');
            let out_binding = rng.bool() || plain_counter;
            Inst { kind, type_name, ltime: ltime && matches!(kind, Kind::Ton | Kind::Tof | Kind::Tp), ity, out_binding }
        })
        .collect()
}

const MS: i64 = 1_000_000;

#[derive(Clone, Debug)]
pub struct Step {
    pub dt: i64,
    pub inputs: Vec<Inputs>,
}

fn gen_trace(rng: &mut Rng, insts: &[Inst], allow_pt_change: bool) -> Vec<Step> {
    let n = 4 + rng.usize(60);
    // per-instance base presets
    let mut pts: Vec<i64> = insts
        .iter()
        .map(|_| match rng.below(10) {
            0 => 0,
            1 => -5 * MS,
            2 => 1,
            3 => i64::MAX / 4,
            4 => 1 << 40,
            _ => (1 + rng.below(50) as i64) * MS,
        })
        .collect();
    let mut pvs: Vec<i128> = insts
        .iter()
        .map(|it| match rng.below(8) {
            0 => 0,
            1 => it.ity.min(),
            2 => it.ity.max(),
            3 => it.ity.max() - 1,
            4 if it.ity.min() < 0 => -2,
            _ => 1 + rng.below(4) as i128,
        })
        .collect();
    let mut cur: Vec<[bool; 4]> = insts.iter().map(|_| [rng.chance(1, 4), rng.chance(1, 6), false, false]).collect();
    let mut total: i128 = 0;
    let mut steps = Vec::new();
    for s in 0..n {
        let p = *rng.pick(&pts);
        let p = if p <= 0 || p > (1 << 50) { 10 * MS } else { p };
        let mut dt = match rng.below(12) {
            0 => 0,
            1 => 1,
            2 => MS,
            3 => p - 1,
            4 => p,
            5 => p + 1,
            6 => p.saturating_mul(10),
            7 => 1 << 58,
            8 => p / 2,
            9 => p / 3 + 1,
            _ => rng.below(20) as i64 * MS,
        };
        if total + dt as i128 > (1i128 << 61) {
            dt = MS;
        }
        if s == 0 && rng.bool() {
            dt = 0;
        }
        total += dt as i128;
        let mut inputs = Vec::new();
        for (k, it) in insts.iter().enumerate() {
            // bursts: mostly keep, sometimes flip; occasionally a single-call glitch
            for b in 0..4 {
                let p = match (it.kind, b) {
                    (Kind::Ctu | Kind::Ctd | Kind::Ctud, 2 | 3) => 12,
                    _ => 3,
                };
                if rng.chance(1, p) {
                    cur[k][b] = !cur[k][b];
                }
            }
            if matches!(it.kind, Kind::Ctu | Kind::Ctd | Kind::Ctud) && (cur[k][2] || cur[k][3]) && rng.chance(2, 3) {
                cur[k][2] = false;
                cur[k][3] = false;
            }
            if allow_pt_change && rng.chance(1, 10) {
                pts[k] = (1 + rng.below(50) as i64) * MS;
            }
            if rng.chance(1, 15) {
                pvs[k] = match rng.below(4) {
                    0 => 0,
                    1 => it.ity.max(),
                    _ => 1 + rng.below(5) as i128,
                }
                .clamp(it.ity.min(), it.ity.max());
            }
            inputs.push(Inputs { call: !rng.chance(1, 6), b: cur[k], pt: pts[k], pv: pvs[k] });
        }
        steps.push(Step { dt, inputs });
    }
    steps
}

// ---------------------------------------------------------------- execution + comparison

fn set_inputs(h: &mut TestHarness, k: usize, it: &Inst, i: &Inputs) {
    h.set_input(&format!("call_{k}"), i.call);
    let tv = |n: i64| if it.ltime { Value::LTime(Duration::from_nanos(n)) } else { Value::Time(Duration::from_nanos(n)) };
    match it.kind {
        Kind::Ton | Kind::Tof | Kind::Tp => {
            h.set_input(&format!("in_{k}"), i.b[0]);
            h.set_input(&format!("pt_{k}"), tv(i.pt));
        }
        Kind::Ctu => {
            h.set_input(&format!("cu_{k}"), i.b[0]);
            h.set_input(&format!("r_{k}"), i.b[2]);
            h.set_input(&format!("pv_{k}"), it.ity.value(i.pv));
        }
        Kind::Ctd => {
            h.set_input(&format!("cd_{k}"), i.b[1]);
            h.set_input(&format!("ld_{k}"), i.b[3]);
            h.set_input(&format!("pv_{k}"), it.ity.value(i.pv));
        }
        Kind::Ctud => {
            h.set_input(&format!("cu_{k}"), i.b[0]);
            h.set_input(&format!("cd_{k}"), i.b[1]);
            h.set_input(&format!("r_{k}"), i.b[2]);
            h.set_input(&format!("ld_{k}"), i.b[3]);
            h.set_input(&format!("pv_{k}"), it.ity.value(i.pv));
        }
        Kind::RTrig | Kind::FTrig => h.set_input(&format!("clk_{k}"), i.b[0]),
        Kind::Sr | Kind::Rs => {
            h.set_input(&format!("s_{k}"), i.b[0]);
            h.set_input(&format!("r_{k}"), i.b[1]);
        }
    }
}

fn get_bool(h: &TestHarness, name: &str) -> Result<bool, String> {
    match h.get_output(name) {
        Some(Value::Bool(b)) => Ok(b),
        other => Err(format!("{name} holds {other:?}, expected BOOL")),
    }
}
fn get_time(h: &TestHarness, name: &str, ltime: bool) -> Result<i128, String> {
    match h.get_output(name) {
        Some(Value::Time(d)) if !ltime => Ok(d.as_nanos() as i128),
        Some(Value::LTime(d)) if ltime => Ok(d.as_nanos() as i128),
        other => Err(format!("{name} holds {other:?}, expected {}", if ltime { "LTIME" } else { "TIME" })),
    }
}

/// Compare one instance with its model; returns Err((clause, detail)).
fn compare(h: &TestHarness, k: usize, it: &Inst, m: &Model, weak: bool) -> Result<(), (String, String)> {
    if !m.called {
        return Ok(());
    }
    let kn = format!("{:?}", it.kind);
    match it.kind {
        Kind::Ton | Kind::Tof | Kind::Tp => {
            let q = get_bool(h, &format!("q_{k}")).map_err(|e| (format!("{kn}|output-type"), e))?;
            let et = get_time(h, &format!("et_{k}"), it.ltime).map_err(|e| (format!("{kn}|output-type"), e))?;
            if weak {
                return Ok(());
            }
            if q != m.q {
                return Err((format!("{kn}|Q"), format!("Q={q} model {}", m.q)));
            }
            if et < m.et_lo || et > m.et_hi {
                return Err((format!("{kn}|ET"), format!("ET={et}ns model [{}..{}]", m.et_lo, m.et_hi)));
            }
        }
        Kind::Ctu | Kind::Ctd => {
            let q = get_bool(h, &format!("q_{k}")).map_err(|e| (format!("{kn}|output-type"), e))?;
            let cvv = h.get_output(&format!("cv_{k}"));
            let (cv, ty) = cvv.as_ref().and_then(int_of).ok_or((format!("{kn}|output-type"), format!("CV holds {cvv:?}")))?;
            if ty != it.ity.name() {
                return Err((format!("{kn}|CV-type"), format!("CV is {ty}, declared {}", it.ity.name())));
            }
            if cv != m.cv {
                return Err((format!("{kn}|CV"), format!("CV={cv} model {}", m.cv)));
            }
            if q != m.q {
                return Err((format!("{kn}|Q"), format!("Q={q} model {} (CV={cv})", m.q)));
            }
        }
        Kind::Ctud => {
            let qu = get_bool(h, &format!("qu_{k}")).map_err(|e| (format!("{kn}|output-type"), e))?;
            let qd = get_bool(h, &format!("qd_{k}")).map_err(|e| (format!("{kn}|output-type"), e))?;
            let cvv = h.get_output(&format!("cv_{k}"));
            let (cv, ty) = cvv.as_ref().and_then(int_of).ok_or((format!("{kn}|output-type"), format!("CV holds {cvv:?}")))?;
            if ty != it.ity.name() {
                return Err((format!("{kn}|CV-type"), format!("CV is {ty}, declared {}", it.ity.name())));
            }
            if cv != m.cv {
                return Err((format!("{kn}|CV"), format!("CV={cv} model {}", m.cv)));
            }
            if qu != m.qu || qd != m.qd {
                return Err((format!("{kn}|Q"), format!("QU={qu} QD={qd} model {} {}", m.qu, m.qd)));
            }
        }
        Kind::RTrig | Kind::FTrig | Kind::Sr | Kind::Rs => {
            let q = get_bool(h, &format!("q_{k}")).map_err(|e| (format!("{kn}|output-type"), e))?;
            if q != m.q {
                return Err((format!("{kn}|Q"), format!("Q={q} model {}", m.q)));
            }
        }
    }
    Ok(())
}

fn trace_json(insts: &[Inst], steps: &[Step], weak: bool) -> J {
    json!({
        "weak_pt_change": weak,
        "insts": insts.iter().map(|i| json!({"kind": format!("{:?}", i.kind), "type": i.type_name, "ltime": i.ltime, "ity": i.ity.name(), "out_binding": i.out_binding})).collect::<Vec<_>>(),
        "steps": steps.iter().map(|s| json!({"dt": s.dt, "in": s.inputs.iter().map(|i| json!([i.call, i.b[0], i.b[1], i.b[2], i.b[3], i.pt, i.pv.to_string()])).collect::<Vec<_>>()})).collect::<Vec<_>>(),
    })
}

fn parse_trace(v: &J) -> (Vec<Inst>, Vec<Step>, bool) {
    let kinds = |s: &str| KINDS.iter().copied().find(|k| format!("{k:?}") == s).unwrap();
    let itys = [IntTy::Int, IntTy::DInt, IntTy::LInt, IntTy::UDInt, IntTy::ULInt, IntTy::SInt, IntTy::USInt, IntTy::UInt];
    let insts = v["insts"]
        .as_array()
        .unwrap()
        .iter()
        .map(|i| Inst {
            kind: kinds(i["kind"].as_str().unwrap()),
            type_name: i["type"].as_str().unwrap().to_string(),
            ltime: i["ltime"].as_bool().unwrap(),
            ity: *itys.iter().find(|t| t.name() == i["ity"].as_str().unwrap()).unwrap(),
            out_binding: i["out_binding"].as_bool().unwrap(),
        })
        .collect();
    let steps = v["steps"]
        .as_array()
        .unwrap()
        .iter()
        .map(|s| Step {
            dt: s["dt"].as_i64().unwrap(),
            inputs: s["in"]
                .as_array()
                .unwrap()
                .iter()
                .map(|a| Inputs {
                    call: a[0].as_bool().unwrap(),
                    b: [a[1].as_bool().unwrap(), a[2].as_bool().unwrap(), a[3].as_bool().unwrap(), a[4].as_bool().unwrap()],
                    pt: a[5].as_i64().unwrap(),
                    pv: a[6].as_str().unwrap().parse().unwrap(),
                })
                .collect(),
        })
        .collect();
    (insts, steps, v["weak_pt_change"].as_bool().unwrap_or(false))
}

/// Run one trace; returns Ok(stats) or Err((sig, detail, failing step)).
fn run_trace(insts: &[Inst], steps: &[Step], weak: bool) -> Result<(u64, bool), (String, String, usize)> {
    let text = program_text(insts);
    let mut h = TestHarness::from_source(&text).map_err(|e| ("compile".to_string(), format!("generated program rejected: {e}"), 0))?;
    let mut models: Vec<Model> = insts.iter().map(|_| Model::default()).collect();
    let mut now: i128 = 0;
    let mut compared = 0u64;
    let mut interesting = false;
    let mut prev_q: Vec<bool> = vec![false; insts.len()];
    // TON with a changing PT: (time of the previous call with IN = TRUE, time IN has been TRUE over consecutive calls)
    let mut held: Vec<(Option<i128>, i128)> = vec![(None, 0); insts.len()];
    for (si, st) in steps.iter().enumerate() {
        h.advance_time(Duration::from_nanos(st.dt));
        now += st.dt as i128;
        for (k, it) in insts.iter().enumerate() {
            set_inputs(&mut h, k, it, &st.inputs[k]);
            if st.inputs[k].call {
                models[k].call(it, &st.inputs[k], now);
                // the time IN has been TRUE over consecutive calls, by the property's attribution rule (the interval before a call
                // counts for the input value seen at that call): the model's accumulator, which does not depend on PT
                held[k] = (Some(now), models[k].acc);
            }
        }
        let res = h.cycle();
        if let Some(e) = res.errors.first() {
            return Err((format!("runtime-error|{e:?}").chars().take(60).collect(), format!("cycle {si} raised {e:?}"), si));
        }
        for (k, it) in insts.iter().enumerate() {
            compare(&h, k, it, &models[k], weak).map_err(|(c, d)| (c, format!("step {si} instance {k} ({}): {d}", it.type_name), si))?;
            if weak && matches!(it.kind, Kind::Ton) && st.inputs[k].call {
                // PT may change between calls: the exact model is not applied, but what the property states for every trace is:
                // ET never exceeds (the current) PT, and Q is TRUE only while IN is TRUE and has been TRUE for at least PT
                let q = get_bool(&h, &format!("q_{k}")).map_err(|e| ("Ton|output-type".to_string(), e, si))?;
                let et = get_time(&h, &format!("et_{k}"), it.ltime).map_err(|e| ("Ton|output-type".to_string(), e, si))?;
                let pt = st.inputs[k].pt.max(0) as i128;
                if (et as i128) > pt {
                    return Err(("Ton|ET-exceeds-PT".to_string(), format!("step {si} instance {k}: ET = {et} ns with PT = {pt} ns"), si));
                }
                if q && !st.inputs[k].b[0] {
                    return Err(("Ton|Q-without-IN".to_string(), format!("step {si} instance {k}: Q is TRUE while IN is FALSE"), si));
                }
                if q && held[k].1 < pt {
                    return Err(("Ton|Q-before-PT".to_string(), format!("step {si} instance {k}: Q is TRUE although IN has been TRUE for {} ns only, PT = {pt} ns", held[k].1), si));
                }
            }
            compared += 1;
            let q = models[k].q || models[k].qu;
            if q != prev_q[k] {
                interesting = true;
            }
            prev_q[k] = q;
        }
    }
    Ok((compared, interesting))
}

fn shrink(insts: &[Inst], steps: &[Step], weak: bool, sig: &str) -> (Vec<Inst>, Vec<Step>) {
    let mut insts = insts.to_vec();
    let mut steps = steps.to_vec();
    let fails = |i: &[Inst], s: &[Step]| matches!(catch(|| run_trace(i, s, weak)), Ok(Err((ref g, _, _))) if g == sig);
    // truncate after failing step
    if let Ok(Err((_, _, at))) = catch(|| run_trace(&insts, &steps, weak)) {
        steps.truncate(at + 1);
    }
    // drop instances
    let mut k = 0;
    while insts.len() > 1 && k < insts.len() {
        let mut i2 = insts.clone();
        i2.remove(k);
        let s2: Vec<Step> = steps.iter().map(|s| { let mut s = s.clone(); s.inputs.remove(k); s }).collect();
        if fails(&i2, &s2) {
            insts = i2;
            steps = s2;
        } else {
            k += 1;
        }
    }
    // drop steps
    let mut j = 0;
    while steps.len() > 1 && j < steps.len() {
        let mut s2 = steps.clone();
        s2.remove(j);
        if fails(&insts, &s2) {
            steps = s2;
        } else {
            j += 1;
        }
    }
    (insts, steps)
}

fn shape_key(insts: &[Inst], steps: &[Step]) -> String {
    // (FB kinds, quantised trace shape)
    let kinds: Vec<String> = insts.iter().map(|i| i.type_name.clone()).collect();
    let edges: usize = steps.windows(2).map(|w| w[0].inputs.iter().zip(&w[1].inputs).filter(|(a, b)| a.b != b.b).count()).sum();
    format!("{kinds:?}|n={}|edges={}|dt0={}", steps.len() / 8, edges / 4, steps.iter().filter(|s| s.dt == 0).count())
}

fn one(sh: &mut Shard, insts: Vec<Inst>, steps: Vec<Step>, weak: bool) {
    let case = trace_json(&insts, &steps, weak);
    let class = format!("{:?}", insts.iter().map(|i| i.type_name.as_str()).collect::<Vec<_>>());
    if !sh.begin(&class, &case) {
        return;
    }
    match catch(|| run_trace(&insts, &steps, weak)) {
        Err(p) => {
            let (i2, s2) = (insts.clone(), steps.clone());
            sh.violation(format!("panic|{}", panic_sig(&p)), p, trace_json(&i2, &s2, weak));
        }
        Ok(Err((sig, detail, _))) => {
            if sig == "compile" {
                sh.count("rejected_programs", 1);
                sh.inconclusive(detail);
            } else {
                let (i2, s2) = shrink(&insts, &steps, weak, &sig);
                let d2 = match catch(|| run_trace(&i2, &s2, weak)) {
                    Ok(Err((_, d, _))) => d,
                    _ => detail,
                };
                let full = if weak { format!("{sig}|pt-changed-while-timing") } else { sig };
                sh.violation(full, d2, trace_json(&i2, &s2, weak));
            }
        }
        Ok(Ok((compared, interesting))) => {
            sh.count("instance_steps_compared", compared);
            sh.count("traces_ok", 1);
            for i in &insts {
                sh.seen("fb_types_exercised", i.type_name.clone());
            }
            if interesting {
                sh.nontrivial(&shape_key(&insts, &steps));
            }
            if sh.want_sample() && steps.len() < 12 && interesting {
                sh.sample(case);
            }
        }
    }
    sh.end();
}

/// Hand-written regression traces (seed independent).
fn corpus() -> Vec<(Vec<Inst>, Vec<Step>)> {
    let t = |kind, name: &str| Inst { kind, type_name: name.to_string(), ltime: name.ends_with("LTIME"), ity: IntTy::Int, out_binding: true };
    let inp = |b0: bool, pt_ms: i64| Inputs { call: true, b: [b0, false, false, false], pt: pt_ms * MS, pv: 3 };
    let mut out = Vec::new();
    // TP: rising edge inside a running pulse must not retrigger
    for name in ["TP", "TP_LTIME"] {
        let ins = [true, true, false, true, true, true, true, false, false];
        out.push((vec![t(Kind::Tp, name)], ins.iter().map(|b| Step { dt: 10 * MS, inputs: vec![inp(*b, 50)] }).collect()));
    }
    // TON exact boundary, TOF exact boundary
    for (kind, name) in [(Kind::Ton, "TON"), (Kind::Tof, "TOF")] {
        let ins = [false, true, true, true, false, false, false, true, false];
        out.push((vec![t(kind, name)], ins.iter().map(|b| Step { dt: 10 * MS, inputs: vec![inp(*b, 20)] }).collect()));
    }
    // two instances of the same kind with opposite inputs (independence)
    let ins = [true, false, true, true, false, true];
    out.push((
        vec![t(Kind::Ton, "TON"), t(Kind::Ton, "TON")],
        ins.iter().map(|b| Step { dt: 7 * MS, inputs: vec![inp(*b, 14), inp(!*b, 14)] }).collect(),
    ));
    out
}

pub fn run(sh: &mut Shard) {
    if let Some(path) = sh.args.replay.clone() {
        let v: J = serde_json::from_str(&std::fs::read_to_string(path).expect("replay")).expect("json");
        let r = if v.get("replay").is_some() { v["replay"].clone() } else { v };
        let r = if r.get("case").is_some() { r["case"].clone() } else { r };
        let (insts, steps, weak) = parse_trace(&r);
        one(sh, insts, steps, weak);
        return;
    }
    let mut rng = Rng::new(sh.args.shard_seed());
    if sh.args.shard == 0 {
        for (insts, steps) in corpus() {
            one(sh, insts, steps, false);
        }
    }
    let mut i = 0u64;
    while sh.time_left() {
        i += 1;
        let mut r = rng.fork(i);
        let insts = gen_insts(&mut r);
        let weak = r.chance(1, 6);
        let steps = gen_trace(&mut r, &insts, weak);
        one(sh, insts, steps, weak);
    }
    let _ = &mut rng;
}
