//! C05 — compilation and execution are deterministic and reproducible.
//!
//! Every job (sources + input/clock trace) is compiled and executed in P separate OS processes
//! (different hash seeds, ASLR, environment size, start time), in each of them on two threads, and
//! twice in a row; STBC bytes and per-cycle digests (variables, runtime events, output image,
//! error) must be identical everywhere.

use crate::ctx::{catch, fnv, fnv_bytes, Shard};
use crate::engines::c01::{sv_to_value, CycleIn};
use crate::gen::{self, Sv, Ty};
use crate::rng::Rng;
use crate::walk;
use serde_json::{json, Value as J};
use std::path::PathBuf;
use std::process::Command;
use trust_runtime::harness::{bytecode_bytes_from_source, TestHarness};
use trust_runtime::value::Duration;

/// A program with many names of every kind, so that any hash-ordered emission would show.
fn many_names(rng: &mut Rng) -> String {
    let n = 12 + rng.usize(10);
    let mut s = String::new();
    let mut names: Vec<String> = (0..n).map(|i| format!("{}{}", ["Alpha", "beta", "GAMMA", "delta_x", "Eps", "zeta9", "Eta", "theta", "Iota_", "kappa"][i % 10], i)).collect();
    rng.shuffle(&mut names);
    for (i, nm) in names.iter().enumerate() {
        match i % 5 {
            0 => s += &format!("TYPE E_{nm} : (A_{nm}, B_{nm}, C_{nm}); END_TYPE\n"),
            1 => s += &format!("TYPE S_{nm} : STRUCT f_{nm} : INT; g_{nm} : REAL; t_{nm} : STRING; END_STRUCT END_TYPE\n"),
            2 => s += &format!("FUNCTION F_{nm} : DINT\nVAR_INPUT a_{nm} : DINT; END_VAR\nF_{nm} := a_{nm} + DINT#{i};\nEND_FUNCTION\n"),
            3 => s += &format!("FUNCTION_BLOCK FB_{nm}\nVAR_INPUT in_{nm} : DINT; END_VAR\nVAR_OUTPUT out_{nm} : DINT; END_VAR\nVAR acc_{nm} : DINT; msg_{nm} : STRING := 'msg {nm}'; END_VAR\nacc_{nm} := acc_{nm} + in_{nm};\nout_{nm} := acc_{nm};\nEND_FUNCTION_BLOCK\n"),
            _ => s += &format!("INTERFACE I_{nm}\nMETHOD M_{nm} : DINT END_METHOD\nEND_INTERFACE\nCLASS C_{nm} IMPLEMENTS I_{nm}\nVAR PUBLIC v_{nm} : DINT; END_VAR\nMETHOD PUBLIC M_{nm} : DINT\nv_{nm} := v_{nm} + DINT#1;\nM_{nm} := v_{nm};\nEND_METHOD\nEND_CLASS\n"),
        }
    }
    s += "PROGRAM Main\nVAR\n  tick : DINT;\n  total : DINT;\n  inp : DINT;\n";
    for (i, nm) in names.iter().enumerate() {
        match i % 5 {
            0 => s += &format!("  e_{nm} : E_{nm};\n"),
            1 => s += &format!("  s_{nm} : S_{nm};\n"),
            3 => s += &format!("  fb_{nm} : FB_{nm};\n"),
            4 => s += &format!("  c_{nm} : C_{nm};\n"),
            _ => {}
        }
    }
    s += "END_VAR\ntick := tick + DINT#1;\n";
    for (i, nm) in names.iter().enumerate() {
        match i % 5 {
            1 => s += &format!("s_{nm}.f_{nm} := INT#{i};\ns_{nm}.t_{nm} := 'text {nm}';\n"),
            2 => s += &format!("total := total + F_{nm}(a_{nm} := tick + inp);\n"),
            3 => s += &format!("fb_{nm}(in_{nm} := tick);\ntotal := total + fb_{nm}.out_{nm};\n"),
            4 => s += &format!("total := total + c_{nm}.M_{nm}();\n"),
            _ => {}
        }
    }
    s += "IF total > DINT#1000000 THEN total := DINT#0; END_IF;\nEND_PROGRAM\n";
    s += "PROGRAM Second\nVAR k : DINT; END_VAR\nk := k + DINT#2;\nEND_PROGRAM\nPROGRAM Third\nVAR_EXTERNAL gcount : DINT; END_VAR\ngcount := gcount + DINT#1;\nEND_PROGRAM\n";
    s += "CONFIGURATION Conf\nVAR_GLOBAL trigger : BOOL; gcount : DINT; END_VAR\nTASK Fast (INTERVAL := T#1ms, PRIORITY := 1);\nTASK Slow (INTERVAL := T#3ms, PRIORITY := 2);\nTASK Ev (SINGLE := trigger, PRIORITY := 0);\nPROGRAM P1 WITH Fast : Main;\nPROGRAM P2 WITH Slow : Second;\nPROGRAM P3 WITH Ev : Third;\nEND_CONFIGURATION\n";
    s
}

/// Several sibling and nested FB instances whose types declare directly addressed variables: the order in which their
/// bindings are registered decides the RefTable/IoMap of the container and, for shared addresses, which writer wins.
fn io_instances(rng: &mut Rng) -> String {
    let ntypes = 2 + rng.usize(2);
    let mut s = String::new();
    for t in 0..ntypes {
        let qw = rng.usize(4) * 2;
        let qx = 8 + rng.usize(4);
        let mw = rng.usize(4) * 2;
        s += &format!(
            "FUNCTION_BLOCK Drv{t}\nVAR_INPUT v : INT; END_VAR\nVAR_OUTPUT q AT %QW{qw} : INT; b AT %QX{qx}.{bit} : BOOL; END_VAR\nVAR m AT %MW{mw} : INT; i AT %IW{iw} : INT; END_VAR\nq := v + INT#{t};\nb := v > INT#{thr};\nm := m + v + i;\nEND_FUNCTION_BLOCK\n",
            bit = rng.usize(8),
            iw = rng.usize(3) * 2,
            thr = rng.usize(30)
        );
    }
    s += "FUNCTION_BLOCK Pair\nVAR d1 : Drv0; d2 : Drv1; d3 : Drv0; END_VAR\nVAR_OUTPUT w AT %QW14 : INT; END_VAR\nVAR_INPUT k : INT; END_VAR\nd1(v := k + INT#5);\nd2(v := k + INT#1);\nd3(v := k + INT#9);\nw := d1.q + d2.q + d3.q;\nEND_FUNCTION_BLOCK\n";
    let ninst = 3 + rng.usize(6);
    let mut names: Vec<String> = (0..ninst).map(|i| format!("{}{}", ["unit", "Axis", "valve_", "M", "zz", "aa", "Pump", "q"][i % 8], i)).collect();
    rng.shuffle(&mut names);
    s += "PROGRAM Main\nVAR\n  tick : INT;\n";
    for (i, n) in names.iter().enumerate() {
        s += &format!("  {n} : Drv{};\n", i % ntypes);
    }
    s += "  pr1 : Pair;\n  pr2 : Pair;\n  lq AT %QW16 : INT;\nEND_VAR\ntick := tick + INT#1;\n";
    let mut order: Vec<usize> = (0..names.len()).collect();
    rng.shuffle(&mut order);
    for i in order {
        s += &format!("{}(v := tick + INT#{});\n", names[i], i * 7);
    }
    s += "pr1(k := tick);\npr2(k := tick + INT#100);\nlq := tick;\nEND_PROGRAM\n";
    s
}

/// One task plus several programs that are not attached to any task (background programs), all folding their number into a
/// shared global: the result depends on the order in which the background programs run.
fn background_programs(rng: &mut Rng) -> String {
    let n = 3 + rng.usize(5);
    let mut names: Vec<String> = (0..n).map(|i| format!("{}{}", ["Bg", "worker_", "Zeta", "alpha", "M", "q_", "Pump"][i % 7], i)).collect();
    rng.shuffle(&mut names);
    let mut s = String::from("PROGRAM Ticker\nVAR_EXTERNAL acc : DINT; END_VAR\nacc := acc + DINT#1;\nEND_PROGRAM\n");
    for (i, nm) in names.iter().enumerate() {
        s += &format!("PROGRAM {nm}\nVAR_EXTERNAL acc : DINT; END_VAR\nVAR seen : DINT; END_VAR\nseen := acc;\nacc := (acc * DINT#31 + DINT#{}) MOD DINT#1000003;\nEND_PROGRAM\n", i + 2);
    }
    s += "CONFIGURATION Conf\nVAR_GLOBAL acc : DINT; END_VAR\nTASK Fast (INTERVAL := T#1ms, PRIORITY := 1);\nPROGRAM T1 WITH Fast : Ticker;\n";
    let mut order: Vec<usize> = (0..names.len()).collect();
    rng.shuffle(&mut order);
    for i in order {
        s += &format!("PROGRAM I_{} : {};\n", names[i], names[i]);
    }
    s += "END_CONFIGURATION\n";
    s
}

/// User struct types of random size, nested, bound to direct addresses and measured with SIZEOF: the process image layout and the
/// SIZEOF results depend on type sizes, and user type ids repeat from one compilation to the next.
fn layout_types(rng: &mut Rng) -> String {
    let scalars = ["SINT", "INT", "DINT", "LINT", "WORD", "LWORD", "BYTE", "REAL", "LREAL"];
    let mut s = String::new();
    let n_inner = 1 + rng.usize(4);
    s += "TYPE Channel :\nSTRUCT\n";
    for i in 0..n_inner {
        s += &format!("    c{i} : {};\n", rng.pick(&scalars));
    }
    s += "END_STRUCT\nEND_TYPE\n\nTYPE Frame :\nSTRUCT\n    first : Channel;\n";
    if rng.bool() {
        s += &format!("    more : ARRAY[0..{}] OF Channel;\n", rng.usize(3));
    }
    s += "    status : WORD;\nEND_STRUCT\nEND_TYPE\n\n";
    s += "PROGRAM Main\nVAR\n    frame AT %IW0 : Frame;\n    mirror AT %QW0 : WORD;\n    width : DINT;\n    fwidth : DINT;\n    total : DINT;\nEND_VAR\nwidth := SIZEOF(Channel);\nfwidth := SIZEOF(Frame);\nmirror := frame.status;\ntotal := total + width + fwidth;\nEND_PROGRAM\n";
    s
}

fn job_json(text: &str, trace: &[CycleIn]) -> J {
    json!({"text": text, "trace": trace.iter().map(|c| json!({"dt": c.dt_ns, "in": c.inputs.iter().map(|(n, t, v)| json!([n, t.name(), match v { Sv::I(x) => x.to_string(), Sv::F(f) => format!("f{:016x}", f.to_bits()) }])).collect::<Vec<_>>()})).collect::<Vec<_>>()})
}

fn parse_trace(v: &J) -> Vec<CycleIn> {
    v.as_array()
        .map(|a| {
            a.iter()
                .map(|c| CycleIn {
                    dt_ns: c["dt"].as_i64().unwrap_or(0),
                    inputs: c["in"]
                        .as_array()
                        .map(|i| {
                            i.iter()
                                .map(|x| {
                                    let s = x[2].as_str().unwrap_or("0");
                                    let sv = if let Some(h) = s.strip_prefix('f') { Sv::F(f64::from_bits(u64::from_str_radix(h, 16).unwrap_or(0))) } else { Sv::I(s.parse().unwrap_or(0)) };
                                    (x[0].as_str().unwrap_or("").to_string(), Ty::from_name(x[1].as_str().unwrap_or("INT")).unwrap_or(Ty::Int), sv)
                                })
                                .collect()
                        })
                        .unwrap_or_default(),
                })
                .collect()
        })
        .unwrap_or_default()
}

/// Compile + run one job; returns (bytes hash, bytes len, per-cycle digests).
fn run_job(text: &str, trace: &[CycleIn]) -> (String, usize, Vec<String>) {
    let bytes = match catch(|| bytecode_bytes_from_source(text)) {
        Ok(Ok(b)) => b,
        Ok(Err(e)) => return (format!("compile-error:{:x}", fnv(&e.to_string())), 0, vec![]),
        Err(p) => return (format!("panic:{p}"), 0, vec![]),
    };
    let mut digests = Vec::new();
    let r = catch(|| {
        let Ok(mut h) = TestHarness::from_source(text) else { return vec!["harness-rejected".to_string()] };
        let dbg = h.runtime_mut().enable_debug();
        let mut out = Vec::new();
        for c in trace {
            for (n, t, v) in &c.inputs {
                h.set_input(n, sv_to_value(*t, *v));
            }
            h.advance_time(Duration::from_nanos(c.dt_ns));
            let r = h.cycle();
            let events = format!("{:?}", dbg.drain_runtime_events());
            let snap = walk::snapshot(h.runtime().storage());
            let d = fnv(&(snap, events, h.runtime().io().outputs().to_vec(), format!("{:?}", r.errors)));
            out.push(format!("{d:016x}"));
            if !r.errors.is_empty() {
                break;
            }
        }
        out
    });
    match r {
        Ok(d) => digests.extend(d),
        Err(p) => digests.push(format!("panic:{p}")),
    }
    (format!("{:016x}", fnv_bytes(&bytes)), bytes.len(), digests)
}

/// Entry for `tpv c05-child <jobs.json> <out.json>`.
pub fn child(args: &[String]) -> i32 {
    let jobs: J = serde_json::from_str(&std::fs::read_to_string(&args[0]).expect("jobs")).expect("json");
    // every process works through the jobs in another order (rotation by its index), so the per-thread history differs
    let rot: usize = args.get(2).and_then(|s| s.parse().ok()).unwrap_or(0);
    let list = jobs.as_array().unwrap();
    let n = list.len().max(1);
    let mut out: Vec<J> = vec![J::Null; list.len()];
    for step in 0..list.len() {
        let idx = (step + rot) % n;
        let j = &list[idx];
        let text = j["text"].as_str().unwrap().to_string();
        let trace = parse_trace(&j["trace"]);
        // twice in a row on this thread, once on a second thread
        let a = run_job(&text, &trace);
        let b = run_job(&text, &trace);
        let (t2, tr2) = (text.clone(), trace.clone());
        let c = std::thread::spawn(move || run_job(&t2, &tr2)).join().unwrap_or_else(|_| ("thread-panic".into(), 0, vec![]));
        out[idx] = json!({"runs": [[a.0, a.1, a.2], [b.0, b.1, b.2], [c.0, c.1, c.2]]});
    }
    std::fs::write(&args[1], J::Array(out).to_string()).expect("write");
    0
}

/// Retain save cadence (round e): with a retain store and a save interval, the cycles in which the runtime writes the store -
/// and what it writes - are part of the run's observable trace.  The same program, inputs and clock trace (including a
/// restart, which takes the runtime clock back to 0) are executed twice, once as fast as possible and once with host-time
/// pauses between the cycles; the recorded store calls must be identical.
fn retain_cadence(sh: &mut Shard, rng: &mut Rng) {
    use std::sync::{Arc, Mutex};
    struct Rec(Arc<Mutex<Vec<(u64, String)>>>, Arc<std::sync::atomic::AtomicU64>);
    impl trust_runtime::retain::RetainStore for Rec {
        fn load(&self) -> Result<trust_runtime::RetainSnapshot, trust_runtime::error::RuntimeError> {
            Ok(trust_runtime::RetainSnapshot::default())
        }
        fn store(&self, snapshot: &trust_runtime::RetainSnapshot) -> Result<(), trust_runtime::error::RuntimeError> {
            let mut vals: Vec<String> = snapshot.values().iter().map(|(k, v)| format!("{k}={v:?}")).collect();
            vals.sort();
            self.0.lock().unwrap().push((self.1.load(std::sync::atomic::Ordering::SeqCst), vals.join(",")));
            Ok(())
        }
    }
    let text = "PROGRAM Main\nVAR RETAIN r : DINT; END_VAR\nVAR n : DINT; END_VAR\nr := r + DINT#1;\nn := n + DINT#1;\nEND_PROGRAM\n";
    for trial in 0..3 {
        let interval_ms = *rng.pick(&[5i64, 20, 50]);
        let before = 30 + rng.usize(60); // cycles of 1 ms before the restart
        let after = 40 + rng.usize(60); // cycles after it: the runtime clock is behind the time of the last save for a while
        let warm = rng.bool();
        let case = json!({"retain_cadence": {"interval_ms": interval_ms, "cycles_before": before, "cycles_after": after, "warm": warm}});
        if !sh.begin("retain-cadence", &case) {
            continue;
        }
        let run = |pause_us: u64| -> Result<Vec<(u64, String)>, String> {
            let mut h = TestHarness::from_source(text).map_err(|e| e.to_string())?;
            let calls = Arc::new(Mutex::new(Vec::new()));
            let cyc = Arc::new(std::sync::atomic::AtomicU64::new(0));
            h.runtime_mut().set_retain_store(Some(Box::new(Rec(calls.clone(), cyc.clone()))), Some(Duration::from_millis(interval_ms)));
            for k in 0..before + after {
                if k == before {
                    h.runtime_mut().restart(if warm { trust_runtime::RestartMode::Warm } else { trust_runtime::RestartMode::Cold }).map_err(|e| format!("{e:?}"))?;
                }
                cyc.store(k as u64, std::sync::atomic::Ordering::SeqCst);
                h.advance_time(Duration::from_millis(1));
                let r = h.cycle();
                if let Some(e) = r.errors.first() {
                    return Err(format!("cycle {k}: {e:?}"));
                }
                if pause_us > 0 {
                    std::thread::sleep(std::time::Duration::from_micros(pause_us));
                }
            }
            let v = calls.lock().unwrap().clone();
            Ok(v)
        };
        match (catch(|| run(0)), catch(|| run(1500))) {
            (Ok(Ok(a)), Ok(Ok(b))) => {
                sh.count("retain_cadence_runs_compared", 1);
                sh.count("retain_store_calls_compared", a.len() as u64);
                if a != b {
                    let at = a.iter().zip(b.iter()).position(|(x, y)| x != y).unwrap_or(a.len().min(b.len()));
                    sh.violation("retain-cadence|store-calls-differ-between-runs", format!("same program and clock trace, run without and with host-time pauses: {} vs {} store calls; first difference at call {at}: {:?} vs {:?}", a.len(), b.len(), a.get(at), b.get(at)), case.clone());
                } else if !a.is_empty() {
                    sh.nontrivial(&("retain-cadence", interval_ms, before, after, warm));
                }
            }
            (a, b) => sh.inconclusive(format!("retain cadence: {:?} / {:?}", a.map(|x| x.map(|v| v.len())), b.map(|x| x.map(|v| v.len())))),
        }
        let _ = trial;
        sh.end();
    }
}

pub fn run(sh: &mut Shard) {
    let work = PathBuf::from(std::env::var("TPV_WORKDIR").unwrap_or_else(|_| "/tmp".into()));
    let thorough = sh.args.thorough();
    let nproc = if thorough { 16 } else { 4 };
    let rng = Rng::new(sh.args.shard_seed());
    let exe = std::env::current_exe().expect("exe");
    if let Some(path) = sh.args.replay.clone() {
        let v: J = serde_json::from_str(&std::fs::read_to_string(path).expect("replay")).expect("json");
        let r = if v.get("replay").is_some() { v["replay"].clone() } else { v };
        let r = if r.get("case").is_some() { r["case"].clone() } else { r };
        if r.get("retain_cadence").is_some() {
            retain_cadence(sh, &mut Rng::new(sh.args.shard_seed()));
            return;
        }
        batch(sh, &work, &exe, nproc, vec![r], 0);
        return;
    }
    retain_cadence(sh, &mut rng.fork(0xcade));
    let mut round = 0u64;
    while sh.time_left() {
        round += 1;
        let mut jobs = Vec::new();
        for k in 0..14u64 {
            let mut g = rng.fork(round * 100 + k);
            let (text, trace) = match k % 7 {
                0 => {
                    let t = many_names(&mut g);
                    let tr: Vec<CycleIn> = (0..6).map(|_| CycleIn { dt_ns: *g.pick(&[0, 1_000_000, 3_000_000, 500_000]), inputs: vec![("trigger".into(), Ty::Bool, Sv::I(g.below(2) as i128))] }).collect();
                    (t, tr)
                }
                4 => {
                    let t = layout_types(&mut g);
                    (t, (0..3).map(|_| CycleIn { dt_ns: 1_000_000, inputs: vec![] }).collect())
                }
                3 => {
                    let t = background_programs(&mut g);
                    (t, (0..6).map(|_| CycleIn { dt_ns: 1_000_000, inputs: vec![] }).collect())
                }
                2 => {
                    let t = io_instances(&mut g);
                    (t, (0..4).map(|_| CycleIn { dt_ns: 1_000_000, inputs: vec![] }).collect())
                }
                1 => {
                    let (_, src) = crate::engines::c11::SEEDS[g.usize(crate::engines::c11::SEEDS.len())];
                    (src.to_string(), (0..5).map(|_| CycleIn { dt_ns: 10_000_000, inputs: vec![] }).collect())
                }
                _ => {
                    let ext = g.bool();
                    let p = gen::generate(&mut g, ext, &[]);
                    let tr = crate::engines::c01::gen_trace(&mut g, &p, 4);
                    (gen::program_text(&p), tr)
                }
            };
            jobs.push(job_json(&text, &trace));
        }
        batch(sh, &work, &exe, nproc, jobs, round);
    }
}

fn batch(sh: &mut Shard, work: &std::path::Path, exe: &std::path::Path, nproc: usize, jobs: Vec<J>, round: u64) {
    let case = json!({"round": round, "jobs": jobs.len()});
    if !sh.begin("batch", &case) {
        return;
    }
    let jf = work.join(format!("c05-{}-{}-{round}.jobs.json", sh.args.shard, std::process::id()));
    std::fs::write(&jf, J::Array(jobs.clone()).to_string()).expect("write jobs");
    let mut children = Vec::new();
    for i in 0..nproc {
        let of = work.join(format!("c05-{}-{}-{round}.out{i}.json", sh.args.shard, std::process::id()));
        let mut c = Command::new(exe);
        c.arg("c05-child").arg(&jf).arg(&of).arg(i.to_string());
        c.env("C05_PAD", "x".repeat(i * 977 + 1)).env("C05_I", i.to_string());
        c.stdout(std::process::Stdio::null()).stderr(std::process::Stdio::null());
        children.push((c.spawn().ok(), of));
    }
    let mut outs: Vec<Option<J>> = Vec::new();
    for (ch, of) in children {
        let ok = ch.map(|mut c| c.wait().map(|s| s.success()).unwrap_or(false)).unwrap_or(false);
        let v = if ok { std::fs::read_to_string(&of).ok().and_then(|s| serde_json::from_str::<J>(&s).ok()) } else { None };
        let _ = std::fs::remove_file(&of);
        outs.push(v);
    }
    let _ = std::fs::remove_file(&jf);
    let alive: Vec<&J> = outs.iter().flatten().collect();
    sh.count("child_processes_completed", alive.len() as u64);
    if alive.len() < 2 {
        sh.inconclusive(format!("only {} of {nproc} child processes produced output", alive.len()));
        sh.end();
        return;
    }
    for (ji, job) in jobs.iter().enumerate() {
        // all (process, run) results for this job
        let mut all: Vec<(usize, usize, &J)> = Vec::new();
        for (pi, o) in outs.iter().enumerate() {
            if let Some(o) = o {
                for (ri, r) in o[ji]["runs"].as_array().map(|a| a.iter().collect::<Vec<_>>()).unwrap_or_default().into_iter().enumerate() {
                    all.push((pi, ri, r));
                }
            }
        }
        let Some(first) = all.first().cloned() else { continue };
        sh.count("job_executions_compared", all.len() as u64);
        let text = job["text"].as_str().unwrap_or("");
        let mut bad = false;
        for (pi, ri, r) in &all {
            if r[0] != first.2[0] || r[1] != first.2[1] {
                sh.violation("bytes-differ", format!("STBC bytes of process {pi} run {ri} (hash {} len {}) differ from process {} run {} (hash {} len {})", r[0], r[1], first.0, first.1, first.2[0], first.2[1]), job.clone());
                bad = true;
                break;
            }
            if r[2] != first.2[2] {
                let a = r[2].as_array().cloned().unwrap_or_default();
                let b = first.2[2].as_array().cloned().unwrap_or_default();
                let at = a.iter().zip(b.iter()).position(|(x, y)| x != y).unwrap_or(a.len().min(b.len()));
                let kind = if *pi == first.0 { if *ri == 2 { "thread" } else { "rerun" } } else { "process" };
                sh.violation(format!("trace-differs|across-{kind}"), format!("cycle {at}: digest of process {pi} run {ri} differs from process {} run {}", first.0, first.1), job.clone());
                bad = true;
                break;
            }
        }
        if !bad {
            sh.count("jobs_identical_everywhere", 1);
            let ok_compile = !first.2[0].as_str().unwrap_or("").starts_with("compile-error");
            let interned = text.matches(|c: char| c == '_').count();
            if ok_compile && alive.len() >= 2 && first.2[1].as_u64().unwrap_or(0) > 0 {
                if interned >= 20 {
                    sh.count("jobs_with_20_or_more_names", 1);
                }
                if text.contains("FUNCTION_BLOCK Drv0") {
                    sh.count("jobs_with_sibling_fb_io_bindings", 1);
                }
                if text.contains("PROGRAM Ticker") {
                    sh.count("jobs_with_several_background_programs", 1);
                }
                if text.contains("SIZEOF(Channel)") {
                    sh.count("jobs_with_user_type_layout", 1);
                }
                sh.nontrivial(&fnv(text));
            } else {
                sh.count("jobs_rejected_by_compiler", 1);
            }
            if sh.want_sample() && text.len() < 700 {
                sh.sample(json!({"text": text, "bytes_hash": first.2[0], "digests": first.2[2]}));
            }
        }
    }
    sh.end();
}

/// debug helper: `tpv c05-names <seed>` prints the many-names program and its compile status
pub fn debug_names(seed: u64) {
    let mut g = Rng::new(seed);
    let t = many_names(&mut g);
    println!("{t}");
    match bytecode_bytes_from_source(&t) {
        Ok(b) => println!("OK {} bytes", b.len()),
        Err(e) => println!("ERR {e}"),
    }
    match TestHarness::from_source(&t) {
        Ok(_) => println!("harness OK"),
        Err(e) => println!("harness ERR {e}"),
    }
}
