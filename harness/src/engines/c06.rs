//! C06 — task scheduling follows the IEC task model on every timeline.
//!
//! Differential monitor against a small scheduler model, observed through three channels:
//! runtime events (TaskStart/TaskEnd/TaskOverrun), per-program run/sequence variables written
//! by the generated bodies, and Runtime::task_overrun_count.

use crate::ctx::{catch, panic_sig, Shard};
use crate::rng::Rng;
use serde_json::{json, Value as J};
use trust_runtime::debug::RuntimeEvent;
use trust_runtime::harness::TestHarness;
use trust_runtime::task::TaskConfig;
use trust_runtime::value::{Duration, Value};

const MS: i64 = 1_000_000;

#[derive(Clone, Debug)]
pub struct Task {
    pub name: String,
    pub interval_ms: i64,        // 0 = none
    pub single: Option<usize>,   // index of the BOOL global g<k>
    pub priority: u32,
    pub programs: Vec<usize>,    // indices into Config.programs
    pub fb: bool,                // an FB instance is associated (registered through the API)
}

#[derive(Clone, Debug)]
pub struct Prog {
    pub inst: String,
    /// after running, this program assigns g<k> := stim (when Some)
    pub sets: Option<usize>,
}

#[derive(Clone, Debug)]
pub struct Config {
    pub tasks: Vec<Task>,
    pub programs: Vec<Prog>, // declaration order; programs not referenced by a task are background
    pub nglobals: usize,
    pub g_init: Vec<bool>,
}

#[derive(Clone, Debug)]
pub struct Step {
    pub dt_ns: i64,
    pub set_g: Vec<Option<bool>>, // external writes to g<k> before the cycle
    pub stim: Vec<bool>,          // per program: the value it writes to its `sets` global
    pub restart: u8,              // 1 = warm, 2 = cold restart before this step: the timeline starts again at 0
}

fn text(c: &Config) -> String {
    let mut s = String::from("CONFIGURATION C\nVAR_GLOBAL\n  gseq : DINT;\n");
    for k in 0..c.nglobals {
        s += &format!("  g{k} : BOOL := {};\n", if c.g_init[k] { "TRUE" } else { "FALSE" });
    }
    for (i, _) in c.programs.iter().enumerate() {
        s += &format!("  stim{i} : BOOL;\n");
    }
    s += "END_VAR\n";
    for t in c.tasks.iter().filter(|t| !t.fb) {
        let mut parts = Vec::new();
        if let Some(k) = t.single {
            parts.push(format!("SINGLE := g{k}"));
        }
        if t.interval_ms > 0 || t.single.is_none() {
            parts.push(format!("INTERVAL := T#{}ms", t.interval_ms));
        }
        parts.push(format!("PRIORITY := {}", t.priority));
        s += &format!("TASK {} ({});\n", t.name, parts.join(", "));
    }
    for (i, p) in c.programs.iter().enumerate() {
        match c.tasks.iter().find(|t| t.programs.contains(&i)) {
            Some(t) => s += &format!("PROGRAM {} WITH {} : PT{i};\n", p.inst, t.name),
            None => s += &format!("PROGRAM {} : PT{i};\n", p.inst),
        }
    }
    s += "END_CONFIGURATION\n";
    s += "FUNCTION_BLOCK FBT\nVAR_EXTERNAL gseq : DINT; END_VAR\nVAR runs : DINT; last : DINT; END_VAR\ngseq := gseq + DINT#1;\nruns := runs + DINT#1;\nlast := gseq;\nEND_FUNCTION_BLOCK\n";
    for (i, p) in c.programs.iter().enumerate() {
        let mut ext = String::from("  gseq : DINT;\n");
        ext += &format!("  stim{i} : BOOL;\n");
        let mut body = String::from("gseq := gseq + DINT#1;\nruns := runs + DINT#1;\nlast := gseq;\n");
        if let Some(k) = p.sets {
            ext += &format!("  g{k} : BOOL;\n");
            body += &format!("g{k} := stim{i};\n");
        }
        s += &format!("PROGRAM PT{i}\nVAR_EXTERNAL\n{ext}END_VAR\nVAR runs : DINT; last : DINT; fbi0 : FBT; fbi1 : FBT; fbi2 : FBT; fbi3 : FBT; fbi4 : FBT; fbi5 : FBT; END_VAR\n{body}END_PROGRAM\n");
    }
    s
}

// ------------------------------------------------------------ model

#[derive(Clone, Debug)]
struct TState {
    last_single: bool,
    last_run: i128,
    overruns: u64,
}

#[derive(Clone, Debug, PartialEq, Eq)]
enum Unit {
    Prog(usize),
    Fb(usize), // FB associated with task index
}

struct ModelOut {
    tasks_run: Vec<usize>,
    units: Vec<Unit>,
    overrun_events: Vec<(usize, u64)>,
    multi_due: bool,
}

struct Model {
    ts: Vec<TState>,
    g: Vec<bool>,
    now: i128,
}

impl Model {
    fn new(c: &Config) -> Model {
        Model {
            ts: c.tasks.iter().map(|t| TState { last_single: t.single.map(|k| c.g_init[k]).unwrap_or(false), last_run: 0, overruns: 0 }).collect(),
            g: c.g_init.clone(),
            now: 0,
        }
    }
    fn cycle(&mut self, c: &Config, st: &Step) -> ModelOut {
        self.now += st.dt_ns as i128;
        for (k, v) in st.set_g.iter().enumerate() {
            if let Some(v) = v {
                self.g[k] = *v;
            }
        }
        let mut ready: Vec<(u32, i128, usize)> = Vec::new();
        let mut over = Vec::new();
        for (i, t) in c.tasks.iter().enumerate() {
            let single_now = t.single.map(|k| self.g[k]).unwrap_or(false);
            let s = &mut self.ts[i];
            let event_due = single_now && !s.last_single;
            let interval = t.interval_ms as i128 * MS as i128;
            let elapsed = self.now - s.last_run;
            let periodic_due = interval > 0 && !single_now && elapsed >= interval;
            let mut due: Option<i128> = None;
            if event_due {
                due = Some(self.now);
            }
            if periodic_due {
                let n = elapsed / interval;
                if n > 1 {
                    s.overruns += (n - 1) as u64;
                    over.push((i, (n - 1) as u64));
                }
                let d = s.last_run + interval;
                due = Some(match due {
                    Some(e) if e <= d => e,
                    _ => d,
                });
                s.last_run = self.now;
            }
            s.last_single = single_now;
            if let Some(d) = due {
                ready.push((t.priority, d, i));
            }
        }
        ready.sort();
        let mut units = Vec::new();
        let mut tasks_run = Vec::new();
        for (_, _, i) in &ready {
            tasks_run.push(*i);
            for p in &c.tasks[*i].programs {
                units.push(Unit::Prog(*p));
            }
            if c.tasks[*i].fb {
                units.push(Unit::Fb(*i));
            }
        }
        for (pi, _) in c.programs.iter().enumerate() {
            if !c.tasks.iter().any(|t| t.programs.contains(&pi)) {
                units.push(Unit::Prog(pi));
            }
        }
        // effects of program bodies on SINGLE globals
        for u in &units {
            if let Unit::Prog(pi) = u {
                if let Some(k) = c.programs[*pi].sets {
                    self.g[k] = st.stim[*pi];
                }
            }
        }
        ModelOut { multi_due: ready.len() >= 2, tasks_run, units, overrun_events: over }
    }
}

// ------------------------------------------------------------ execution

fn inst_var(h: &TestHarness, inst: &str, path: &[&str]) -> Option<i64> {
    let st = h.runtime().storage();
    let mut id = match st.get_global(inst) {
        Some(Value::Instance(id)) => *id,
        _ => return None,
    };
    for (i, p) in path.iter().enumerate() {
        match st.get_instance_var(id, p) {
            Some(Value::Instance(n)) if i + 1 < path.len() => id = *n,
            Some(Value::DInt(v)) if i + 1 == path.len() => return Some(*v as i64),
            _ => return None,
        }
    }
    None
}

pub struct Stats {
    cycles: u64,
    multi_due_cycles: u64,
    overruns: u64,
    events_checked: u64,
    restarts: u64,
}

pub fn run_case(c: &Config, steps: &[Step]) -> Result<Stats, (String, String, usize)> {
    let src = text(c);
    let mut h = TestHarness::from_source(&src).map_err(|e| ("compile".to_string(), format!("{e}\n{src}"), 0))?;
    // FB associations go through the public registration API (the ST front end has no syntax for them)
    // tasks with an FB association: re-register is impossible, so FB tasks are created *only* via the API
    let mut api_tasks: Vec<(usize, TaskConfig)> = Vec::new();
    for (ti, t) in c.tasks.iter().enumerate() {
        if t.fb {
            let host = &c.programs[ti % c.programs.len()].inst;
            let pid = match h.runtime().storage().get_global(host) {
                Some(Value::Instance(id)) => *id,
                _ => return Err(("harness".into(), format!("program instance {host} not found"), 0)),
            };
            let r = h.runtime().storage().ref_for_instance(pid, &format!("fbi{ti}")).ok_or(("harness".to_string(), "no fbi ref".to_string(), 0))?;
            api_tasks.push((ti, TaskConfig { name: t.name.clone().into(), interval: Duration::from_nanos(t.interval_ms * MS), single: t.single.map(|k| format!("g{k}").into()), priority: t.priority, programs: vec![], fb_instances: vec![r] }));
        }
    }
    // declared order check: ST tasks first (those without fb), API tasks after, as in the Config (generator guarantees fb tasks are last)
    for (_, tc) in &api_tasks {
        h.runtime_mut().register_task(tc.clone());
    }
    let names: Vec<String> = h.runtime().tasks().iter().map(|t| t.name.to_string()).collect();
    let want: Vec<String> = c.tasks.iter().map(|t| t.name.clone()).collect();
    if names.iter().map(|s| s.to_ascii_uppercase()).collect::<Vec<_>>() != want.iter().map(|s| s.to_ascii_uppercase()).collect::<Vec<_>>() {
        return Err(("harness".into(), format!("task order {names:?} vs {want:?}"), 0));
    }
    let dbg = h.runtime_mut().enable_debug();
    let _ = dbg.drain_runtime_events();
    let mut m = Model::new(c);
    let mut runs: Vec<i64> = vec![0; c.programs.len()];
    let mut fbruns: Vec<i64> = vec![0; c.tasks.len()];
    let mut st = Stats { cycles: 0, multi_due_cycles: 0, overruns: 0, events_checked: 0, restarts: 0 };
    let mut after_restart = false;
    for (si, s) in steps.iter().enumerate() {
        if s.restart != 0 {
            // a restart begins a new timeline: the clock is back at 0, the task memory is as after start-up
            let mode = if s.restart == 1 { trust_runtime::RestartMode::Warm } else { trust_runtime::RestartMode::Cold };
            h.restart(mode).map_err(|x| ("harness".to_string(), format!("cycle {si}: restart: {x:?}"), si))?;
            let _ = dbg.drain_runtime_events();
            m = Model::new(c);
            for (ti, t) in c.tasks.iter().enumerate() {
                // whether the overrun counter survives a restart is not part of the task model: continue from what it shows
                m.ts[ti].overruns = h.runtime().task_overrun_count(&t.name).or_else(|| h.runtime().task_overrun_count(&t.name.to_ascii_uppercase())).unwrap_or(0);
            }
            runs.iter_mut().for_each(|x| *x = 0);
            fbruns.iter_mut().for_each(|x| *x = 0);
            after_restart = true;
            st.restarts += 1;
        }
        let e = |cl: &str, d: String| (cl.to_string(), format!("cycle {si}{}: {d}", if after_restart { " (after a restart)" } else { "" }), si);
        h.advance_time(Duration::from_nanos(s.dt_ns));
        for (k, v) in s.set_g.iter().enumerate() {
            if let Some(v) = v {
                h.set_input(&format!("g{k}"), *v);
            }
        }
        for (i, v) in s.stim.iter().enumerate() {
            h.set_input(&format!("stim{i}"), *v);
        }
        let seq0 = match h.get_output("gseq") {
            Some(Value::DInt(v)) => v as i64,
            o => return Err(e("harness", format!("gseq = {o:?}"))),
        };
        let out = m.cycle(c, s);
        let r = h.cycle();
        if let Some(err) = r.errors.first() {
            return Err(e(&format!("runtime-error|{}", format!("{err:?}").split('(').next().unwrap_or("")), format!("{err:?}")));
        }
        st.cycles += 1;
        st.multi_due_cycles += out.multi_due as u64;
        // channel 2: run counters + sequence numbers written by the bodies
        let mut observed: Vec<(i64, Unit)> = Vec::new();
        for (pi, p) in c.programs.iter().enumerate() {
            let r_now = inst_var(&h, &p.inst, &["runs"]).ok_or_else(|| e("harness", format!("{}.runs unreadable", p.inst)))?;
            let d = r_now - runs[pi];
            runs[pi] = r_now;
            if d > 1 || d < 0 {
                return Err(e("order|ran-more-than-once", format!("program {} ran {d} times in one cycle", p.inst)));
            }
            if d == 1 {
                observed.push((inst_var(&h, &p.inst, &["last"]).unwrap_or(-1), Unit::Prog(pi)));
            }
        }
        for (ti, t) in c.tasks.iter().enumerate() {
            if t.fb {
                let host = &c.programs[ti % c.programs.len()].inst;
                let r_now = inst_var(&h, host, &[&format!("fbi{ti}"), "runs"]).ok_or_else(|| e("harness", "fbi.runs unreadable".into()))?;
                let d = r_now - fbruns[ti];
                fbruns[ti] = r_now;
                if d > 1 || d < 0 {
                    return Err(e("order|ran-more-than-once", format!("FB of task {} ran {d} times in one cycle", t.name)));
                }
                if d == 1 {
                    observed.push((inst_var(&h, host, &[&format!("fbi{ti}"), "last"]).unwrap_or(-1), Unit::Fb(ti)));
                }
            }
        }
        observed.sort_by_key(|x| x.0);
        let obs_units: Vec<Unit> = observed.iter().map(|x| x.1.clone()).collect();
        if obs_units != out.units {
            let name = |u: &Unit| match u {
                Unit::Prog(i) => c.programs[*i].inst.clone(),
                Unit::Fb(i) => format!("fb@{}", c.tasks[*i].name),
            };
            let clause = if obs_units.len() != out.units.len() || { let mut a: Vec<String> = obs_units.iter().map(name).collect(); let mut b: Vec<String> = out.units.iter().map(name).collect(); a.sort(); b.sort(); a != b } { "due-set" } else { "order" };
            return Err(e(&format!("{clause}|executed-sequence"), format!("executed {:?}, model {:?} (time {} ns)", obs_units.iter().map(name).collect::<Vec<_>>(), out.units.iter().map(name).collect::<Vec<_>>(), m.now)));
        }
        let seq1 = match h.get_output("gseq") {
            Some(Value::DInt(v)) => v as i64,
            _ => -1,
        };
        if seq1 - seq0 != out.units.len() as i64 {
            return Err(e("due-set|sequence-counter", format!("gseq advanced by {} with {} units in the model", seq1 - seq0, out.units.len())));
        }
        // channel 1: runtime events
        let evs = dbg.drain_runtime_events();
        let mut started: Vec<String> = Vec::new();
        let mut ended: Vec<String> = Vec::new();
        let mut over: Vec<(String, u64)> = Vec::new();
        for ev in &evs {
            match ev {
                RuntimeEvent::TaskStart { name, .. } => started.push(name.to_string().to_ascii_uppercase()),
                RuntimeEvent::TaskEnd { name, .. } => ended.push(name.to_string().to_ascii_uppercase()),
                RuntimeEvent::TaskOverrun { name, missed, .. } => over.push((name.to_string().to_ascii_uppercase(), *missed)),
                _ => {}
            }
        }
        let want_tasks: Vec<String> = out.tasks_run.iter().map(|i| c.tasks[*i].name.to_ascii_uppercase()).collect();
        st.events_checked += evs.len() as u64;
        if started != want_tasks || ended != want_tasks {
            return Err(e("events|task-start-end", format!("TaskStart {started:?} TaskEnd {ended:?}, model {want_tasks:?}")));
        }
        let want_over: Vec<(String, u64)> = out.overrun_events.iter().map(|(i, n)| (c.tasks[*i].name.to_ascii_uppercase(), *n)).collect();
        if over != want_over {
            return Err(e("overrun|events", format!("TaskOverrun events {over:?}, model {want_over:?}")));
        }
        // channel 3: counters
        for (ti, t) in c.tasks.iter().enumerate() {
            let got = h.runtime().task_overrun_count(&t.name).or_else(|| h.runtime().task_overrun_count(&t.name.to_ascii_uppercase()));
            if got != Some(m.ts[ti].overruns) {
                return Err(e("overrun|count", format!("task {} overrun count {got:?}, model {}", t.name, m.ts[ti].overruns)));
            }
        }
        st.overruns += out.overrun_events.len() as u64;
        // the SINGLE globals must agree with the model (program bodies wrote them)
        for k in 0..c.nglobals {
            if h.get_output(&format!("g{k}")) != Some(Value::Bool(m.g[k])) {
                return Err(e("harness", format!("g{k} differs from the model")));
            }
        }
    }
    Ok(st)
}

// ------------------------------------------------------------ generation

fn gen_config(rng: &mut Rng) -> Config {
    let nglobals = 1 + rng.usize(2);
    let ntasks = 1 + rng.usize(6);
    let nfb = if rng.chance(1, 4) { 1 + rng.usize(2.min(ntasks)) } else { 0 };
    let intervals = [1i64, 3, 10, 10, 4];
    let mut tasks = Vec::new();
    for i in 0..ntasks {
        let fb = i >= ntasks - nfb;
        let event = rng.chance(1, 3);
        tasks.push(Task {
            name: format!("T{i}"),
            interval_ms: if event { 0 } else { *rng.pick(&intervals) },
            single: if event { Some(rng.usize(nglobals)) } else { None },
            priority: rng.below(3) as u32,
            programs: vec![],
            fb,
        });
    }
    // a periodic task with interval 0 and no SINGLE never runs: keep a few of those too
    if rng.chance(1, 8) {
        let i = rng.usize(ntasks);
        if tasks[i].single.is_none() {
            tasks[i].interval_ms = 0;
        }
    }
    let nprog = 1 + rng.usize(6);
    let mut programs = Vec::new();
    for i in 0..nprog {
        programs.push(Prog { inst: format!("I{i}"), sets: if rng.chance(1, 3) { Some(rng.usize(nglobals)) } else { None } });
        // attach to an ST task (not an fb task) or leave as background
        let st_tasks: Vec<usize> = (0..ntasks - nfb).collect();
        if !st_tasks.is_empty() && !rng.chance(1, 4) {
            let t = *rng.pick(&st_tasks);
            tasks[t].programs.push(i);
        }
    }
    Config { tasks, programs, nglobals, g_init: (0..nglobals).map(|_| rng.chance(1, 4)).collect() }
}

fn gen_steps(rng: &mut Rng, c: &Config) -> Vec<Step> {
    let n = 20 + rng.usize(60);
    let mut out = Vec::new();
    for _ in 0..n {
        let iv = c.tasks.iter().map(|t| t.interval_ms).filter(|x| *x > 0).collect::<Vec<_>>();
        let base = if iv.is_empty() { 5 } else { *rng.pick(&iv) } * MS;
        let dt = match rng.below(10) {
            0 => 0,
            1 => MS,
            2 => base - 1,
            3 => base,
            4 => base + 1,
            5 => base * 5 / 2,
            6 => base * 7,
            7 => 1,
            _ => rng.below(12) as i64 * MS,
        };
        out.push(Step {
            dt_ns: dt,
            set_g: (0..c.nglobals).map(|_| if rng.chance(1, 3) { Some(rng.bool()) } else { None }).collect(),
            stim: c.programs.iter().map(|_| rng.bool()).collect(),
            restart: 0,
        });
    }
    // a third of the timelines contain a restart (FB tasks are registered through the API with references a restart invalidates)
    if !c.tasks.iter().any(|t| t.fb) && rng.chance(1, 3) {
        let at = 3 + rng.usize(out.len() - 3);
        out[at].restart = 1 + rng.below(2) as u8;
    }
    out
}

fn case_json(c: &Config, steps: &[Step]) -> J {
    json!({
        "tasks": c.tasks.iter().map(|t| json!([t.name, t.interval_ms, t.single, t.priority, t.programs, t.fb])).collect::<Vec<_>>(),
        "programs": c.programs.iter().map(|p| json!([p.inst, p.sets])).collect::<Vec<_>>(),
        "g_init": c.g_init,
        "steps": steps.iter().map(|s| json!([s.dt_ns, s.set_g, s.stim, s.restart])).collect::<Vec<_>>(),
    })
}

fn parse_case(v: &J) -> (Config, Vec<Step>) {
    let tasks = v["tasks"].as_array().unwrap().iter().map(|t| Task {
        name: t[0].as_str().unwrap().into(),
        interval_ms: t[1].as_i64().unwrap(),
        single: t[2].as_u64().map(|x| x as usize),
        priority: t[3].as_u64().unwrap() as u32,
        programs: t[4].as_array().unwrap().iter().map(|x| x.as_u64().unwrap() as usize).collect(),
        fb: t[5].as_bool().unwrap(),
    }).collect();
    let programs = v["programs"].as_array().unwrap().iter().map(|p| Prog { inst: p[0].as_str().unwrap().into(), sets: p[1].as_u64().map(|x| x as usize) }).collect();
    let g_init: Vec<bool> = v["g_init"].as_array().unwrap().iter().map(|x| x.as_bool().unwrap()).collect();
    let steps = v["steps"].as_array().unwrap().iter().map(|s| Step {
        dt_ns: s[0].as_i64().unwrap(),
        set_g: s[1].as_array().unwrap().iter().map(|x| x.as_bool()).collect(),
        stim: s[2].as_array().unwrap().iter().map(|x| x.as_bool().unwrap()).collect(),
        restart: s[3].as_u64().unwrap_or(0) as u8,
    }).collect();
    (Config { tasks, programs, nglobals: g_init.len(), g_init }, steps)
}

fn shrink(c: &Config, steps: &[Step], sig: &str) -> Vec<Step> {
    let fails = |s: &[Step]| matches!(catch(|| run_case(c, s)), Ok(Err((ref g, _, _))) if g == sig);
    let mut steps = steps.to_vec();
    if let Ok(Err((_, _, at))) = catch(|| run_case(c, &steps)) {
        steps.truncate(at + 1);
    }
    let mut j = 0;
    while steps.len() > 1 && j + 1 < steps.len() {
        // merge step j into j+1 (keep total time) or drop it
        let mut s2 = steps.clone();
        let removed = s2.remove(j);
        s2[j].dt_ns = s2[j].dt_ns.saturating_add(removed.dt_ns);
        if fails(&s2) {
            steps = s2;
        } else {
            j += 1;
        }
    }
    steps
}

fn one(sh: &mut Shard, c: Config, steps: Vec<Step>) {
    let case = case_json(&c, &steps);
    if !sh.begin("sched", &case) {
        return;
    }
    match catch(|| run_case(&c, &steps)) {
        Err(p) => sh.violation(format!("panic|{}", panic_sig(&p)), p, case.clone()),
        Ok(Err((sig, d, _))) => {
            if sig == "compile" || sig == "harness" {
                sh.count("rejected_or_harness", 1);
                sh.inconclusive(format!("{sig}: {}", d.chars().take(400).collect::<String>()));
            } else {
                let s2 = shrink(&c, &steps, &sig);
                let d2 = match catch(|| run_case(&c, &s2)) {
                    Ok(Err((_, d, _))) => d,
                    _ => d,
                };
                sh.violation(sig, d2, case_json(&c, &s2));
            }
        }
        Ok(Ok(st)) => {
            sh.count("cycles_compared", st.cycles);
            sh.count("cycles_with_two_or_more_due_tasks", st.multi_due_cycles);
            sh.count("overrun_events_compared", st.overruns);
            sh.count("runtime_events_checked", st.events_checked);
            sh.count("timelines_with_a_restart", st.restarts);
            if st.multi_due_cycles > 0 || st.overruns > 0 {
                let shape: Vec<String> = c.tasks.iter().map(|t| format!("{}:{:?}:{}:{}:{}", t.interval_ms, t.single, t.priority, t.programs.len(), t.fb)).collect();
                sh.nontrivial(&(shape, steps.len() / 8, st.overruns.min(3)));
            }
            if sh.want_sample() && c.tasks.len() <= 3 && c.programs.len() <= 3 {
                sh.sample(json!({"config": text(&c), "cycles": steps.len()}));
            }
        }
    }
    sh.end();
}

/// Reconfiguration (round e): the task set of a running resource is replaced through the bytecode metadata path
/// (apply_bytecode_bytes, what a hot reload does).  Afterwards the task model applies to the NEW task set: a program that
/// has no task any more runs in every cycle, a program that now has a task runs at most once per cycle and when due.
fn reconfigure(sh: &mut Shard) {
    let progs = "PROGRAM PA\nVAR_EXTERNAL ca : DINT; END_VAR\nca := ca + DINT#1;\nEND_PROGRAM\nPROGRAM PB\nVAR_EXTERNAL cb : DINT; END_VAR\ncb := cb + DINT#1;\nEND_PROGRAM\n";
    let cfg = |body: &str| format!("{progs}CONFIGURATION C\nVAR_GLOBAL ca : DINT; cb : DINT; END_VAR\n{body}END_CONFIGURATION\n");
    let variants: Vec<(&str, String)> = vec![
        ("both-on-task", cfg("TASK T (INTERVAL := T#1ms, PRIORITY := 1);\nPROGRAM A WITH T : PA;\nPROGRAM B WITH T : PB;\n")),
        ("no-task", cfg("PROGRAM A : PA;\nPROGRAM B : PB;\n")),
        ("a-on-task", cfg("TASK T (INTERVAL := T#1ms, PRIORITY := 1);\nPROGRAM A WITH T : PA;\nPROGRAM B : PB;\n")),
        ("b-on-slow-task", cfg("TASK S (INTERVAL := T#100ms, PRIORITY := 1);\nPROGRAM A : PA;\nPROGRAM B WITH S : PB;\n")),
    ];
    let get = |h: &TestHarness, n: &str| match h.get_output(n) {
        Some(Value::DInt(x)) => x as i64,
        _ => -1,
    };
    for (i, (from_name, from_src)) in variants.iter().enumerate() {
        for (j, (to_name, to_src)) in variants.iter().enumerate() {
            if i == j {
                continue;
            }
            let case = json!({"reconfigure": {"from": from_name, "to": to_name}});
            if !sh.begin("reconfigure", &case) {
                continue;
            }
            let res: Result<(), (String, String)> = (|| {
                let mut h = TestHarness::from_source(from_src).map_err(|e| ("compile".to_string(), e.to_string()))?;
                for _ in 0..3 {
                    h.advance_time(Duration::from_nanos(MS));
                    if let Some(e) = h.cycle().errors.first() {
                        return Err(("harness".into(), format!("cycle before the reconfiguration: {e:?}")));
                    }
                }
                let bytes = trust_runtime::harness::bytecode_bytes_from_source(to_src).map_err(|e| ("compile".to_string(), e.to_string()))?;
                h.runtime_mut().apply_bytecode_bytes(&bytes, None).map_err(|e| ("harness".to_string(), format!("apply_bytecode_bytes: {e:?}")))?;
                let (a0, b0) = (get(&h, "ca"), get(&h, "cb"));
                let n = 5i64;
                for k in 0..n {
                    h.advance_time(Duration::from_nanos(MS));
                    if let Some(e) = h.cycle().errors.first() {
                        return Err(("reconfigure|cycle-error".into(), format!("cycle {k} after {from_name} -> {to_name}: {e:?}")));
                    }
                }
                let (da, db) = (get(&h, "ca") - a0, get(&h, "cb") - b0);
                // what the new task set demands over 5 cycles of 1 ms
                let want = |on_task: Option<i64>| -> (i64, i64) {
                    match on_task {
                        None => (n, n),                  // no task: every cycle
                        Some(1) => (n - 2, n),           // 1 ms task: due (almost) every cycle, never twice in one
                        Some(_) => (0, 1),               // 100 ms task: at most once in 5 ms
                    }
                };
                let (ta, tb) = match *to_name {
                    "both-on-task" => (Some(1), Some(1)),
                    "no-task" => (None, None),
                    "a-on-task" => (Some(1), None),
                    _ => (None, Some(100)),
                };
                for (name, d, t) in [("A", da, ta), ("B", db, tb)] {
                    let (lo, hi) = want(t);
                    if d < lo || d > hi {
                        let what = if t.is_none() { "background-program-not-executed-every-cycle" } else { "task-program-executions" };
                        return Err((format!("reconfigure|{what}"), format!("{from_name} -> {to_name}: program instance {name} executed {d} times in {n} cycles of 1 ms, the new task set demands {lo}..{hi}")));
                    }
                }
                Ok(())
            })();
            match res {
                Ok(()) => {
                    sh.count("reconfigurations_checked", 1);
                    sh.nontrivial(&("reconfigure", *from_name, *to_name));
                }
                Err((sig, d)) if sig == "compile" || sig == "harness" => sh.inconclusive(format!("reconfigure {from_name}->{to_name}: {sig}: {d}")),
                Err((sig, d)) => sh.violation(sig, d, case.clone()),
            }
            sh.end();
        }
    }
}

pub fn run(sh: &mut Shard) {
    if let Some(path) = sh.args.replay.clone() {
        let v: J = serde_json::from_str(&std::fs::read_to_string(path).expect("replay")).expect("json");
        let r = if v.get("replay").is_some() { v["replay"].clone() } else { v };
        let r = if r.get("case").is_some() { r["case"].clone() } else { r };
        let (c, s) = parse_case(&r);
        one(sh, c, s);
        return;
    }
    let rng = Rng::new(sh.args.shard_seed());
    if sh.args.shard == 0 {
        reconfigure(sh);
    }
    let mut i = 0u64;
    while sh.time_left() {
        i += 1;
        let mut r = rng.fork(i);
        let c = gen_config(&mut r);
        let s = gen_steps(&mut r, &c);
        one(sh, c, s);
    }
}
