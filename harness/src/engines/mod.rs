use crate::ctx::Shard;

pub mod c01;
pub mod c02cells;
pub mod c04;
pub mod c05;
pub mod c06;
pub mod c07;
pub mod c08;
pub mod c09;
pub mod c10;
pub mod c11;
pub mod c12;
pub mod c13;
pub mod c14;
pub mod c15;
pub mod c16;
pub mod c17;
pub mod c17dap;
pub mod c18;
pub mod c19;
pub mod c20;

pub fn dispatch(engine: &str, sh: &mut Shard) -> bool {
    match engine {
        "c01" => c01::run(sh),
        "c04" => c04::run(sh),
        "c05" => c05::run(sh),
        "c06" => c06::run(sh),
        "c07" => c07::run(sh),
        "c08" => c08::run(sh),
        "c09" => c09::run(sh),
        "c10" => c10::run(sh),
        "c11" => c11::run(sh),
        "c12" => c12::run(sh),
        "c13" => c13::run(sh),
        "c14" => c14::run(sh),
        "c15" => c15::run(sh),
        "c16" => c16::run(sh),
        "c17" => c17::run(sh),
        "c18" => c18::run(sh),
        "c19" => c19::run(sh),
        "c20" => c20::run(sh),
        _ => return false,
    }
    true
}
