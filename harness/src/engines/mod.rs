use crate::ctx::Shard;

pub mod c12;

pub fn dispatch(engine: &str, sh: &mut Shard) -> bool {
    match engine {
        "c12" => c12::run(sh),
        _ => return false,
    }
    true
}
