//! C17 — the debugger is transparent and never wedges the runtime.
//!
//! A cycle thread executes K cycles of a program with nested calls, loops and several tasks under
//! the real DebugControl hook while a controller thread issues random debugger commands with random
//! delays.  Observation: the product's own trace log (ST_DEBUG_TRACE, written while the debug mutex
//! is held, so line order is state order), the stop channel, per-cycle state digests.
//! Offline oracle over the log: stops and waits form episodes (one stop per episode, stop location =
//! visited statement), every resume applied during an episode is followed by progress, step
//! over/out never stop deeper than their origin, step in stops at the very next statement; digests
//! equal an undebugged run; after the script a janitor keeps continuing and the cycle thread must end.

use crate::ctx::{catch, fnv, panic_sig, Shard};
use crate::rng::Rng;
use crate::walk;
use serde_json::{json, Value as J};
use std::io::{Read, Seek, SeekFrom};
use std::sync::atomic::{AtomicBool, AtomicU64, Ordering};
use std::sync::{Arc, Mutex};
use trust_runtime::debug::{ControlAction, DebugBreakpoint, SourceLocation};
use trust_runtime::harness::TestHarness;
use trust_runtime::value::Duration;

const PROGRAM: &str = r#"
FUNCTION Leaf : DINT
VAR_INPUT a : DINT; END_VAR
VAR t : DINT; END_VAR
t := a * DINT#2;
Leaf := t + DINT#1;
END_FUNCTION

FUNCTION Bump : DINT
VAR_IN_OUT v : DINT; END_VAR
v := v + DINT#1;
Bump := v;
END_FUNCTION

FUNCTION Mid : DINT
VAR_INPUT a : DINT; END_VAR
VAR i : DINT; s : DINT; END_VAR
FOR i := DINT#0 TO DINT#2 DO
  s := s + Leaf(a := a + i);
END_FOR;
Mid := s;
END_FUNCTION

FUNCTION_BLOCK Worker
VAR_INPUT x : DINT; END_VAR
VAR_OUTPUT y : DINT; END_VAR
VAR n : DINT; END_VAR
n := n + DINT#1;
y := Mid(a := x) + n;
IF y > DINT#100000 THEN
  y := DINT#0;
END_IF;
END_FUNCTION_BLOCK

PROGRAM Main
VAR w : Worker; total : DINT; k : DINT; END_VAR
VAR_EXTERNAL shared : DINT; END_VAR
w(x := total);
total := total + w.y;
WHILE k < DINT#2 DO
  k := k + DINT#1;
  total := total + Leaf(a := k);
END_WHILE;
k := DINT#0;
shared := shared + DINT#1;
END_PROGRAM

PROGRAM Second
VAR c : DINT; END_VAR
VAR_EXTERNAL shared : DINT; END_VAR
c := c + Leaf(a := shared);
shared := shared + DINT#10;
END_PROGRAM

PROGRAM Background
VAR b : DINT; END_VAR
b := b + DINT#1;
b := Mid(a := b);
END_PROGRAM

CONFIGURATION C
VAR_GLOBAL shared : DINT; gd : DATE := DATE#2024-03-15; gy : INT; gm : INT; gdd : INT; END_VAR
TASK T1 (INTERVAL := T#1ms, PRIORITY := 1);
TASK T2 (INTERVAL := T#2ms, PRIORITY := 2);
PROGRAM P1 WITH T1 : Main;
PROGRAM P2 WITH T2 : Second;
PROGRAM P3 : Background;
END_CONFIGURATION
"#;

#[derive(Clone, Debug)]
pub enum Cmd {
    Pause(Option<u32>),
    Continue,
    StepIn(Option<u32>),
    StepOver(Option<u32>),
    StepOut(Option<u32>),
    SetBps(Vec<usize>), // indices into the statement location list
    /// (location index, expression index in DEBUG_EXPRS, as logpoint): conditional breakpoints and logpoints whose
    /// expressions go through the product's own filter (parse_debug_expression); what it refuses is not set
    SetCondBps(Vec<(usize, usize, bool)>),
    ClearBps,
    Sleep(u64), // microseconds
    Yield,
}

/// Conditions / log expressions: pure ones (some never true, some sometimes true), and ones that call the user function
/// `Bump`, which writes through its VAR_IN_OUT argument - directly, nested in or following an allowed pure call.
/// Evaluating any accepted expression must leave the program's state sequence as it is.
pub const DEBUG_EXPRS: [&str; 14] = [
    "SPLIT_DATE(gd, gy, gm, gdd)",
    "ABS(shared) < DINT#0 AND SPLIT_DATE(gd, gy, gm, gdd)",
    "shared < DINT#0",
    "shared > DINT#40",
    "ABS(shared) < DINT#0",
    "MAX(shared, DINT#3) = DINT#3",
    "(shared MOD DINT#7) = DINT#0",
    "Bump(shared) < DINT#0",
    "ABS(Bump(shared)) < DINT#0",
    "MAX(ABS(shared), Bump(shared)) < DINT#0",
    "shared + Bump(shared) < DINT#0",
    "SEL(FALSE, ABS(shared), Bump(shared)) < DINT#0",
    "Leaf(a := shared) < DINT#0",
    "ABS(shared) + Leaf(a := Bump(shared)) < DINT#0",
];

fn gen_script(rng: &mut Rng, nlocs: usize) -> Vec<Cmd> {
    let span = if rng.chance(1, 6) { 196 } else { 40 };
    let n = 5 + rng.usize(span);
    let tid = |rng: &mut Rng| if rng.chance(1, 4) { Some(1 + rng.below(3) as u32) } else { None };
    (0..n)
        .map(|_| match rng.below(16) {
            0 | 1 => Cmd::Pause(tid(rng)),
            2 | 3 | 4 => Cmd::Continue,
            5 | 6 => Cmd::StepIn(tid(rng)),
            7 | 8 => Cmd::StepOver(tid(rng)),
            9 => Cmd::StepOut(tid(rng)),
            10 => Cmd::SetBps((0..1 + rng.usize(3)).map(|_| rng.usize(nlocs.max(1))).collect()),
            11 => Cmd::SetCondBps((0..1 + rng.usize(3)).map(|_| (rng.usize(nlocs.max(1)), rng.usize(DEBUG_EXPRS.len()), rng.chance(1, 3))).collect()),
            12 => Cmd::ClearBps,
            13 => Cmd::Yield,
            _ => {
                let us = *rng.pick(&[1u64, 5, 20, 100, 300, 1000]);
                Cmd::Sleep(us)
            }
        })
        .collect()
}

fn reference_digests(cycles: usize) -> Result<Vec<u64>, String> {
    let mut h = TestHarness::from_source(PROGRAM).map_err(|e| e.to_string())?;
    let mut v = Vec::new();
    for _ in 0..cycles {
        h.advance_time(Duration::from_millis(1));
        let r = h.cycle();
        v.push(fnv(&(walk::snapshot(h.runtime().storage()), format!("{:?}", r.errors))));
    }
    Ok(v)
}

// ------------------------------------------------------------------ trace events

#[derive(Clone, Debug)]
#[allow(dead_code)]
enum Ev {
    Enter { seq: u64, loc: String, depth: u32, thread: String },
    Stop { reason: String, loc: String },
    WaitBegin,
    WaitEnd { mode: String },
    Exit,
    Action { action: String, outcome: String, from: String, to: String },
    Breakpoints(String),
}

fn field<'a>(line: &'a str, key: &str) -> Option<&'a str> {
    let i = line.find(key)? + key.len();
    let rest = &line[i..];
    let end = rest.find(' ').unwrap_or(rest.len());
    Some(&rest[..end])
}

fn parse_trace(text: &str) -> (Vec<Ev>, u64) {
    let mut evs = Vec::new();
    let mut seq = 0u64;
    let mut unknown = 0u64;
    for line in text.lines() {
        let Some(msg) = line.strip_prefix("## [trust-runtime][debug] ") else { continue };
        if msg.starts_with("hook.entry ") {
            seq += 1;
            evs.push(Ev::Enter { seq, loc: field(msg, "location=").unwrap_or("").to_string(), depth: field(msg, "depth=").and_then(|d| d.parse().ok()).unwrap_or(0), thread: field(msg, "current_thread=").unwrap_or("").to_string() });
        } else if msg.starts_with("stop reason=") {
            // location=Some(SourceLocation { file_id: 0, start: 10, end: 20 })
            let reason = field(msg, "reason=").unwrap_or("").to_string();
            let loc = match (msg.find("file_id: "), msg.find("start: "), msg.find("end: ")) {
                (Some(a), Some(b), Some(c)) => {
                    let num = |i: usize, k: usize| msg[i + k..].chars().take_while(|c| c.is_ascii_digit()).collect::<String>();
                    format!("{}:{}..{}", num(a, 9), num(b, 7), num(c, 5))
                }
                _ => "<none>".to_string(),
            };
            evs.push(Ev::Stop { reason, loc });
        } else if msg.starts_with("hook.wait ") {
            evs.push(Ev::WaitBegin);
        } else if msg.starts_with("hook.wake ") {
            evs.push(Ev::WaitEnd { mode: field(msg, "mode=").unwrap_or("").to_string() });
        } else if msg.starts_with("hook.exit ") {
            evs.push(Ev::Exit);
        } else if msg.starts_with("action=") {
            let action = msg[7..].split(" outcome=").next().unwrap_or("").to_string();
            let outcome = field(msg, "outcome=").unwrap_or("").to_string();
            let m = field(msg, "mode=").unwrap_or("");
            let (from, to) = m.split_once("->").unwrap_or((m, m));
            evs.push(Ev::Action { action, outcome, from: from.to_string(), to: to.to_string() });
        } else if msg.starts_with("breakpoints.") {
            evs.push(Ev::Breakpoints(msg.split(' ').next().unwrap_or("").to_string()));
        } else if msg.starts_with("hook.") {
            // decision / step.arm / step.check / breakpoint.check / pending_stop.consume / pause.enter: informative
        } else {
            unknown += 1;
        }
    }
    (evs, unknown)
}

pub struct Verdict {
    pub stops: u64,
    pub episodes: u64,
    pub resumes_in_episode: u64,
    pub step_checks: u64,
    pub fingerprint: Vec<(String, u64)>,
}

/// The offline oracle over one run's ordered event list.
fn check_trace(evs: &[Ev]) -> Result<Verdict, (String, String)> {
    let mut v = Verdict { stops: 0, episodes: 0, resumes_in_episode: 0, step_checks: 0, fingerprint: Vec::new() };
    let mut cur: Option<(u64, String, u32, String)> = None; // current visit: seq, loc, depth, thread
    let mut in_episode = false; // a stop was emitted and not yet resumed
    let mut pending_step: Option<(String, u64, u32, String, u64)> = None; // (kind, origin seq, origin depth, origin thread, visits by that thread since) issued during an episode
    let mut resume_wants_progress: Option<usize> = None;
    // which request can justify a stop: indices of the last Continue / Step* / Pause actions and breakpoint set / clear events
    let (mut last_continue, mut last_step, mut last_pause, mut last_bp_set, mut last_bp_clear) = (None::<usize>, None::<usize>, None::<usize>, None::<usize>, None::<usize>);
    for (i, e) in evs.iter().enumerate() {
        match e {
            Ev::Enter { seq, loc, depth, thread } => {
                if in_episode {
                    return Err(("stop|statement-executed-while-stopped".into(), format!("event {i}: a new statement visit (seq {seq}) began while a stop episode was open (no resume in between)")));
                }
                cur = Some((*seq, loc.clone(), *depth, thread.clone()));
                if let Some(p) = pending_step.as_mut() {
                    if p.3 == *thread {
                        p.4 += 1;
                    }
                }
                if resume_wants_progress.is_some() {
                    resume_wants_progress = None;
                }
            }
            Ev::Stop { reason, loc } => {
                v.stops += 1;
                let Some((seq, cloc, depth, thread)) = cur.clone() else {
                    return Err(("stop|outside-visit".into(), format!("event {i}: stop {reason} outside any statement visit")));
                };
                if in_episode {
                    return Err(("stop|duplicate-notification".into(), format!("event {i}: second stop ({reason}) at seq {seq} without a resume since the previous one")));
                }
                if *loc != cloc {
                    return Err(("stop|wrong-location".into(), format!("event {i}: stop {reason} reports location {loc}, the visited statement is {cloc}")));
                }
                // every stop is asked for: a step stop needs a step request that no later continue cancelled, a pause stop a
                // pause request that no later continue / step cancelled, a breakpoint stop breakpoints that were not cleared since
                let justified = match reason.as_str() {
                    "Step" => last_step.is_some() && last_step > last_continue,
                    "Pause" => last_pause.is_some() && last_pause > last_continue && last_pause > last_step,
                    "Breakpoint" => last_bp_set.is_some() && last_bp_set > last_bp_clear,
                    _ => true,
                };
                if !justified {
                    return Err((format!("stop|not-requested|{reason}"), format!("event {i}: stop {reason} at seq {seq}, but the last request of that kind (step {last_step:?}, pause {last_pause:?}, breakpoints set {last_bp_set:?}) was cancelled by a later one (continue {last_continue:?}, clear {last_bp_clear:?})")));
                }
                in_episode = true;
                v.episodes += 1;
                resume_wants_progress = None;
                if reason == "Step" {
                    if let Some((kind, oseq, odepth, othread, visits)) = pending_step.take() {
                        // only judged when the stop is on the thread the step was issued from
                        if othread == thread {
                            v.step_checks += 1;
                            match kind.as_str() {
                                "StepIn" => {
                                    if visits != 1 {
                                        return Err(("step|step-in-not-next-statement".into(), format!("StepIn issued at seq {oseq} stopped at seq {seq}, which is statement visit number {visits} of that thread after the origin")));
                                    }
                                }
                                "StepOver" => {
                                    if depth > odepth {
                                        return Err(("step|step-over-stopped-deeper".into(), format!("StepOver issued at depth {odepth} (seq {oseq}) stopped at depth {depth} (seq {seq})")));
                                    }
                                }
                                _ => {
                                    if depth > odepth {
                                        return Err(("step|step-out-stopped-deeper".into(), format!("StepOut issued at depth {odepth} (seq {oseq}) stopped at depth {depth} (seq {seq})")));
                                    }
                                }
                            }
                        }
                    }
                } else {
                    pending_step = None;
                }
            }
            Ev::WaitBegin => {
                if !in_episode {
                    let (seq, loc, ..) = cur.clone().unwrap_or((0, "?".into(), 0, String::new()));
                    return Err(("stop|wait-without-notification".into(), format!("event {i}: the cycle thread blocks at seq {seq} ({loc}) but no stop notification was produced for this pause")));
                }
            }
            Ev::WaitEnd { .. } => {}
            Ev::Breakpoints(what) => {
                if what.ends_with("clear") {
                    last_bp_clear = Some(i);
                } else {
                    last_bp_set = Some(i);
                }
                let land = cur.as_ref().map(|c| c.0).unwrap_or(0);
                v.fingerprint.push((what.clone(), land));
            }
            Ev::Exit => {
                if in_episode {
                    return Err(("stop|left-hook-while-stopped".into(), format!("event {i}: hook exited although the stop episode was never resumed")));
                }
                resume_wants_progress = None;
            }
            Ev::Action { action, outcome, from, to } => {
                if action.starts_with("Continue") {
                    last_continue = Some(i);
                } else if action.starts_with("Step") {
                    last_step = Some(i);
                } else if action.starts_with("Pause") && outcome != "Ignored" {
                    last_pause = Some(i);
                }
                let land = cur.as_ref().map(|c| c.0).unwrap_or(0);
                v.fingerprint.push((action.split('(').next().unwrap_or(action).to_string(), land));
                let resumes = to == "Running" && (action.starts_with("Continue") || action.starts_with("Step"));
                if in_episode && resumes {
                    v.resumes_in_episode += 1;
                    in_episode = false;
                    resume_wants_progress = Some(i);
                    if let Some((seq, _, depth, thread)) = cur.clone() {
                        let kind = action.split('(').next().unwrap_or("").to_string();
                        // per-thread variants: judged only when aimed at the stopped thread (or None)
                        let aimed_here = action.contains("(None)") || (thread != "None" && action.contains(thread.as_str()));
                        pending_step = if kind.starts_with("Step") && aimed_here { Some((kind, seq, depth, thread, 0)) } else { None };
                    }
                } else if in_episode && from == "Paused" && to == "Paused" && outcome != "Ignored" && action.starts_with("Pause") {
                    // Pause while paused must be ignored
                    return Err(("action|pause-while-paused-not-ignored".into(), format!("event {i}: {action} while paused had outcome {outcome}")));
                } else if !in_episode && outcome != "Ignored" {
                    pending_step = None; // any command applied while running replaces or clears the step request
                }
            }
        }
    }
    if let Some(i) = resume_wants_progress {
        return Err(("progress|resume-without-progress".into(), format!("event {i}: a resume action was applied while stopped but the log ends without the hook waking up and exiting or stopping again")));
    }
    if in_episode {
        return Err(("progress|run-ended-while-stopped".into(), "the log ends inside an open stop episode".into()));
    }
    Ok(v)
}

pub struct RunOut {
    pub digests: Vec<u64>,
    pub finished: bool,
    pub trace: String,
    pub stops_received: u64,
    pub stuck: Option<String>,
    pub cond_accepted: u64,
    pub cond_refused: u64,
}

fn run_once(script: &[Cmd], cycles: usize, trace_path: &std::path::Path, seed: u64) -> Result<RunOut, String> {
    let mut h = TestHarness::from_source(PROGRAM).map_err(|e| e.to_string())?;
    let dbg = h.runtime_mut().enable_debug();
    let locs: Vec<SourceLocation> = h.runtime().statement_locations(0).map(|l| l.to_vec()).unwrap_or_default();
    let registry = h.runtime().registry().clone();
    let (cond_accepted, cond_refused) = (AtomicU64::new(0), AtomicU64::new(0));
    let (stx, srx) = std::sync::mpsc::channel();
    dbg.set_stop_sender(stx);
    let offset = std::fs::metadata(trace_path).map(|m| m.len()).unwrap_or(0);
    let digests = Arc::new(Mutex::new(Vec::new()));
    let done = Arc::new(AtomicBool::new(false));
    let progress = Arc::new(AtomicU64::new(0));
    let (d2, done2, p2) = (digests.clone(), done.clone(), progress.clone());
    let cyc = std::thread::Builder::new()
        .stack_size(2 * 1024 * 1024)
        .spawn(move || {
            for _ in 0..cycles {
                h.advance_time(Duration::from_millis(1));
                let r = h.cycle();
                d2.lock().unwrap().push(fnv(&(walk::snapshot(h.runtime().storage()), format!("{:?}", r.errors))));
                p2.fetch_add(1, Ordering::SeqCst);
            }
            done2.store(true, Ordering::SeqCst);
        })
        .map_err(|e| e.to_string())?;
    let mut r = Rng::new(seed);
    let mut stuck: Option<String> = None;
    let trace_len = || std::fs::metadata(trace_path).map(|m| m.len()).unwrap_or(0);
    for c in script {
        if done.load(Ordering::SeqCst) {
            break;
        }
        let resumes = matches!(c, Cmd::Continue | Cmd::StepIn(_) | Cmd::StepOver(_) | Cmd::StepOut(_));
        let await_progress = resumes && r.chance(1, 2);
        let mark = if await_progress { trace_len() } else { 0 };
        match c {
            Cmd::Pause(t) => {
                dbg.apply_action(ControlAction::Pause(*t));
            }
            Cmd::Continue => {
                dbg.apply_action(ControlAction::Continue);
            }
            Cmd::StepIn(t) => {
                dbg.apply_action(ControlAction::StepIn(*t));
            }
            Cmd::StepOver(t) => {
                dbg.apply_action(ControlAction::StepOver(*t));
            }
            Cmd::StepOut(t) => {
                dbg.apply_action(ControlAction::StepOut(*t));
            }
            Cmd::SetBps(ix) => {
                let bps: Vec<DebugBreakpoint> = ix.iter().filter_map(|i| locs.get(*i % locs.len().max(1))).map(|l| DebugBreakpoint::new(*l)).collect();
                dbg.set_breakpoints_for_file(0, bps);
            }
            Cmd::SetCondBps(v) => {
                let mut bps = Vec::new();
                for (i, e, log) in v {
                    let Some(l) = locs.get(*i % locs.len().max(1)) else { continue };
                    let mut reg = registry.clone();
                    let Ok(expr) = trust_runtime::harness::parse_debug_expression(DEBUG_EXPRS[*e % DEBUG_EXPRS.len()], &mut reg, Default::default(), &[]) else {
                        cond_refused.fetch_add(1, Ordering::Relaxed);
                        continue;
                    };
                    cond_accepted.fetch_add(1, Ordering::Relaxed);
                    let mut bp = DebugBreakpoint::new(*l);
                    if *log {
                        bp.log_message = Some(vec![trust_runtime::debug::LogFragment::Text("v=".into()), trust_runtime::debug::LogFragment::Expr(expr)]);
                    } else {
                        bp.condition = Some(expr);
                    }
                    bps.push(bp);
                }
                dbg.set_breakpoints_for_file(0, bps);
            }
            Cmd::ClearBps => dbg.clear_breakpoints(),
            Cmd::Sleep(us) => std::thread::sleep(std::time::Duration::from_micros(*us)),
            Cmd::Yield => std::thread::yield_now(),
        }
        if await_progress {
            // after a continue/step the mode is Running: the cycle thread must write a hook line after the
            // action's own line (wake-up, exit, next statement) or finish.  3 s without one is a lost wake-up.
            let t = std::time::Instant::now();
            loop {
                if done.load(Ordering::SeqCst) || progressed_after_action(trace_path, mark) {
                    break;
                }
                if t.elapsed().as_millis() > 3000 {
                    let at = std::fs::read_to_string(trace_path).unwrap_or_default();
                    let tail: Vec<&str> = at.lines().rev().take(10).collect();
                    stuck = Some(format!("{c:?}; trace tail when the wait was abandoned:\n{}", tail.into_iter().rev().collect::<Vec<_>>().join("\n")));
                    break;
                }
                std::thread::yield_now();
            }
            if stuck.is_some() {
                break;
            }
        } else if r.chance(1, 3) {
            std::thread::yield_now();
        }
    }
    // janitor: a correct implementation always finishes under repeated clear + continue
    let t0 = std::time::Instant::now();
    let mut last_progress = (progress.load(Ordering::SeqCst), std::fs::metadata(trace_path).map(|m| m.len()).unwrap_or(0), std::time::Instant::now());
    let mut finished = true;
    while !done.load(Ordering::SeqCst) {
        dbg.clear_breakpoints();
        dbg.apply_action(ControlAction::Continue);
        std::thread::sleep(std::time::Duration::from_millis(1));
        let now = (progress.load(Ordering::SeqCst), std::fs::metadata(trace_path).map(|m| m.len()).unwrap_or(0));
        if now.0 != last_progress.0 {
            last_progress = (now.0, now.1, std::time::Instant::now());
        }
        // no completed cycle for 5 s while we keep continuing: wedged (the trace shows whether it still moves)
        if last_progress.2.elapsed().as_secs() >= 5 || t0.elapsed().as_secs() > 60 {
            finished = false;
            break;
        }
    }
    if finished {
        let _ = cyc.join();
    }
    let mut stops_received = 0;
    while srx.try_recv().is_ok() {
        stops_received += 1;
    }
    let mut f = std::fs::File::open(trace_path).map_err(|e| e.to_string())?;
    f.seek(SeekFrom::Start(offset)).map_err(|e| e.to_string())?;
    let mut trace = String::new();
    f.read_to_string(&mut trace).map_err(|e| e.to_string())?;
    let d = digests.lock().unwrap().clone();
    Ok(RunOut { digests: d, finished, trace, stops_received, stuck, cond_accepted: cond_accepted.load(Ordering::Relaxed), cond_refused: cond_refused.load(Ordering::Relaxed) })
}

/// true once the trace, read from `mark` (taken before the command was applied), shows a hook line after the first action line
fn progressed_after_action(trace_path: &std::path::Path, mark: u64) -> bool {
    let Ok(mut f) = std::fs::File::open(trace_path) else { return false };
    if f.seek(SeekFrom::Start(mark)).is_err() {
        return false;
    }
    let mut buf = Vec::new();
    if f.read_to_end(&mut buf).is_err() {
        return false;
    }
    let text = String::from_utf8_lossy(&buf);
    match text.find("] action=") {
        Some(i) => text[i..].contains("] hook.") || text[i..].contains("] stop "),
        None => false,
    }
}

fn script_json(s: &[Cmd]) -> J {
    json!(s
        .iter()
        .map(|c| match c {
            Cmd::Pause(t) => json!(["pause", t]),
            Cmd::Continue => json!(["continue"]),
            Cmd::StepIn(t) => json!(["in", t]),
            Cmd::StepOver(t) => json!(["over", t]),
            Cmd::StepOut(t) => json!(["out", t]),
            Cmd::SetBps(v) => json!(["bps", v]),
            Cmd::SetCondBps(v) => json!(["condbps", v.iter().map(|(a, b, c)| json!([a, b, c])).collect::<Vec<_>>()]),
            Cmd::ClearBps => json!(["clear"]),
            Cmd::Sleep(u) => json!(["sleep", u]),
            Cmd::Yield => json!(["yield"]),
        })
        .collect::<Vec<_>>())
}
fn parse_script(v: &J) -> Vec<Cmd> {
    v.as_array()
        .map(|a| {
            a.iter()
                .map(|c| {
                    let t = || c[1].as_u64().map(|x| x as u32);
                    match c[0].as_str().unwrap_or("") {
                        "pause" => Cmd::Pause(t()),
                        "continue" => Cmd::Continue,
                        "in" => Cmd::StepIn(t()),
                        "over" => Cmd::StepOver(t()),
                        "out" => Cmd::StepOut(t()),
                        "bps" => Cmd::SetBps(c[1].as_array().map(|x| x.iter().map(|i| i.as_u64().unwrap_or(0) as usize).collect()).unwrap_or_default()),
                        "condbps" => Cmd::SetCondBps(c[1].as_array().map(|x| x.iter().map(|t| (t[0].as_u64().unwrap_or(0) as usize, t[1].as_u64().unwrap_or(0) as usize, t[2].as_bool().unwrap_or(false))).collect()).unwrap_or_default()),
                        "clear" => Cmd::ClearBps,
                        "sleep" => Cmd::Sleep(c[1].as_u64().unwrap_or(1)),
                        _ => Cmd::Yield,
                    }
                })
                .collect()
        })
        .unwrap_or_default()
}

fn one(sh: &mut Shard, script: Vec<Cmd>, cycles: usize, reference: &[u64], trace_path: &std::path::Path, seed: u64) -> bool {
    let case = json!({"cycles": cycles, "seed": seed.to_string(), "script": script_json(&script)});
    if !sh.begin("script", &case) {
        return true;
    }
    let mut alive = true;
    match catch(|| run_once(&script, cycles, trace_path, seed)) {
        Err(p) => sh.violation(format!("panic|{}", panic_sig(&p)), p, case.clone()),
        Ok(Err(e)) => sh.inconclusive(e),
        Ok(Ok(out)) => {
            let (evs, unknown) = parse_trace(&out.trace);
            let tail: String = out.trace.lines().rev().take(12).collect::<Vec<_>>().into_iter().rev().collect::<Vec<_>>().join("\n");
            if !out.finished {
                // the janitor kept continuing for 5 s without a completed cycle
                sh.violation("deadlock|cycle-thread-wedged", format!("cycle thread did not finish although breakpoints were cleared and Continue was applied every millisecond for 5 s; last trace lines:\n{tail}"), case.clone());
                alive = false; // a wedged thread still holds this process' debug state: stop this shard
            } else if let Some(cmd) = &out.stuck {
                sh.violation("progress|resume-did-not-unblock", format!("after {cmd} the mode is Running but the cycle thread produced no trace line for 3 s (it finished only after a later Continue); last trace lines:\n{tail}"), case.clone());
            } else if evs.is_empty() {
                sh.inconclusive("no trace lines recorded (ST_DEBUG_TRACE not effective?)");
            } else {
                if unknown > 0 {
                    sh.count("unparsed_trace_lines", unknown);
                }
                match check_trace(&evs) {
                    Err((sig, d)) => sh.violation(sig, format!("{d}\nlast trace lines:\n{tail}"), case.clone()),
                    Ok(v) => {
                        sh.count("trace_events_checked", evs.len() as u64);
                        sh.count("debug_expressions_accepted_and_attached", out.cond_accepted);
                        sh.count("debug_expressions_refused_by_the_purity_filter", out.cond_refused);
                        sh.count("stops", v.stops);
                        sh.count("resume_actions_while_stopped", v.resumes_in_episode);
                        sh.count("step_semantics_checked", v.step_checks);
                        if out.stops_received != v.stops {
                            sh.violation("stop|channel-count-differs", format!("{} stop notifications on the channel, {} stop lines in the log", out.stops_received, v.stops), case.clone());
                        }
                        if v.stops >= 1 && v.resumes_in_episode >= 1 {
                            sh.nontrivial(&v.fingerprint);
                        }
                    }
                }
                // transparency
                if out.digests.len() != reference.len() || out.digests != reference {
                    let at = out.digests.iter().zip(reference.iter()).position(|(a, b)| a != b).unwrap_or(out.digests.len().min(reference.len()));
                    sh.violation("transparency|state-differs", format!("cycle {at}: state under the debugger differs from the undebugged run (no value was written)"), case.clone());
                } else {
                    sh.count("cycles_compared_with_undebugged_run", reference.len() as u64);
                }
                if sh.want_sample() && script.len() < 12 {
                    sh.sample(case.clone());
                }
            }
        }
    }
    sh.end();
    alive
}

// ------------------------------------------------------------------ part C: writes and forces act at cycle boundaries only

/// A debugger write is applied at the start of the next cycle, a force at the start and at the end of every cycle while it is
/// active, and at no other point.  Executable model: the *undebugged* runtime with the variable set through the harness at exactly
/// those boundaries; everything in between is the real interpreter, so a force re-applied between tasks or a write applied
/// mid-cycle shows as a different digest.
fn part_c(sh: &mut Shard, rng: &mut Rng, trials: usize) {
    use trust_runtime::value::Value;
    for t in 0..trials {
        let seed = rng.next();
        let mut r = Rng::new(seed);
        let cycles = 4 + r.usize(8);
        // boundary b = before cycle b; commands: 0 = queued write, 1 = force, 2 = release
        let mut cmds: Vec<(usize, u8, i32)> = (0..1 + r.usize(4)).map(|_| (r.usize(cycles), r.below(3) as u8, r.range(-5, 1000) as i32)).collect();
        cmds.sort();
        let case = json!({"part": "C", "cycles": cycles, "cmds": cmds});
        if !sh.begin("write-force", &case) {
            continue;
        }
        let cmds2 = cmds.clone();
        let res = catch(move || -> Result<(Vec<u64>, Vec<u64>), String> {
            let mut x = TestHarness::from_source(PROGRAM).map_err(|e| e.to_string())?;
            let dbg = x.runtime_mut().enable_debug();
            let mut m = TestHarness::from_source(PROGRAM).map_err(|e| e.to_string())?;
            let (mut dx, mut dm) = (Vec::new(), Vec::new());
            let mut forced: Option<i32> = None;
            for c in 0..cycles {
                for (_, k, v) in cmds2.iter().filter(|(b, _, _)| *b == c) {
                    match k {
                        0 => {
                            dbg.enqueue_global_write("shared", Value::DInt(*v));
                            m.set_input("shared", Value::DInt(*v));
                        }
                        1 => {
                            dbg.force_global("shared", Value::DInt(*v));
                            forced = Some(*v);
                        }
                        _ => {
                            dbg.release_global("shared");
                            forced = None;
                        }
                    }
                }
                // model: a force holds at the start of the cycle (after queued writes) ...
                if let Some(v) = forced {
                    m.set_input("shared", Value::DInt(v));
                }
                x.advance_time(Duration::from_millis(1));
                m.advance_time(Duration::from_millis(1));
                let rx = x.cycle();
                let rm = m.cycle();
                // ... and at its end
                if let Some(v) = forced {
                    m.set_input("shared", Value::DInt(v));
                }
                dx.push(fnv(&(walk::snapshot(x.runtime().storage()), format!("{:?}", rx.errors))));
                dm.push(fnv(&(walk::snapshot(m.runtime().storage()), format!("{:?}", rm.errors))));
            }
            Ok((dx, dm))
        });
        match res {
            Err(p) => sh.violation(format!("panic|{}", panic_sig(&p)), p, case.clone()),
            Ok(Err(e)) => sh.inconclusive(e),
            Ok(Ok((dx, dm))) => {
                sh.count("write_force_cycles_compared_with_boundary_model", dx.len() as u64);
                if let Some(at) = dx.iter().zip(dm.iter()).position(|(a, b)| a != b) {
                    sh.violation("write-force|not-at-cycle-boundary", format!("cycle {at}: the state under debugger writes/forces {cmds:?} differs from the undebugged runtime with the same values set at the cycle boundaries only"), case.clone());
                } else if t < 3 && sh.want_sample() {
                    sh.sample(case.clone());
                }
                sh.nontrivial(&("C", seed));
            }
        }
        sh.end();
    }
}

extern "C" {
    fn dup2(oldfd: i32, newfd: i32) -> i32;
}

pub fn run(sh: &mut Shard) {
    // part B (Debug Adapter Protocol boundary, engines/c17dap.rs) runs on every fourth shard
    if sh.args.replay.is_none() && sh.args.shard % 4 == 3 {
        crate::engines::c17dap::run(sh);
        return;
    }
    // the product's tracer also echoes every line to stderr: send that to /dev/null, the file is what is read
    if let Ok(f) = std::fs::OpenOptions::new().write(true).open("/dev/null") {
        use std::os::unix::io::AsRawFd;
        unsafe {
            dup2(f.as_raw_fd(), 2);
        }
    }
    let work = std::path::PathBuf::from(std::env::var("TPV_WORKDIR").unwrap_or_else(|_| "/tmp".into()));
    let trace_path = work.join(format!("c17-{}-{}.trace", sh.args.shard, std::process::id()));
    let _ = std::fs::write(&trace_path, b"");
    // the product reads these lazily at the first trace call
    std::env::set_var("ST_DEBUG_TRACE", "1");
    std::env::set_var("ST_DEBUG_TRACE_LOG", &trace_path);
    const MAX_CYCLES: usize = 12;
    let reference = match reference_digests(MAX_CYCLES) {
        Ok(r) => r,
        Err(e) => {
            sh.inconclusive(format!("program rejected: {e}"));
            return;
        }
    };
    let nlocs = TestHarness::from_source(PROGRAM).ok().and_then(|h| h.runtime().statement_locations(0).map(|l| l.len())).unwrap_or(0);
    sh.count("statement_locations", nlocs as u64);
    if let Some(path) = sh.args.replay.clone() {
        let v: J = serde_json::from_str(&std::fs::read_to_string(path).expect("replay")).expect("json");
        let r = if v.get("replay").is_some() { v["replay"].clone() } else { v };
        let r = if r.get("case").is_some() { r["case"].clone() } else { r };
        if r.get("dap").is_some() {
            crate::engines::c17dap::replay(sh, &r);
            let _ = std::fs::remove_file(&trace_path);
            return;
        }
        let script = parse_script(&r["script"]);
        let cycles = (r["cycles"].as_u64().unwrap_or(4) as usize).clamp(1, MAX_CYCLES);
        // schedules vary: repeat the script
        for k in 0..200 {
            if !one(sh, script.clone(), cycles, &reference[..cycles], &trace_path, k) {
                break;
            }
        }
        let _ = std::fs::remove_file(&trace_path);
        return;
    }
    let rng = Rng::new(sh.args.shard_seed());
    part_c(sh, &mut rng.fork(777), if sh.args.thorough() { 3000 } else { 300 });
    let mut i = 0u64;
    while sh.time_left() {
        i += 1;
        let mut g = rng.fork(i);
        let script = gen_script(&mut g, nlocs);
        let cycles = 2 + g.usize(MAX_CYCLES - 1);
        if !one(sh, script, cycles, &reference[..cycles], &trace_path, g.next()) {
            break;
        }
        // keep the log small
        if i % 50 == 0 {
            let _ = std::fs::OpenOptions::new().write(true).open(&trace_path).and_then(|f| f.set_len(0));
        }
    }
    let _ = std::fs::remove_file(&trace_path);
}
