//! C17 part B — the same property observed at the Debug Adapter Protocol boundary (trust-debug binary over stdio).
//!
//! A DAP client issues random run-control requests (continue / pause / next / stepIn / stepOut with thread ids,
//! setBreakpoints with changing line sets) with random delays.  Truth about the cycle thread comes from the product's
//! own trace (ST_DEBUG_TRACE, inherited by the adapter process): the thread is *blocked* iff the last hook line is
//! `hook.wait`.  Oracle at quiescent points (all requests answered): a blocked cycle thread must have been announced
//! by a `stopped` event that arrived after the last resume request was sent (otherwise execution stopped without a
//! notification), and the top stack frame must be on the line of the trace's stop location.  At the end, after
//! clearing breakpoints and `continue`, a `pause` must produce a `stopped` event (no command sequence wedges it).

use crate::ctx::{catch, panic_sig, Shard};
use crate::dap::Dap;
use crate::rng::Rng;
use serde_json::{json, Value as J};
use std::io::{Read, Seek, SeekFrom};
use std::time::{Duration, Instant};

const PROGRAM: &str = r#"FUNCTION Leaf : DINT
VAR_INPUT a : DINT; END_VAR
VAR t : DINT; END_VAR
t := a * DINT#2;
Leaf := t + DINT#1;
END_FUNCTION

FUNCTION_BLOCK Worker
VAR_INPUT x : DINT; END_VAR
VAR_OUTPUT y : DINT; END_VAR
VAR n : DINT; i : DINT; END_VAR
n := n + DINT#1;
FOR i := DINT#0 TO DINT#1 DO
  y := Leaf(a := x + i) + n;
END_FOR;
IF y > DINT#100000 THEN
  y := DINT#0;
END_IF;
END_FUNCTION_BLOCK

PROGRAM Main
VAR w : Worker; total : DINT; k : DINT; END_VAR
w(x := total);
total := total + w.y;
k := k + DINT#1;
IF total > DINT#1000000 THEN
  total := DINT#0;
END_IF;
END_PROGRAM

PROGRAM Second
VAR c : DINT; END_VAR
c := c + Leaf(a := c);
IF c > DINT#1000000 THEN
  c := DINT#0;
END_IF;
END_PROGRAM

CONFIGURATION C
TASK T1 (INTERVAL := T#5ms, PRIORITY := 1);
TASK T2 (INTERVAL := T#10ms, PRIORITY := 2);
PROGRAM P1 WITH T1 : Main;
PROGRAM P2 WITH T2 : Second;
END_CONFIGURATION
"#;

#[derive(Clone, Debug)]
pub enum Op {
    Continue(u32),
    Pause(u32),
    Next(u32),
    StepIn(u32),
    StepOut(u32),
    SetBps(Vec<u32>),
    ClearBps,
    Threads,
    Sleep(u64),
    Quiesce,
}

fn statement_lines() -> Vec<u32> {
    let mut v = Vec::new();
    let mut in_var = false;
    for (i, l) in PROGRAM.lines().enumerate() {
        let t = l.trim();
        if t.starts_with("VAR") {
            in_var = !t.contains("END_VAR");
            continue;
        }
        if t.starts_with("END_VAR") {
            in_var = false;
            continue;
        }
        if in_var || t.starts_with("TASK") || t.starts_with("PROGRAM") || t.starts_with("FUNCTION") || t.starts_with("END_") || t.starts_with("CONFIGURATION") || t.is_empty() {
            continue;
        }
        if t.ends_with(';') && (t.contains(":=") || t.contains('(')) {
            v.push(i as u32 + 1);
        }
    }
    v
}

fn line_of_offset(off: usize) -> u32 {
    PROGRAM.as_bytes()[..off.min(PROGRAM.len())].iter().filter(|b| **b == b'\n').count() as u32 + 1
}

fn gen_script(r: &mut Rng, lines: &[u32]) -> Vec<Op> {
    let n = 8 + r.usize(40);
    let tid = |r: &mut Rng| 1 + r.below(2) as u32;
    (0..n)
        .map(|_| match r.below(20) {
            0..=3 => Op::Continue(tid(r)),
            4 | 5 => Op::Pause(tid(r)),
            6 | 7 => Op::Next(tid(r)),
            8 | 9 => Op::StepIn(tid(r)),
            10 => Op::StepOut(tid(r)),
            11..=13 => Op::SetBps((0..1 + r.usize(3)).map(|_| *r.pick(lines)).collect()),
            14 => Op::ClearBps,
            15 => Op::Threads,
            16 | 17 => Op::Quiesce,
            _ => {
                let ms = *r.pick(&[0u64, 1, 3, 10, 30]);
                Op::Sleep(ms)
            }
        })
        .collect()
}

/// (blocked?, last stop line "reason@file:start..end", trace length)
fn trace_state(path: &std::path::Path) -> (bool, Option<(String, usize)>, u64) {
    let Ok(mut f) = std::fs::File::open(path) else { return (false, None, 0) };
    let len = f.metadata().map(|m| m.len()).unwrap_or(0);
    let from = len.saturating_sub(16 * 1024);
    let _ = f.seek(SeekFrom::Start(from));
    let mut buf = Vec::new();
    let _ = f.read_to_end(&mut buf);
    let text = String::from_utf8_lossy(&buf);
    let mut blocked = false;
    let mut last_stop = None;
    for line in text.lines() {
        let Some(msg) = line.strip_prefix("## [trust-runtime][debug] ") else { continue };
        if msg.starts_with("hook.wait ") {
            blocked = true;
        } else if msg.starts_with("hook.wake ") || msg.starts_with("hook.exit ") || msg.starts_with("hook.entry ") {
            blocked = false;
        } else if msg.starts_with("stop reason=") {
            let reason = msg[12..].split(' ').next().unwrap_or("").to_string();
            if let Some(i) = msg.find("start: ") {
                let num: String = msg[i + 7..].chars().take_while(|c| c.is_ascii_digit()).collect();
                if let Ok(off) = num.parse::<usize>() {
                    last_stop = Some((reason, off));
                }
            }
        }
    }
    (blocked, last_stop, len)
}

#[derive(Default)]
pub struct Obs {
    stopped_events: u64,
    quiescent_checks: u64,
    blocked_with_notification: u64,
    locations_compared: u64,
    final_pause_ok: u64,
    requests: u64,
    outcome: Vec<String>,
}

type Viol = (String, String);

fn bps_args(path: &str, lines: &[u32]) -> J {
    json!({"source": {"path": path}, "breakpoints": lines.iter().map(|l| json!({"line": l})).collect::<Vec<_>>()})
}

pub fn run_session(script: &[Op], work: &std::path::Path, tag: &str, stop_on_entry: bool) -> Result<Obs, Viol> {
    // the adapter loads every source file under the program's directory: one directory per session
    let dir = work.join(format!("dap-{tag}"));
    std::fs::create_dir_all(&dir).map_err(|e| ("harness|io".to_string(), e.to_string()))?;
    let src = dir.join("main.st");
    let trace = dir.join("debug.trace");
    let sock = dir.join("control.sock");
    std::fs::write(&src, PROGRAM).map_err(|e| ("harness|io".to_string(), e.to_string()))?;
    let _ = std::fs::write(&trace, b"");
    let srcs = src.to_string_lossy().to_string();
    let r = session(script, &srcs, &trace, &sock, stop_on_entry);
    let _ = std::fs::remove_dir_all(&dir);
    r
}

fn session(script: &[Op], src: &str, trace: &std::path::Path, sock: &std::path::Path, stop_on_entry: bool) -> Result<Obs, Viol> {
    let h = |e: String| ("harness|dap".to_string(), e);
    let mut obs = Obs::default();
    let mut d = Dap::start(&[("ST_DEBUG_TRACE", "1".to_string()), ("ST_DEBUG_TRACE_LOG", trace.to_string_lossy().to_string())]).map_err(h)?;
    d.request("initialize", json!({"adapterID": "st", "linesStartAt1": true, "columnsStartAt1": true})).map_err(h)?;
    // launch answers after configurationDone: send it without waiting by issuing configurationDone right after
    let lines = statement_lines();
    // requests are synchronous here; launch is deferred by the adapter until configurationDone and answered then
    let launch_args = json!({"program": src, "stopOnEntry": stop_on_entry, "controlEndpoint": format!("unix://{}", sock.display())});
    // fire launch without waiting for its (deferred) response
    d.request_nowait("launch", launch_args);
    d.request("setBreakpoints", bps_args(src, &[lines[lines.len() / 2]])).map_err(h)?;
    let mut last_resume = Instant::now();
    d.request("configurationDone", J::Null).map_err(h)?;
    d.pump(Duration::from_millis(100));
    if let Some(err) = d.events.iter().find_map(|(_, e)| e["body"]["output"].as_str().filter(|o| o.contains("reload_program error") || o.contains("launch failed")).map(|o| o.to_string())) {
        return Err(("harness|launch".to_string(), err));
    }
    let mut check_quiescent = |d: &mut Dap, obs: &mut Obs, last_resume: Instant| -> Result<(), Viol> {
        d.pump(Duration::from_millis(30));
        obs.quiescent_checks += 1;
        let (blocked, stop, len0) = trace_state(trace);
        if !blocked {
            obs.outcome.push("q:running".into());
            return Ok(());
        }
        // the cycle thread is parked in the hook: the client must have been told
        let t0 = Instant::now();
        loop {
            let announced = d.stopped_events().iter().any(|(t, _)| *t > last_resume);
            if announced {
                break;
            }
            let (b2, _, len2) = trace_state(trace);
            if !b2 || len2 != len0 {
                obs.outcome.push("q:moved".into());
                return Ok(()); // it moved on by itself: not the state we are judging
            }
            if t0.elapsed().as_millis() > 3000 {
                let evs: Vec<String> = d.events.iter().rev().take(10).map(|(_, e)| if e["event"] == "output" { e["body"]["output"].as_str().unwrap_or("").trim().to_string() } else { format!("{}:{}", e["event"].as_str().unwrap_or(""), e["body"]) }).collect();
                return Err((
                    format!("stop|silent-stop|{}", stop.as_ref().map(|s| s.0.clone()).unwrap_or_default()),
                    format!("the cycle thread has been blocked in the debug hook for 3 s (trace ends in hook.wait, last stop {stop:?}) but no `stopped` event arrived after the last resume request; last events: {evs:?}"),
                ));
            }
            d.pump(Duration::from_millis(20));
        }
        obs.blocked_with_notification += 1;
        obs.outcome.push("q:stopped".into());
        // location: the top frame of the announced thread is on the line of the runtime's stop location
        let tid = d.stopped_events().last().and_then(|(_, e)| e["body"]["threadId"].as_u64()).unwrap_or(1);
        if let (Ok(r), Some((_, off))) = (d.request("stackTrace", json!({"threadId": tid})), stop) {
            let (b3, _, len3) = trace_state(trace);
            if r["success"] == true && b3 && len3 == len0 {
                if let Some(line) = r["body"]["stackFrames"][0]["line"].as_u64() {
                    obs.locations_compared += 1;
                    let want = line_of_offset(off);
                    if line as u32 != want {
                        return Err(("stop|wrong-location".into(), format!("stopped at byte {off} = line {want} (runtime trace) but stackTrace reports line {line}")));
                    }
                }
            }
        }
        Ok(())
    };
    for op in script {
        if !d.alive() {
            return Err(("adapter|died".into(), "trust-debug exited during the session".into()));
        }
        obs.requests += 1;
        match op {
            Op::Continue(t) => {
                last_resume = Instant::now();
                d.request("continue", json!({"threadId": t})).map_err(h)?;
            }
            Op::Pause(t) => {
                d.request("pause", json!({"threadId": t})).map_err(h)?;
            }
            Op::Next(t) => {
                last_resume = Instant::now();
                d.request("next", json!({"threadId": t})).map_err(h)?;
            }
            Op::StepIn(t) => {
                last_resume = Instant::now();
                d.request("stepIn", json!({"threadId": t})).map_err(h)?;
            }
            Op::StepOut(t) => {
                last_resume = Instant::now();
                d.request("stepOut", json!({"threadId": t})).map_err(h)?;
            }
            Op::SetBps(ls) => {
                d.request("setBreakpoints", bps_args(src, ls)).map_err(h)?;
            }
            Op::ClearBps => {
                d.request("setBreakpoints", bps_args(src, &[])).map_err(h)?;
            }
            Op::Threads => {
                d.request("threads", J::Null).map_err(h)?;
            }
            Op::Sleep(ms) => d.pump(Duration::from_millis(*ms)),
            Op::Quiesce => check_quiescent(&mut d, &mut obs, last_resume)?,
        }
    }
    check_quiescent(&mut d, &mut obs, last_resume)?;
    // wind down: no breakpoints, continue, then a pause must stop it
    d.request("setBreakpoints", bps_args(src, &[])).map_err(h)?;
    d.request("continue", json!({"threadId": 1})).map_err(h)?;
    d.pump(Duration::from_millis(30));
    let before = d.stopped_events().len();
    let t_pause = Instant::now();
    d.request("pause", json!({"threadId": 1})).map_err(h)?;
    loop {
        if d.stopped_events().len() > before {
            obs.final_pause_ok += 1;
            break;
        }
        if t_pause.elapsed().as_secs() >= 5 {
            let (blocked, stop, _) = trace_state(trace);
            return Err((
                "progress|pause-after-continue-never-stops".into(),
                format!("after clearing all breakpoints and `continue`, a `pause` request produced no `stopped` event within 5 s (cycle thread blocked: {blocked}, last stop {stop:?}); last events: {:?}", d.events.iter().rev().take(14).map(|(_, e)| if e["event"] == "output" { e["body"]["output"].as_str().unwrap_or("").trim().to_string() } else { format!("{}:{}", e["event"].as_str().unwrap_or(""), e["body"]) }).collect::<Vec<_>>()),
            ));
        }
        d.pump(Duration::from_millis(20));
    }
    obs.stopped_events = d.stopped_events().len() as u64;
    let _ = d.request("disconnect", json!({}));
    if !d.wait_exit(Duration::from_secs(5)) {
        obs.outcome.push("exit:slow".into());
    }
    Ok(obs)
}

fn script_json(s: &[Op]) -> J {
    json!(s
        .iter()
        .map(|o| match o {
            Op::Continue(t) => json!(["continue", t]),
            Op::Pause(t) => json!(["pause", t]),
            Op::Next(t) => json!(["next", t]),
            Op::StepIn(t) => json!(["stepIn", t]),
            Op::StepOut(t) => json!(["stepOut", t]),
            Op::SetBps(l) => json!(["bps", l]),
            Op::ClearBps => json!(["clear"]),
            Op::Threads => json!(["threads"]),
            Op::Sleep(ms) => json!(["sleep", ms]),
            Op::Quiesce => json!(["quiesce"]),
        })
        .collect::<Vec<_>>())
}

fn parse_script(v: &J) -> Vec<Op> {
    v.as_array()
        .map(|a| {
            a.iter()
                .map(|o| {
                    let t = o[1].as_u64().unwrap_or(1) as u32;
                    match o[0].as_str().unwrap_or("") {
                        "continue" => Op::Continue(t),
                        "pause" => Op::Pause(t),
                        "next" => Op::Next(t),
                        "stepIn" => Op::StepIn(t),
                        "stepOut" => Op::StepOut(t),
                        "bps" => Op::SetBps(o[1].as_array().map(|x| x.iter().map(|l| l.as_u64().unwrap_or(1) as u32).collect()).unwrap_or_default()),
                        "clear" => Op::ClearBps,
                        "threads" => Op::Threads,
                        "sleep" => Op::Sleep(o[1].as_u64().unwrap_or(1)),
                        _ => Op::Quiesce,
                    }
                })
                .collect()
        })
        .unwrap_or_default()
}

fn one(sh: &mut Shard, script: Vec<Op>, work: &std::path::Path, tag: &str, stop_on_entry: bool) {
    let case = json!({"dap": true, "stop_on_entry": stop_on_entry, "script": script_json(&script)});
    if !sh.begin("dap-session", &case) {
        return;
    }
    match catch(|| run_session(&script, work, tag, stop_on_entry)) {
        Err(p) => sh.violation(format!("panic|harness|{}", panic_sig(&p)), p, case.clone()),
        Ok(Err((sig, d))) => {
            if sig.starts_with("harness|") {
                sh.inconclusive(format!("{sig}: {d}"));
            } else {
                sh.violation(format!("dap|{sig}"), d, case.clone());
            }
        }
        Ok(Ok(o)) => {
            sh.count("dap_sessions", 1);
            sh.count("dap_requests", o.requests);
            sh.count("dap_stopped_events", o.stopped_events);
            sh.count("dap_quiescent_checks", o.quiescent_checks);
            sh.count("dap_blocked_states_announced", o.blocked_with_notification);
            sh.count("dap_stop_locations_compared", o.locations_compared);
            sh.count("dap_final_pause_stops", o.final_pause_ok);
            if o.stopped_events > 1 && o.blocked_with_notification > 0 {
                sh.nontrivial(&("dap", script_json(&script).to_string(), o.outcome));
            }
        }
    }
    sh.end();
}

pub fn replay(sh: &mut Shard, r: &J) {
    let work = std::path::PathBuf::from(std::env::var("TPV_WORKDIR").unwrap_or_else(|_| "/tmp".into()));
    let script = parse_script(&r["script"]);
    for k in 0..30 {
        one(sh, script.clone(), &work, &format!("replay{k}"), r["stop_on_entry"].as_bool().unwrap_or(false));
    }
}

pub fn run(sh: &mut Shard) {
    let work = std::path::PathBuf::from(std::env::var("TPV_WORKDIR").unwrap_or_else(|_| "/tmp".into()));
    let lines = statement_lines();
    sh.count("dap_breakpoint_lines_available", lines.len() as u64);
    let rng = Rng::new(sh.args.shard_seed());
    let mut i = 0u64;
    while sh.time_left() {
        i += 1;
        let mut g = rng.fork(i);
        let script = gen_script(&mut g, &lines);
        let soe = g.chance(1, 4);
        one(sh, script, &work, &format!("{}-{i}", sh.args.shard), soe);
    }
}
