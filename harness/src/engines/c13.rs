//! C13 — incremental analysis equals from-scratch analysis after any edit history.

use crate::ctx::{catch, panic_sig, Shard};
use crate::rng::Rng;
use serde_json::{json, Value as J};
use std::collections::BTreeMap;
use std::sync::{Arc, RwLock};
use trust_hir::db::{Database, FileId, SemanticDatabase, SourceDatabase};

const NFILES: usize = 8;

/// Pools of texts per file: valid, changed signature, renamed symbol, syntax error, empty, duplicate declaration.
fn pool(file: usize) -> Vec<&'static str> {
    match file {
        0 => vec![
            "FUNCTION Helper : DINT\nVAR_INPUT a : DINT; END_VAR\nHelper := a + DINT#1;\nEND_FUNCTION\n",
            "FUNCTION Helper : INT\nVAR_INPUT a : DINT; b : INT; END_VAR\nHelper := b;\nEND_FUNCTION\n",
            "FUNCTION Helper2 : DINT\nVAR_INPUT a : DINT; END_VAR\nHelper2 := a;\nEND_FUNCTION\n",
            "FUNCTION Helper : DINT\nVAR_INPUT a : DINT END_VAR\nHelper := a + ;\nEND_FUNCTION\n",
            "",
            "FUNCTION Helper : DINT\nVAR_INPUT a : DINT; END_VAR\nHelper := a;\nEND_FUNCTION\nFUNCTION_BLOCK Counter\nVAR x : INT; END_VAR\nEND_FUNCTION_BLOCK\n",
            "FUNCTION Helper : REAL\nVAR_INPUT a : REAL; END_VAR\nHelper := a * 2.0;\nEND_FUNCTION\nFUNCTION Other : BOOL\nOther := TRUE;\nEND_FUNCTION\n",
        ],
        1 => vec![
            "PROGRAM Main\nVAR x : DINT; c : Counter; p : Point; e : Color; END_VAR\nVAR_EXTERNAL gval : DINT; END_VAR\nx := Helper(a := x) + gval;\nc(enable := TRUE);\nx := c.count;\np.x := INT#1;\ne := Color#Red;\nEND_PROGRAM\n",
            "PROGRAM Main\nVAR x : DINT; y : INT; END_VAR\nx := Helper(a := x);\ny := Helper(a := x, b := y);\nEND_PROGRAM\n",
            "PROGRAM Main\nVAR x : DINT; END_VAR\nx := Helper2(a := x);\nx := Undefined(x);\nEND_PROGRAM\n",
            "PROGRAM Main\nVAR x : DINT; c : Counter; END_VAR\nIF x > THEN\nc(enable := x);\nEND_PROGRAM\n",
            "",
            "PROGRAM Main\nVAR x : DINT; x : INT; END_VAR\nx := DINT#1;\nEND_PROGRAM\nPROGRAM Main\nEND_PROGRAM\n",
            "PROGRAM Main\nVAR r : REAL; b : BOOL; p : Point; END_VAR\nr := Helper(a := r);\nb := Other();\np.y := DINT#2;\nEND_PROGRAM\n",
            "PROGRAM Main\nVAR x : DINT; y : INT; c : Counter; i : ItfA; END_VAR\nc(enable := TRUE);\nx := c.count;\ny := c.speed;\ny := c.Go();\ni := c;\nEND_PROGRAM\n",
        ],
        2 => vec![
            "FUNCTION_BLOCK Counter\nVAR_INPUT enable : BOOL; END_VAR\nVAR_OUTPUT count : DINT; END_VAR\nIF enable THEN count := count + DINT#1; END_IF;\nEND_FUNCTION_BLOCK\n",
            "FUNCTION_BLOCK Counter\nVAR_INPUT enable : BOOL; reset : BOOL; END_VAR\nVAR_OUTPUT count : INT; END_VAR\nIF reset THEN count := INT#0; END_IF;\nEND_FUNCTION_BLOCK\n",
            "FUNCTION_BLOCK Counter2\nVAR_OUTPUT count : DINT; END_VAR\nEND_FUNCTION_BLOCK\n",
            "FUNCTION_BLOCK Counter\nVAR_INPUT enable BOOL; END_VAR\ncount := ;\n",
            "",
            "FUNCTION_BLOCK Counter\nVAR_OUTPUT count : DINT; END_VAR\nEND_FUNCTION_BLOCK\nFUNCTION Helper : DINT\nHelper := DINT#0;\nEND_FUNCTION\n",
            // inheritance: the two texts differ only in the EXTENDS / IMPLEMENTS target (same length, no range moves)
            "FUNCTION_BLOCK BaseA\nVAR_OUTPUT count : DINT; speed : INT; END_VAR\nEND_FUNCTION_BLOCK\nFUNCTION_BLOCK BaseB\nVAR_OUTPUT count : INT; END_VAR\nEND_FUNCTION_BLOCK\nINTERFACE ItfA\nMETHOD Go : INT\nEND_METHOD\nEND_INTERFACE\nINTERFACE ItfB\nMETHOD Stop : INT\nEND_METHOD\nEND_INTERFACE\nFUNCTION_BLOCK Counter EXTENDS BaseA IMPLEMENTS ItfA\nVAR_INPUT enable : BOOL; END_VAR\nMETHOD PUBLIC Go : INT\nGo := INT#1;\nEND_METHOD\nEND_FUNCTION_BLOCK\n",
            "FUNCTION_BLOCK BaseA\nVAR_OUTPUT count : DINT; speed : INT; END_VAR\nEND_FUNCTION_BLOCK\nFUNCTION_BLOCK BaseB\nVAR_OUTPUT count : INT; END_VAR\nEND_FUNCTION_BLOCK\nINTERFACE ItfA\nMETHOD Go : INT\nEND_METHOD\nEND_INTERFACE\nINTERFACE ItfB\nMETHOD Stop : INT\nEND_METHOD\nEND_INTERFACE\nFUNCTION_BLOCK Counter EXTENDS BaseB IMPLEMENTS ItfA\nVAR_INPUT enable : BOOL; END_VAR\nMETHOD PUBLIC Go : INT\nGo := INT#1;\nEND_METHOD\nEND_FUNCTION_BLOCK\n",
            "FUNCTION_BLOCK BaseA\nVAR_OUTPUT count : DINT; speed : INT; END_VAR\nEND_FUNCTION_BLOCK\nFUNCTION_BLOCK BaseB\nVAR_OUTPUT count : INT; END_VAR\nEND_FUNCTION_BLOCK\nINTERFACE ItfA\nMETHOD Go : INT\nEND_METHOD\nEND_INTERFACE\nINTERFACE ItfB\nMETHOD Stop : INT\nEND_METHOD\nEND_INTERFACE\nFUNCTION_BLOCK Counter EXTENDS BaseA IMPLEMENTS ItfB\nVAR_INPUT enable : BOOL; END_VAR\nMETHOD PUBLIC Go : INT\nGo := INT#1;\nEND_METHOD\nEND_FUNCTION_BLOCK\n",
        ],
        3 => vec![
            "TYPE Point : STRUCT x : INT; y : DINT; END_STRUCT END_TYPE\nTYPE Color : (Red, Green, Blue); END_TYPE\n",
            "TYPE Point : STRUCT x : REAL; z : DINT; END_STRUCT END_TYPE\nTYPE Color : (Red, Amber); END_TYPE\n",
            "TYPE Point3 : STRUCT x : INT; END_STRUCT END_TYPE\n",
            "TYPE Point : STRUCT x INT; END_STRUCT\nTYPE Color : (Red, ; END_TYPE\n",
            "",
            "TYPE Point : STRUCT x : INT; y : DINT; END_STRUCT END_TYPE\nTYPE Point : INT; END_TYPE\nTYPE Color : (Red, Green); END_TYPE\n",
        ],
        // files 6-8: second providers of names that files 1-4 also declare, with other signatures, so the cross-file
        // import order decides what a use resolves to
        5 => vec![
            "FUNCTION Helper : BOOL\nVAR_INPUT a : DINT; END_VAR\nHelper := a > DINT#0;\nEND_FUNCTION\n",
            "FUNCTION Helper : LREAL\nVAR_INPUT a : LREAL; c : BOOL; END_VAR\nHelper := a;\nEND_FUNCTION\n",
            "",
            "FUNCTION Other : DINT\nOther := DINT#7;\nEND_FUNCTION\n",
        ],
        6 => vec![
            "FUNCTION_BLOCK Counter\nVAR_INPUT enable : DINT; END_VAR\nVAR_OUTPUT count : BOOL; END_VAR\nEND_FUNCTION_BLOCK\n",
            "",
            "TYPE Point : STRUCT x : LREAL; w : BOOL; END_STRUCT END_TYPE\n",
            "TYPE Color : (Red, Cyan, Magenta); END_TYPE\nFUNCTION_BLOCK Counter\nVAR_OUTPUT count : LREAL; END_VAR\nEND_FUNCTION_BLOCK\n",
        ],
        7 => vec![
            "PROGRAM Aux\nVAR v : INT; b : BOOL; c : Counter; p : Point; END_VAR\nv := Helper(a := DINT#1);\nb := Helper(a := DINT#1);\nc();\nv := c.count;\np.x := INT#1;\nEND_PROGRAM\n",
            "",
            "PROGRAM Aux\nVAR r : LREAL; e : Color; END_VAR\nr := Helper(a := r, c := TRUE);\ne := Color#Cyan;\nEND_PROGRAM\n",
        ],
        _ => vec![
            "CONFIGURATION Conf\nVAR_GLOBAL gval : DINT := 5; END_VAR\nPROGRAM P1 : Main;\nEND_CONFIGURATION\n",
            "CONFIGURATION Conf\nVAR_GLOBAL gval : INT; other : BOOL; END_VAR\nTASK T (INTERVAL := T#10ms, PRIORITY := 1);\nPROGRAM P1 WITH T : Main;\nEND_CONFIGURATION\n",
            "CONFIGURATION Conf\nVAR_GLOBAL gother : DINT; END_VAR\nPROGRAM P1 : Main;\nEND_CONFIGURATION\n",
            "CONFIGURATION Conf\nVAR_GLOBAL gval DINT; END_VAR\nPROGRAM P1 : ;\n",
            "",
            "NAMESPACE Lib\nFUNCTION Twice : DINT\nVAR_INPUT a : DINT; END_VAR\nTwice := a * DINT#2;\nEND_FUNCTION\nEND_NAMESPACE\nCONFIGURATION Conf\nVAR_GLOBAL gval : DINT; END_VAR\nPROGRAM P1 : Main;\nEND_CONFIGURATION\n",
        ],
    }
}

#[derive(Clone, Debug)]
pub enum Op {
    Set(usize, usize, u64), // file, pool index, mutation seed (0 = none)
    Remove(usize),
    Query(usize, u8),
}

fn mutate(text: &str, seed: u64) -> String {
    if seed == 0 || text.is_empty() {
        return text.to_string();
    }
    let mut r = Rng::new(seed);
    let toks = trust_syntax::lex(text);
    let mut parts: Vec<&str> = toks.iter().map(|t| &text[usize::from(t.range.start())..usize::from(t.range.end())]).collect();
    for _ in 0..1 + r.usize(2) {
        if parts.is_empty() {
            break;
        }
        let i = r.usize(parts.len());
        match r.below(3) {
            0 => {
                parts.remove(i);
            }
            1 => {
                let p = parts[i];
                parts.insert(i, p);
            }
            _ => {
                let j = r.usize(parts.len());
                parts.swap(i, j);
            }
        }
    }
    parts.concat()
}

fn type_name(db: &Database, file: FileId, t: trust_hir::TypeId) -> String {
    let syms = db.file_symbols(file);
    match t.builtin_name() {
        Some(n) => n.to_string(),
        None => syms.type_name(t).map(|s| s.to_string()).unwrap_or_else(|| match syms.type_by_id(t) { Some(ty) => format!("{ty:?}").split(|c| c == '{' || c == '(').next().unwrap_or("").trim().to_string(), None => "<unknown>".to_string() }),
    }
}

/// Canonical, id-free rendering of everything the property names for one file.
fn answers(db: &Database, file: FileId, text_len: usize) -> Vec<String> {
    let mut out = Vec::new();
    let mut diags: Vec<String> = db.diagnostics(file).iter().map(|d| {
        let mut rel: Vec<String> = d.related.iter().map(|r| format!("{r:?}")).collect();
        rel.sort();
        format!("D {:?} {:?} {:?} {} {:?}", d.code, d.severity, d.range, d.message, rel)
    }).collect();
    diags.sort();
    out.extend(diags);
    let syms = db.file_symbols(file);
    let mut ss: Vec<String> = syms
        .iter()
        .map(|s| {
            // qualified name through the parent chain
            let mut q = vec![s.name.to_string()];
            let mut p = s.parent;
            let mut guard = 0;
            while let Some(pid) = p {
                guard += 1;
                if guard > 16 {
                    break;
                }
                match syms.get(pid) {
                    Some(ps) => {
                        q.push(ps.name.to_string());
                        p = ps.parent;
                    }
                    None => break,
                }
            }
            q.reverse();
            let kind = format!("{:?}", s.kind);
            let kind = kind.split(|c| c == '{' || c == '(').next().unwrap_or("").trim().to_string();
            let tn = match s.type_id.builtin_name() {
                Some(n) => n.to_string(),
                None => syms.type_name(s.type_id).map(|x| x.to_string()).unwrap_or_else(|| "<anon>".into()),
            };
            format!("S {} {kind} {tn} {:?} imported={}", q.join("."), s.range, s.origin.is_some())
        })
        .collect();
    ss.sort();
    out.extend(ss);
    // expression types at every 3rd offset
    let mut off = 0u32;
    while (off as usize) < text_len {
        if let Some(id) = db.expr_id_at_offset(file, off) {
            let t = db.type_of(file, id);
            out.push(format!("T @{off} #{id} {}", type_name(db, file, t)));
        }
        off += 3;
    }
    let a = db.analyze(file);
    out.push(format!("A diags={} syms={}", a.diagnostics.len(), a.symbols.len()));
    out
}

fn current_text(op: &Op) -> Option<(usize, String)> {
    match op {
        Op::Set(f, pi, seed) => {
            let p = pool(*f);
            Some((*f, mutate(p[*pi % p.len()], *seed)))
        }
        _ => None,
    }
}

fn fresh_from(texts: &BTreeMap<usize, String>) -> Database {
    let mut db = Database::new();
    for (f, t) in texts {
        db.set_source_text(FileId(*f as u32 + 1), t.clone());
    }
    db
}

/// a brand-new database loaded in descending file order: must answer like the one loaded in ascending order
fn fresh_from_rev(texts: &BTreeMap<usize, String>) -> Database {
    let mut db = Database::new();
    for (f, t) in texts.iter().rev() {
        db.set_source_text(FileId(*f as u32 + 1), t.clone());
    }
    db
}

pub struct Stats {
    compared: u64,
    queries: u64,
    hits: u64,
    recomputes: u64,
    queries_on_empty_db: u64,
}

pub fn run_history(ops: &[Op], every: usize, concurrent: bool) -> Result<Stats, (String, String, usize)> {
    let db = Arc::new(RwLock::new(Database::new()));
    let mut texts: BTreeMap<usize, String> = BTreeMap::new();
    let mut st = Stats { compared: 0, queries: 0, hits: 0, recomputes: 0, queries_on_empty_db: 0 };
    db.read().unwrap().reset_salsa_event_counters();
    let stop = Arc::new(std::sync::atomic::AtomicBool::new(false));
    let reader = if concurrent {
        let db2 = db.clone();
        let stop2 = stop.clone();
        Some(std::thread::spawn(move || {
            let mut n = 0u64;
            while !stop2.load(std::sync::atomic::Ordering::SeqCst) {
                let g = db2.read().unwrap();
                for f in g.file_ids() {
                    let _ = g.diagnostics(f);
                    let _ = g.file_symbols(f);
                    if let Some(id) = g.expr_id_at_offset(f, (n % 64) as u32) {
                        let _ = g.type_of(f, id);
                    }
                    n += 1;
                }
                drop(g);
                std::thread::yield_now();
            }
            n
        }))
    } else {
        None
    };
    let mut result = Ok(());
    for (oi, op) in ops.iter().enumerate() {
        match op {
            Op::Set(..) => {
                let (f, t) = current_text(op).unwrap();
                db.write().unwrap().set_source_text(FileId(f as u32 + 1), t.clone());
                texts.insert(f, t);
            }
            Op::Remove(f) => {
                db.write().unwrap().remove_source_text(FileId(*f as u32 + 1));
                texts.remove(f);
            }
            Op::Query(f, kind) => {
                let g = db.read().unwrap();
                let id = FileId(*f as u32 + 1);
                match kind % 4 {
                    0 => {
                        let _ = g.diagnostics(id);
                    }
                    1 => {
                        let _ = g.file_symbols(id);
                    }
                    2 => {
                        let _ = g.analyze(id);
                    }
                    _ => {
                        if let Some(e) = g.expr_id_at_offset(id, 20) {
                            let _ = g.type_of(id, e);
                        }
                    }
                }
                st.queries += 1;
                if texts.is_empty() && oi < 4 {
                    st.queries_on_empty_db += 1;
                }
            }
        }
        if (oi + 1) % every == 0 || oi + 1 == ops.len() {
            let g = db.read().unwrap();
            let fresh = fresh_from(&texts);
            let fresh_rev = fresh_from_rev(&texts);
            for (f, t) in &texts {
                let id = FileId(*f as u32 + 1);
                let a1 = answers(&g, id, t.len());
                let a2 = answers(&g, id, t.len());
                if a1 != a2 {
                    let d = a1.iter().zip(a2.iter()).find(|(x, y)| x != y).map(|(x, y)| format!("{x} vs {y}")).unwrap_or_default();
                    result = Err(("not-idempotent".to_string(), format!("after op {oi}: repeating the queries on file {} changed an answer: {d}", f + 1), oi));
                    break;
                }
                let b = answers(&fresh, id, t.len());
                let b_rev = answers(&fresh_rev, id, t.len());
                if b != b_rev {
                    let d = b.iter().zip(b_rev.iter()).find(|(x, y)| x != y).map(|(x, y)| format!("{x} vs {y}")).unwrap_or_default();
                    result = Err(("fresh-depends-on-load-order".to_string(), format!("after op {oi}: two brand-new databases with the same contents (loaded ascending / descending) differ on file {}: {d}", f + 1), oi));
                    break;
                }
                st.compared += a1.len() as u64;
                if a1 != b {
                    let (only_inc, only_fresh): (Vec<&String>, Vec<&String>) = (a1.iter().filter(|x| !b.contains(x)).collect(), b.iter().filter(|x| !a1.contains(x)).collect());
                    let kind = match only_inc.first().or(only_fresh.first()).map(|s| s.chars().next().unwrap_or('?')) {
                        Some('D') => "diagnostics",
                        Some('S') => "symbols",
                        Some('T') => "expr-types",
                        _ => "analysis",
                    };
                    result = Err((
                        format!("incremental-differs|{kind}"),
                        format!("after op {oi} ({op:?}) file {}: incremental only {:?}; fresh only {:?}", f + 1, only_inc.iter().take(3).collect::<Vec<_>>(), only_fresh.iter().take(3).collect::<Vec<_>>()),
                        oi,
                    ));
                    break;
                }
            }
            if result.is_err() {
                break;
            }
        }
    }
    stop.store(true, std::sync::atomic::Ordering::SeqCst);
    if let Some(r) = reader {
        if r.join().is_err() {
            return Err(("reader-thread-panicked".into(), "a concurrent reader panicked".into(), ops.len()));
        }
    }
    let snap = db.read().unwrap().salsa_event_snapshot();
    st.hits = snap.cache_hits;
    st.recomputes = snap.recomputes;
    result.map(|_| st)
}

fn gen_ops(rng: &mut Rng) -> Vec<Op> {
    let n = 5 + rng.usize(56);
    let nfiles = 1 + rng.usize(NFILES);
    let mut ops = Vec::new();
    // a fifth of the histories query the database before it has ever held a file (and a file it never holds)
    if rng.chance(1, 5) {
        for _ in 0..1 + rng.usize(3) {
            ops.push(Op::Query(rng.usize(nfiles), rng.below(4) as u8));
        }
    }
    // start with a plausible project, loaded in a random order (not by ascending file id)
    let mut order: Vec<usize> = (0..nfiles).collect();
    rng.shuffle(&mut order);
    for f in order {
        ops.push(Op::Set(f, 0, 0));
    }
    for _ in 0..n {
        let f = rng.usize(nfiles);
        ops.push(match rng.below(10) {
            0 | 1 | 2 => Op::Set(f, rng.usize(12), if rng.chance(1, 4) { rng.next() | 1 } else { 0 }),
            3 => Op::Remove(f),
            4 if rng.bool() && nfiles > 2 => Op::Set(if rng.chance(1, 4) { 1 } else { 2 }, 6 + rng.usize(3), 0), // the inheritance variants (file 1: index 7 uses inherited members)
            4 => Op::Set(f, 0, 0),
            _ => Op::Query(f, rng.below(4) as u8),
        });
    }
    ops
}

fn ops_json(ops: &[Op], concurrent: bool) -> J {
    json!({"concurrent": concurrent, "ops": ops.iter().map(|o| match o { Op::Set(f, p, s) => json!(["set", f, p, s.to_string()]), Op::Remove(f) => json!(["remove", f]), Op::Query(f, k) => json!(["query", f, k]) }).collect::<Vec<_>>()})
}
fn parse_ops(v: &J) -> (Vec<Op>, bool) {
    let ops = v["ops"]
        .as_array()
        .unwrap()
        .iter()
        .map(|o| match o[0].as_str().unwrap() {
            "set" => Op::Set(o[1].as_u64().unwrap() as usize, o[2].as_u64().unwrap() as usize, o[3].as_str().unwrap().parse().unwrap()),
            "remove" => Op::Remove(o[1].as_u64().unwrap() as usize),
            _ => Op::Query(o[1].as_u64().unwrap() as usize, o[2].as_u64().unwrap() as u8),
        })
        .collect();
    (ops, v["concurrent"].as_bool().unwrap_or(false))
}

fn shrink(ops: &[Op], sig: &str) -> Vec<Op> {
    let fails = |o: &[Op]| matches!(catch(|| run_history(o, 1, false)), Ok(Err((ref s, _, _))) if s == sig);
    let mut ops = ops.to_vec();
    if let Ok(Err((_, _, at))) = catch(|| run_history(&ops, 1, false)) {
        ops.truncate(at + 1);
    }
    let mut i = 0;
    while ops.len() > 1 && i < ops.len() {
        let mut o2 = ops.clone();
        o2.remove(i);
        if fails(&o2) {
            ops = o2;
        } else {
            i += 1;
        }
    }
    ops
}

fn one(sh: &mut Shard, ops: Vec<Op>, concurrent: bool) {
    let case = ops_json(&ops, concurrent);
    if !sh.begin(if concurrent { "history-concurrent" } else { "history" }, &case) {
        return;
    }
    let every = if sh.args.thorough() { 1 } else { 3 };
    match catch(|| run_history(&ops, every, concurrent)) {
        Err(p) => sh.violation(format!("panic|{}", panic_sig(&p)), p, case.clone()),
        Ok(Err((sig, d, _))) => {
            let o2 = if concurrent { ops.clone() } else { shrink(&ops, &sig) };
            let d2 = match catch(|| run_history(&o2, 1, false)) {
                Ok(Err((_, d, _))) => d,
                _ => d,
            };
            sh.violation(sig, d2, ops_json(&o2, concurrent));
        }
        Ok(Ok(st)) => {
            sh.count("answers_compared", st.compared);
            sh.count("interleaved_queries", st.queries);
            sh.count("queries_before_the_first_file", st.queries_on_empty_db);
            sh.count("salsa_cache_hits", st.hits);
            sh.count("salsa_recomputes", st.recomputes);
            sh.count("histories_ok", 1);
            if concurrent {
                sh.count("histories_with_concurrent_reader", 1);
            }
            if st.hits >= 1 && st.recomputes >= 1 {
                sh.nontrivial(&case.to_string());
            } else {
                sh.count("histories_without_hit_and_recompute", 1);
            }
            if sh.want_sample() && ops.len() < 14 {
                sh.sample(case);
            }
        }
    }
    sh.end();
}

pub fn run(sh: &mut Shard) {
    if let Some(path) = sh.args.replay.clone() {
        let v: J = serde_json::from_str(&std::fs::read_to_string(path).expect("replay")).expect("json");
        let r = if v.get("replay").is_some() { v["replay"].clone() } else { v };
        let r = if r.get("case").is_some() { r["case"].clone() } else { r };
        let (ops, c) = parse_ops(&r);
        one(sh, ops, c);
        return;
    }
    if std::env::var("TRUST_HIR_SALSA_EVENT_METRICS").is_err() {
        sh.inconclusive("TRUST_HIR_SALSA_EVENT_METRICS not set: memoisation counters unavailable");
    }
    let rng = Rng::new(sh.args.shard_seed());
    let mut i = 0u64;
    while sh.time_left() {
        i += 1;
        let mut g = rng.fork(i);
        let ops = gen_ops(&mut g);
        let conc = g.chance(1, 5);
        one(sh, ops, conc);
    }
}
