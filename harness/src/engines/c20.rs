//! C20 — resource threads: consistent shared globals; pause/resume/stop always work.
//!
//! N real resource threads (ResourceRunner::spawn_with_shared) share configuration globals.  Each cycle
//! increments a shared total, a pair (a, b) with work in between, and a counter only it writes; it also
//! counts, under the product's own lock, how often it saw a <> b.  A controller thread perturbs the schedule
//! (clock advances, pause/resume/stop, gate opening, sleeps), an observer thread samples the shared store.
//! Oracles: conservation total = sum(cnt_i) and a = b at quiescent points, monotone bracket checks online,
//! torn = 0, cycles_while_paused = 0 (decided with an in-order command sentinel), stop => join returns,
//! state Stopped, one retain store call holding the final count; a faulting resource leaves the others cycling.
//! A quarter of the trials run the same scripts on resources that share nothing (ResourceRunner::spawn, the loop
//! a single-resource runtime uses): there the pause / resume / stop / fault oracles apply and cycles are counted by
//! an I/O driver.

use crate::ctx::{catch, panic_sig, Shard};
use crate::rng::Rng;
use serde_json::{json, Value as J};
use std::sync::atomic::{AtomicBool, AtomicU64, Ordering};
use std::sync::mpsc::channel;
use std::sync::{Arc, Mutex};
use std::time::{Duration as StdDuration, Instant};
use trust_runtime::error::RuntimeError;
use trust_runtime::harness::TestHarness;
use trust_runtime::retain::RetainStore;
use trust_runtime::scheduler::{ManualClock, ResourceCommand, ResourceControl, ResourceHandle, ResourceRunner, ResourceState, SharedGlobals, StartGate};
use trust_runtime::value::{Duration, Value};
use trust_runtime::RetainSnapshot;

#[derive(Clone, Debug)]
pub struct ResCfg {
    pub interval_ms: i64, // 0 = free running
    pub own_clock: bool,
    pub gated: bool,
    pub fault_at: i64, // -1 never
    pub spin: i64,
}

#[derive(Clone, Debug)]
pub enum Op {
    Advance(usize, i64),
    Pause(usize),
    Resume(usize),
    OpenGate(usize),
    Stop(usize, bool), // via control handle?
    Sleep(u64),
    Quiesce, // pause everything that runs, check conservation exactly, resume
    /// a mesh update for names that are not shared (empty map / unknown name): must not disturb the shared store
    Mesh(usize, bool),
}

#[derive(Clone, Debug)]
pub struct Trial {
    pub res: Vec<ResCfg>,
    pub ops: Vec<Op>,
    /// true: every resource runs on its own through ResourceRunner::spawn (the loop without shared globals, the one a
    /// single-resource runtime uses); cycles are counted by an I/O driver the runtime calls once per completed cycle
    pub solo: bool,
}

fn source(i: usize, n: usize, cfg: &ResCfg) -> String {
    let mut g = String::new();
    for j in 0..n {
        g.push_str(&format!("  cnt_{j} : DINT;\n"));
    }
    let fault = if cfg.fault_at >= 0 { format!("IF cnt_{i} >= DINT#{} THEN\n  boom := DINT#1 / zero;\nEND_IF;\n", cfg.fault_at) } else { String::new() };
    format!(
        r#"
CONFIGURATION C
VAR_GLOBAL
  total : DINT;
  a : DINT;
  b : DINT;
  torn : DINT;
{g}END_VAR
VAR_GLOBAL RETAIN
  keepg : DINT;
END_VAR
PROGRAM P : Main;
END_CONFIGURATION

PROGRAM Main
VAR
  zero : DINT;
  boom : DINT;
  i : DINT;
  spin : DINT;
END_VAR
VAR_EXTERNAL
  total : DINT;
  a : DINT;
  b : DINT;
  torn : DINT;
  cnt_{i} : DINT;
  keepg : DINT;
END_VAR
{fault}IF a <> b THEN
  torn := torn + DINT#1;
END_IF;
a := a + DINT#1;
FOR i := DINT#1 TO DINT#{spin} DO
  spin := spin + i;
END_FOR;
spin := DINT#0;
total := total + DINT#1;
b := b + DINT#1;
cnt_{i} := cnt_{i} + DINT#1;
keepg := keepg + DINT#1;
END_PROGRAM
"#,
        spin = cfg.spin
    )
}

struct CountingStore {
    saved: Arc<Mutex<Vec<RetainSnapshot>>>,
}
impl RetainStore for CountingStore {
    fn load(&self) -> Result<RetainSnapshot, RuntimeError> {
        Ok(RetainSnapshot::default())
    }
    fn store(&self, snapshot: &RetainSnapshot) -> Result<(), RuntimeError> {
        self.saved.lock().unwrap().push(snapshot.clone());
        Ok(())
    }
}

fn as_i64(v: Option<Value>) -> Option<i64> {
    match v? {
        Value::DInt(x) => Some(x as i64),
        Value::Int(x) => Some(x as i64),
        Value::LInt(x) => Some(x),
        Value::SInt(x) => Some(x as i64),
        _ => None,
    }
}

fn gen_trial(r: &mut Rng) -> Trial {
    let n = 2 + r.usize(3);
    let faulty = if r.chance(1, 3) { Some(r.usize(n)) } else { None };
    let res: Vec<ResCfg> = (0..n)
        .map(|i| ResCfg {
            interval_ms: if r.chance(2, 3) { 0 } else { 1 },
            own_clock: r.chance(2, 3),
            gated: r.chance(1, 4),
            fault_at: if faulty == Some(i) { r.range(0, 40) } else { -1 },
            spin: *r.pick(&[0i64, 3, 30]),
        })
        .collect();
    let m = 10 + r.usize(50);
    let mut ops = Vec::new();
    for _ in 0..m {
        let j = r.usize(n);
        ops.push(match r.below(20) {
            0..=3 => Op::Advance(j, 1 + r.range(0, 3)),
            4..=6 => Op::Pause(j),
            7..=9 => Op::Resume(j),
            10 | 11 => Op::OpenGate(j),
            12 => Op::Stop(j + n * r.usize(2), r.bool()), // j / n = 1: the clock ticks on right after the stop request
            13 | 14 => Op::Quiesce,
            15 | 16 => Op::Mesh(j, r.bool()),
            _ => {
                let us = *r.pick(&[1u64, 10, 50, 200, 1000]);
                Op::Sleep(us)
            }
        });
    }
    Trial { res, ops, solo: r.chance(1, 4) }
}

/// Where the monitor reads "cycles completed by resource i" from: the product's shared store, or (solo resources) the
/// number of write_outputs calls an I/O driver received - one per completed cycle, none for a faulted cycle.
#[derive(Clone)]
pub enum Counts {
    Shared(SharedGlobals),
    Solo(Vec<Arc<AtomicU64>>),
}

struct CycleCounter(Arc<AtomicU64>);
impl trust_runtime::io::IoDriver for CycleCounter {
    fn read_inputs(&mut self, _inputs: &mut [u8]) -> Result<(), RuntimeError> {
        Ok(())
    }
    fn write_outputs(&mut self, _outputs: &[u8]) -> Result<(), RuntimeError> {
        self.0.fetch_add(1, Ordering::SeqCst);
        Ok(())
    }
}

struct Live {
    cfg: ResCfg,
    handle: Option<ResourceHandle<ManualClock>>,
    control: ResourceControl<ManualClock>,
    clock: ManualClock,
    gate: Option<Arc<StartGate>>,
    gate_open: bool,
    stopped: bool,
    saved: Arc<Mutex<Vec<RetainSnapshot>>>,
    /// Some(count) while the monitor knows the resource is paused (sentinel answered after Pause)
    paused_at: Option<i64>,
    ever_started: bool,
}

#[derive(Default)]
pub struct Obs {
    pub pauses_verified: u64,
    pub resumes_verified: u64,
    pub stops_verified: u64,
    pub stops_followed_by_clock_ticks: u64,
    pub quiescent_checks: u64,
    pub bracket_checks: u64,
    pub concurrency_witnessed: u64,
    pub faults_isolated: u64,
    pub cycles_total: u64,
    pub gated_stops: u64,
    pub mesh_updates_sent: u64,
    pub outcome: Vec<String>,
}

type Viol = (String, String);

/// In-order sentinel: returns true once the resource answered a Snapshot command, i.e. has processed every command sent before.
fn sentinel(l: &Live) -> Result<bool, Viol> {
    let (tx, rx) = channel();
    if l.control.send_command(ResourceCommand::Snapshot { respond_to: tx }).is_err() {
        return Ok(false); // thread gone (stopped/faulted)
    }
    let t0 = Instant::now();
    loop {
        match rx.recv_timeout(StdDuration::from_millis(1)) {
            Ok(_) => return Ok(true),
            Err(std::sync::mpsc::RecvTimeoutError::Disconnected) => return Ok(false),
            Err(_) => {}
        }
        // time passes for a resource that sleeps on its clock
        if l.cfg.interval_ms > 0 {
            l.clock.advance(Duration::from_millis(l.cfg.interval_ms));
        }
        let st = l.control.state();
        if matches!(st, ResourceState::Faulted | ResourceState::Stopped) {
            return Ok(false);
        }
        if t0.elapsed().as_secs() >= 10 {
            return Err(("liveness|commands-not-serviced".into(), format!("a resource in state {st:?} did not service its command channel for 10 s although its clock kept advancing")));
        }
    }
}

fn cnt(counts: &Counts, i: usize) -> i64 {
    match counts {
        Counts::Shared(shared) => as_i64(shared.get(&format!("cnt_{i}"))).unwrap_or(-1),
        Counts::Solo(c) => c[i].load(Ordering::SeqCst) as i64,
    }
}

fn quiescent_check(counts: &Counts, n: usize, what: &str) -> Result<(), Viol> {
    let Counts::Shared(shared) = counts else {
        return Ok(()); // solo resources share nothing
    };
    let total = as_i64(shared.get("total")).unwrap_or(-1);
    let a = as_i64(shared.get("a")).unwrap_or(-1);
    let b = as_i64(shared.get("b")).unwrap_or(-1);
    let torn = as_i64(shared.get("torn")).unwrap_or(-1);
    let cs: Vec<i64> = (0..n).map(|i| cnt(counts, i)).collect();
    let sum: i64 = cs.iter().sum();
    if total != sum {
        return Err(("shared|lost-update".into(), format!("{what}: shared total = {total} but the resources counted {cs:?} (sum {sum}) cycles")));
    }
    if a != b || a != total {
        return Err(("shared|pair-differs".into(), format!("{what}: paired shared variables a = {a}, b = {b}, total = {total}")));
    }
    if torn != 0 {
        return Err(("shared|torn-read".into(), format!("{what}: {torn} cycles started with a <> b, i.e. saw another resource's half-finished cycle")));
    }
    Ok(())
}

fn join_with_timeout(mut h: ResourceHandle<ManualClock>) -> Result<(ResourceHandle<ManualClock>, bool), Viol> {
    let (tx, rx) = channel();
    std::thread::spawn(move || {
        let ok = h.join().is_ok();
        let _ = tx.send((h, ok));
    });
    match rx.recv_timeout(StdDuration::from_secs(15)) {
        Ok((h, ok)) => Ok((h, ok)),
        Err(_) => Err(("stop|thread-did-not-terminate".into(), "join() did not return within 15 s after stop()".into())),
    }
}

fn do_stop(l: &mut Live, i: usize, via_control: bool, nudge: bool, shared: &Counts, obs: &mut Obs) -> Result<(), Viol> {
    if l.stopped {
        return Ok(());
    }
    let before = l.control.state();
    if via_control {
        l.control.stop();
    } else if let Some(h) = l.handle.as_ref() {
        h.stop();
    }
    if nudge && l.cfg.interval_ms > 0 {
        // the clock ticks on right after the stop request, by less than a cycle interval: the stop must not depend on
        // the thread being asleep at this moment, nor on time reaching its next deadline
        for _ in 0..3 {
            l.clock.advance(Duration::from_nanos(1));
            std::thread::yield_now();
        }
        obs.stops_followed_by_clock_ticks += 1;
    }
    let Some(h) = l.handle.take() else {
        return Ok(()); // an earlier join on this resource timed out and was reported
    };
    let (h, ok) = join_with_timeout(h)?;
    l.handle = Some(h);
    l.stopped = true;
    l.paused_at = None;
    if !ok {
        return Err(("stop|thread-panicked".into(), format!("resource {i}: the resource thread ended with a panic")));
    }
    let st = l.control.state();
    let saved = l.saved.lock().unwrap().clone();
    let final_cnt = cnt(shared, i);
    if st == ResourceState::Faulted || before == ResourceState::Faulted {
        obs.outcome.push(format!("stop{i}:faulted"));
        return Ok(()); // the thread had already ended with its fault; stop has nothing left to do
    }
    if st != ResourceState::Stopped {
        return Err(("stop|state-not-stopped".into(), format!("resource {i}: after stop() and join() the state is {st:?} (was {before:?})")));
    }
    let never_ran = l.gate.is_some() && !l.gate_open && final_cnt == 0;
    if never_ran {
        // stopped at the closed start gate: nothing ran, there is nothing to save
        if saved.len() > 1 {
            return Err(("stop|retain-saved-more-than-once".into(), format!("resource {i}: {} retain store calls for a resource stopped at its start gate", saved.len())));
        }
        obs.gated_stops += 1;
        obs.outcome.push(format!("stop{i}:gated"));
        return Ok(());
    }
    if saved.len() != 1 {
        return Err(("stop|retain-save-count".into(), format!("resource {i} (state before stop {before:?}, {final_cnt} cycles): {} retain store calls, expected exactly one", saved.len())));
    }
    let kept = saved[0].values().iter().find(|(k, _)| k.eq_ignore_ascii_case("keepg")).and_then(|(_, v)| as_i64(Some(v.clone())));
    if kept != Some(final_cnt) {
        return Err(("stop|retain-content-stale".into(), format!("resource {i}: retained keepg saved as {kept:?}, the resource executed {final_cnt} cycles")));
    }
    obs.stops_verified += 1;
    obs.outcome.push(format!("stop{i}:{before:?}"));
    Ok(())
}

fn do_pause(l: &mut Live, i: usize, shared: &Counts, obs: &mut Obs) -> Result<(), Viol> {
    if l.stopped {
        return Ok(());
    }
    let _ = l.control.pause();
    if l.gate.is_some() && !l.gate_open {
        return Ok(()); // queued behind the gate
    }
    if sentinel(l)? {
        let st = l.control.state();
        if st != ResourceState::Paused {
            return Err(("pause|state-not-paused".into(), format!("resource {i}: Pause was processed (a later command was answered) but the state is {st:?}")));
        }
        if l.paused_at.is_none() {
            l.paused_at = Some(cnt(shared, i));
        }
        obs.outcome.push(format!("pause{i}"));
    }
    Ok(())
}

fn check_still_paused(l: &Live, i: usize, shared: &Counts, obs: &mut Obs) -> Result<(), Viol> {
    if let Some(c1) = l.paused_at {
        let c2 = cnt(shared, i);
        if c2 != c1 {
            return Err(("pause|cycle-while-paused".into(), format!("resource {i} executed {} cycle(s) between the processed Pause and the next Resume", c2 - c1)));
        }
        obs.pauses_verified += 1;
    }
    Ok(())
}

fn do_resume(l: &mut Live, i: usize, shared: &Counts, obs: &mut Obs, await_progress: bool) -> Result<(), Viol> {
    if l.stopped {
        return Ok(());
    }
    check_still_paused(l, i, shared, obs)?;
    l.paused_at = None;
    let _ = l.control.resume();
    if l.gate.is_some() && !l.gate_open {
        return Ok(());
    }
    if sentinel(l)? {
        let st = l.control.state();
        if st == ResourceState::Faulted && l.cfg.fault_at >= 0 {
            obs.outcome.push(format!("resume{i}:faulted"));
            return Ok(()); // resumed, cycled into its planted fault
        }
        if st != ResourceState::Running {
            return Err(("resume|state-not-running".into(), format!("resource {i}: Resume was processed but the state is {st:?}")));
        }
        if await_progress {
            let c0 = cnt(shared, i);
            let t0 = Instant::now();
            loop {
                if cnt(shared, i) > c0 {
                    obs.resumes_verified += 1;
                    break;
                }
                let st = l.control.state();
                if st == ResourceState::Faulted {
                    break;
                }
                if l.cfg.interval_ms > 0 {
                    l.clock.advance(Duration::from_millis(l.cfg.interval_ms));
                }
                if t0.elapsed().as_secs() >= 10 {
                    return Err(("resume|no-cycle-after-resume".into(), format!("resource {i} (state {st:?}) executed no cycle for 10 s after Resume although its clock kept advancing")));
                }
                std::thread::yield_now();
            }
        }
        obs.outcome.push(format!("resume{i}"));
    }
    Ok(())
}

pub fn run_trial(t: &Trial, seed: u64) -> Result<Obs, Viol> {
    let n = t.res.len();
    let mut obs = Obs::default();
    let mut rng = Rng::new(seed);
    let names: Vec<smol_str::SmolStr> = ["total", "a", "b", "torn"].iter().map(|s| (*s).into()).chain((0..n).map(|j| format!("cnt_{j}").into())).collect();
    let common_clock = ManualClock::new();
    let mut runtimes = Vec::new();
    for (i, cfg) in t.res.iter().enumerate() {
        let rt = TestHarness::from_source(&source(i, n, cfg)).map_err(|e| ("harness|program-rejected".to_string(), e.to_string()))?.into_runtime();
        runtimes.push(rt);
    }
    let store = SharedGlobals::from_runtime(names, &runtimes[0]).map_err(|e| ("harness|shared".to_string(), e.to_string()))?;
    let solo_counters: Vec<Arc<AtomicU64>> = (0..n).map(|_| Arc::new(AtomicU64::new(0))).collect();
    let shared = if t.solo { Counts::Solo(solo_counters.clone()) } else { Counts::Shared(store.clone()) };
    let mut live: Vec<Live> = Vec::new();
    for (i, (mut rt, cfg)) in runtimes.into_iter().zip(t.res.iter()).enumerate() {
        let saved = Arc::new(Mutex::new(Vec::new()));
        rt.set_retain_store(Some(Box::new(CountingStore { saved: saved.clone() })), None);
        if t.solo {
            rt.add_io_driver("cycle-counter", Box::new(CycleCounter(solo_counters[i].clone())));
        }
        let clock = if cfg.own_clock { ManualClock::new() } else { common_clock.clone() };
        let mut runner = ResourceRunner::new(rt, clock.clone(), Duration::from_millis(cfg.interval_ms));
        let gate = if cfg.gated { Some(Arc::new(StartGate::new())) } else { None };
        if let Some(g) = &gate {
            runner = runner.with_start_gate(g.clone());
        }
        let handle = if t.solo { runner.spawn(format!("res-{i}")) } else { runner.spawn_with_shared(format!("res-{i}"), store.clone()) }.map_err(|e| ("harness|spawn".to_string(), e.to_string()))?;
        let control = handle.control();
        live.push(Live { cfg: cfg.clone(), handle: Some(handle), control, clock, gate, gate_open: false, stopped: false, saved, paused_at: None, ever_started: !cfg.gated });
    }

    // observer: monotone bracket checks while everything runs
    let stop_obs = Arc::new(AtomicBool::new(false));
    let brackets = Arc::new(AtomicU64::new(0));
    let witnessed = Arc::new(AtomicU64::new(0));
    let obs_viol: Arc<Mutex<Option<Viol>>> = Arc::new(Mutex::new(None));
    let observer = {
        let (counts, shared, stop_obs, brackets, witnessed, obs_viol) = (shared.clone(), store.clone(), stop_obs.clone(), brackets.clone(), witnessed.clone(), obs_viol.clone());
        let solo = t.solo;
        std::thread::spawn(move || {
            let mut last: Vec<i64> = vec![0; n];
            let mut last_total = 0i64;
            while !stop_obs.load(Ordering::SeqCst) {
                if solo {
                    // nothing is shared: only count how often two resources were seen advancing in one interval
                    let after: Vec<i64> = (0..n).map(|i| cnt(&counts, i)).collect();
                    if after.iter().zip(last.iter()).filter(|(x, y)| x > y).count() >= 2 {
                        witnessed.fetch_add(1, Ordering::Relaxed);
                    }
                    last = after;
                    std::thread::sleep(StdDuration::from_micros(50));
                    continue;
                }
                let before: Vec<i64> = (0..n).map(|i| cnt(&counts, i)).collect();
                let a1 = as_i64(shared.get("a")).unwrap_or(0);
                let total = as_i64(shared.get("total")).unwrap_or(0);
                let b = as_i64(shared.get("b")).unwrap_or(0);
                let a2 = as_i64(shared.get("a")).unwrap_or(0);
                let after: Vec<i64> = (0..n).map(|i| cnt(&counts, i)).collect();
                let (sb, sa): (i64, i64) = (before.iter().sum(), after.iter().sum());
                let mut v = None;
                if total < sb || total > sa {
                    v = Some(("shared|lost-update".to_string(), format!("online: total = {total} read between counter sums {sb} and {sa} (counters only grow, total must lie between)")));
                } else if b < a1.min(total) - 0 && b < a1 {
                    // a was read before b: b >= a1 always (a = b at every unlock, both only grow)
                    v = Some(("shared|pair-differs".to_string(), format!("online: a = {a1} then b = {b}: b fell behind a value of a published earlier")));
                } else if b > a2 {
                    v = Some(("shared|pair-differs".to_string(), format!("online: b = {b} then a = {a2}: a fell behind a value of b published earlier")));
                } else if total < last_total || after.iter().zip(last.iter()).any(|(x, y)| x < y) {
                    v = Some(("shared|counter-went-backwards".to_string(), format!("online: counters {last:?}/{last_total} then {after:?}/{total}")));
                }
                if let Some(v) = v {
                    *obs_viol.lock().unwrap() = Some(v);
                    return;
                }
                if after.iter().zip(last.iter()).filter(|(x, y)| x > y).count() >= 2 {
                    witnessed.fetch_add(1, Ordering::Relaxed);
                }
                last = after;
                last_total = total;
                brackets.fetch_add(1, Ordering::Relaxed);
                std::thread::yield_now();
            }
        })
    };

    let mut result: Result<(), Viol> = Ok(());
    'script: for op in &t.ops {
        if obs_viol.lock().unwrap().is_some() {
            break;
        }
        let r: Result<(), Viol> = match op {
            Op::Advance(j, ms) => {
                live[*j % n].clock.advance(Duration::from_millis(*ms));
                Ok(())
            }
            Op::Sleep(us) => {
                std::thread::sleep(StdDuration::from_micros(*us));
                Ok(())
            }
            Op::Mesh(j, unknown_name) => {
                let l = &live[*j % n];
                let mut updates = indexmap::IndexMap::new();
                if *unknown_name {
                    updates.insert(smol_str::SmolStr::new("not_a_shared_name"), Value::DInt(1));
                }
                if !l.stopped && l.control.send_command(ResourceCommand::MeshApply { updates }).is_ok() {
                    obs.mesh_updates_sent += 1;
                }
                Ok(())
            }
            Op::OpenGate(j) => {
                let l = &mut live[*j % n];
                if let (Some(g), false) = (&l.gate, l.gate_open) {
                    g.open();
                    l.gate_open = true;
                    l.ever_started = true;
                    // commands queued behind the gate are now processed in order; re-synchronise the monitor's view
                    l.paused_at = None;
                    if !l.stopped {
                        match sentinel(l) {
                            Ok(true) => {
                                if l.control.state() == ResourceState::Paused {
                                    l.paused_at = Some(cnt(&shared, *j % n));
                                }
                                Ok(())
                            }
                            Ok(false) => Ok(()),
                            Err(e) => Err(e),
                        }
                    } else {
                        Ok(())
                    }
                } else {
                    Ok(())
                }
            }
            Op::Pause(j) => do_pause(&mut live[*j % n], *j % n, &shared, &mut obs),
            Op::Resume(j) => {
                let ap = rng.chance(1, 2);
                do_resume(&mut live[*j % n], *j % n, &shared, &mut obs, ap)
            }
            Op::Stop(j, via) => do_stop(&mut live[*j % n], *j % n, *via, (*j / n) % 2 == 1, &shared, &mut obs),
            Op::Quiesce => {
                // pause every running resource, compare exactly, resume those that were running
                let mut paused_here = Vec::new();
                let mut ok = true;
                let mut res = Ok(());
                for i in 0..n {
                    let l = &mut live[i];
                    if l.stopped || (l.gate.is_some() && !l.gate_open) {
                        continue;
                    }
                    let was = l.paused_at.is_some();
                    if let Err(e) = do_pause(l, i, &shared, &mut obs) {
                        res = Err(e);
                        ok = false;
                        break;
                    }
                    if l.paused_at.is_none() && !matches!(l.control.state(), ResourceState::Faulted | ResourceState::Stopped) {
                        ok = false; // not provably quiescent
                    }
                    if !was {
                        paused_here.push(i);
                    }
                }
                if ok {
                    res = quiescent_check(&shared, n, "all resources paused");
                    obs.quiescent_checks += 1;
                }
                if res.is_ok() {
                    for i in paused_here {
                        if let Err(e) = do_resume(&mut live[i], i, &shared, &mut obs, false) {
                            res = Err(e);
                            break;
                        }
                    }
                }
                res
            }
        };
        if let Err(e) = r {
            result = Err(e);
            break 'script;
        }
        // fault isolation: once a resource is Faulted the others must keep cycling
        for i in 0..n {
            if live[i].cfg.fault_at >= 0 && !live[i].stopped && live[i].control.state() == ResourceState::Faulted && !obs.outcome.iter().any(|o| o == "fault-isolated") {
                let others: Vec<usize> = (0..n).filter(|j| *j != i && !live[*j].stopped && live[*j].paused_at.is_none() && (live[*j].gate.is_none() || live[*j].gate_open) && live[*j].control.state() == ResourceState::Running).collect();
                if let Some(&j) = others.first() {
                    let c0 = cnt(&shared, j);
                    let t0 = Instant::now();
                    loop {
                        if cnt(&shared, j) > c0 {
                            obs.faults_isolated += 1;
                            obs.outcome.push("fault-isolated".into());
                            break;
                        }
                        if live[j].cfg.interval_ms > 0 {
                            live[j].clock.advance(Duration::from_millis(live[j].cfg.interval_ms));
                        }
                        if t0.elapsed().as_secs() >= 10 {
                            result = Err(("fault|other-resource-blocked".into(), format!("resource {i} faulted; resource {j} (state {:?}) executed no cycle for 10 s afterwards", live[j].control.state())));
                            break 'script;
                        }
                        std::thread::yield_now();
                    }
                }
            }
        }
    }

    // wind down: check paused ones stayed paused, stop everything in random order
    if result.is_ok() {
        for i in 0..n {
            if let Err(e) = check_still_paused(&live[i], i, &shared, &mut obs) {
                result = Err(e);
                break;
            }
        }
    }
    let mut order: Vec<usize> = (0..n).collect();
    rng.shuffle(&mut order);
    for i in order {
        let via = rng.bool();
        let r = do_stop(&mut live[i], i, via, i % 2 == 0, &shared, &mut obs);
        if result.is_ok() {
            if let Err(e) = r {
                result = Err(e);
            }
        } else if let Err((sig, _)) = &r {
            if sig == "stop|thread-did-not-terminate" {
                break; // cannot do more
            }
        }
    }
    stop_obs.store(true, Ordering::SeqCst);
    let _ = observer.join();
    if let Some(v) = obs_viol.lock().unwrap().take() {
        return Err(v);
    }
    result?;
    quiescent_check(&shared, n, "all resources stopped")?;
    obs.quiescent_checks += 1;
    for (i, l) in live.iter().enumerate() {
        // a resource with a planted fault must have reached it if it ran long enough, and never beyond
        let c = cnt(&shared, i);
        if l.cfg.fault_at >= 0 && c > l.cfg.fault_at {
            return Err(("fault|cycle-after-fault".into(), format!("resource {i} faults at count {} but counted {c}", l.cfg.fault_at)));
        }
    }
    obs.bracket_checks = brackets.load(Ordering::Relaxed);
    obs.concurrency_witnessed = witnessed.load(Ordering::Relaxed);
    obs.cycles_total = (0..n).map(|i| cnt(&shared, i).max(0) as u64).sum();
    Ok(obs)
}

fn trial_json(t: &Trial) -> J {
    json!({
        "solo": t.solo,
        "res": t.res.iter().map(|c| json!({"interval_ms": c.interval_ms, "own_clock": c.own_clock, "gated": c.gated, "fault_at": c.fault_at, "spin": c.spin})).collect::<Vec<_>>(),
        "ops": t.ops.iter().map(|o| match o {
            Op::Advance(j, ms) => json!(["advance", j, ms]),
            Op::Pause(j) => json!(["pause", j]),
            Op::Resume(j) => json!(["resume", j]),
            Op::OpenGate(j) => json!(["open", j]),
            Op::Stop(j, v) => json!(["stop", j, v]),
            Op::Sleep(us) => json!(["sleep", us]),
            Op::Quiesce => json!(["quiesce"]),
            Op::Mesh(j, u) => json!(["mesh", j, u]),
        }).collect::<Vec<_>>(),
    })
}

fn parse_trial(v: &J) -> Trial {
    let res = v["res"].as_array().map(|a| a.iter().map(|c| ResCfg { interval_ms: c["interval_ms"].as_i64().unwrap_or(0), own_clock: c["own_clock"].as_bool().unwrap_or(true), gated: c["gated"].as_bool().unwrap_or(false), fault_at: c["fault_at"].as_i64().unwrap_or(-1), spin: c["spin"].as_i64().unwrap_or(0) }).collect()).unwrap_or_default();
    let ops = v["ops"]
        .as_array()
        .map(|a| {
            a.iter()
                .map(|o| {
                    let j = o[1].as_u64().unwrap_or(0) as usize;
                    match o[0].as_str().unwrap_or("") {
                        "advance" => Op::Advance(j, o[2].as_i64().unwrap_or(1)),
                        "pause" => Op::Pause(j),
                        "resume" => Op::Resume(j),
                        "open" => Op::OpenGate(j),
                        "stop" => Op::Stop(j, o[2].as_bool().unwrap_or(false)),
                        "sleep" => Op::Sleep(o[1].as_u64().unwrap_or(1)),
                        "mesh" => Op::Mesh(j, o[2].as_bool().unwrap_or(false)),
                        _ => Op::Quiesce,
                    }
                })
                .collect()
        })
        .unwrap_or_default();
    Trial { res, ops, solo: v["solo"].as_bool().unwrap_or(false) }
}

fn one(sh: &mut Shard, t: &Trial, seed: u64) -> bool {
    let case = json!({"trial": trial_json(t), "seed": seed.to_string()});
    if !sh.begin("trial", &case) {
        return true;
    }
    let mut alive = true;
    match catch(|| run_trial(t, seed)) {
        Err(p) => sh.violation(format!("panic|{}", panic_sig(&p)), p, case.clone()),
        Ok(Err((sig, detail))) => {
            if sig.starts_with("harness|") {
                sh.inconclusive(format!("{sig}: {detail}"));
            } else {
                if sig.contains("did-not-terminate") || sig.starts_with("liveness|") {
                    alive = false; // stuck threads remain in this process
                }
                sh.violation(sig, detail, case.clone());
            }
        }
        Ok(Ok(o)) => {
            sh.count("cycles_executed", o.cycles_total);
            sh.count("pause_episodes_verified_cycle_free", o.pauses_verified);
            sh.count("resumes_followed_by_a_cycle", o.resumes_verified);
            sh.count("stops_verified", o.stops_verified);
            sh.count("stops_followed_by_clock_ticks", o.stops_followed_by_clock_ticks);
            sh.count("stops_at_closed_gate", o.gated_stops);
            sh.count("quiescent_conservation_checks", o.quiescent_checks);
            sh.count("online_bracket_checks", o.bracket_checks);
            sh.count("samples_with_two_resources_advancing", o.concurrency_witnessed);
            sh.count("faults_isolated", o.faults_isolated);
            sh.count("mesh_updates_for_unshared_names_sent", o.mesh_updates_sent);
            sh.count(&format!("trials_with_{}_resources", t.res.len()), 1);
            if t.solo {
                sh.count("solo_trials", 1);
                sh.count("solo_stops_verified", o.stops_verified);
                sh.count("solo_pause_episodes_verified_cycle_free", o.pauses_verified);
                sh.count("solo_resumes_followed_by_a_cycle", o.resumes_verified);
            }
            if (o.concurrency_witnessed > 0 || t.solo) && o.stops_verified > 0 {
                sh.nontrivial(&(trial_json(t).to_string(), o.outcome));
            }
            if sh.want_sample() && t.ops.len() < 15 {
                sh.sample(case.clone());
            }
        }
    }
    sh.end();
    alive
}

pub fn run(sh: &mut Shard) {
    if let Some(path) = sh.args.replay.clone() {
        let v: J = serde_json::from_str(&std::fs::read_to_string(path).expect("replay")).expect("json");
        let r = if v.get("replay").is_some() { v["replay"].clone() } else { v };
        let r = if r.get("case").is_some() { r["case"].clone() } else { r };
        let t = parse_trial(&r["trial"]);
        for k in 0..100 {
            if !one(sh, &t, k) {
                break;
            }
        }
        return;
    }
    let rng = Rng::new(sh.args.shard_seed());
    let mut i = 0u64;
    while sh.time_left() {
        i += 1;
        let mut g = rng.fork(i);
        let t = gen_trial(&mut g);
        if !one(sh, &t, g.next()) {
            break;
        }
    }
}
