//! C07 — process image: inputs latched once per cycle, outputs published once at the end,
//! direct addresses touch exactly the addressed bits (little endian), faulted cycles publish nothing.

use crate::ctx::{catch, panic_sig, Shard};
use crate::drv::{Ev, Kind, Log, ProbeDriver, Script};
use crate::rng::Rng;
use serde_json::{json, Value as J};
use std::sync::{Arc, Mutex};
use trust_runtime::harness::TestHarness;
use trust_runtime::io::{IoAddress, IoInterface};
use trust_runtime::memory::IoArea;
use trust_runtime::value::{Duration, Value};

const IMG: usize = 32;
const PATTERN: u8 = 0xA5;

#[derive(Clone, Copy, Debug, PartialEq, Eq, Hash)]
pub enum Sz {
    X,
    B,
    W,
    D,
    L,
}
impl Sz {
    fn letter(self) -> &'static str {
        match self {
            Sz::X => "X",
            Sz::B => "B",
            Sz::W => "W",
            Sz::D => "D",
            Sz::L => "L",
        }
    }
    fn bytes(self) -> usize {
        match self {
            Sz::X | Sz::B => 1,
            Sz::W => 2,
            Sz::D => 4,
            Sz::L => 8,
        }
    }
    fn types(self) -> &'static [&'static str] {
        match self {
            Sz::X => &["BOOL"],
            Sz::B => &["BYTE", "SINT", "USINT"],
            Sz::W => &["WORD", "INT", "UINT"],
            Sz::D => &["DWORD", "DINT", "UDINT", "REAL"],
            Sz::L => &["LWORD", "LINT", "ULINT", "LREAL"],
        }
    }
}
const SIZES: [Sz; 5] = [Sz::X, Sz::B, Sz::W, Sz::D, Sz::L];

pub fn typed(ty: &str, raw: u64) -> Value {
    match ty {
        "BOOL" => Value::Bool(raw & 1 == 1),
        "BYTE" => Value::Byte(raw as u8),
        "SINT" => Value::SInt(raw as u8 as i8),
        "USINT" => Value::USInt(raw as u8),
        "WORD" => Value::Word(raw as u16),
        "INT" => Value::Int(raw as u16 as i16),
        "UINT" => Value::UInt(raw as u16),
        "DWORD" => Value::DWord(raw as u32),
        "DINT" => Value::DInt(raw as u32 as i32),
        "UDINT" => Value::UDInt(raw as u32),
        "REAL" => Value::Real(f32::from_bits(raw as u32)),
        "LWORD" => Value::LWord(raw),
        "LINT" => Value::LInt(raw as i64),
        "ULINT" => Value::ULInt(raw),
        "LREAL" => Value::LReal(f64::from_bits(raw)),
        _ => unreachable!(),
    }
}

pub fn raw_of(v: &Value) -> Option<(u64, &'static str)> {
    Some(match v {
        Value::Bool(b) => (*b as u64, "BOOL"),
        Value::Byte(x) => (*x as u64, "BYTE"),
        Value::SInt(x) => (*x as u8 as u64, "SINT"),
        Value::USInt(x) => (*x as u64, "USINT"),
        Value::Word(x) => (*x as u64, "WORD"),
        Value::Int(x) => (*x as u16 as u64, "INT"),
        Value::UInt(x) => (*x as u64, "UINT"),
        Value::DWord(x) => (*x as u64, "DWORD"),
        Value::DInt(x) => (*x as u32 as u64, "DINT"),
        Value::UDInt(x) => (*x as u64, "UDINT"),
        Value::Real(x) => (x.to_bits() as u64, "REAL"),
        Value::LWord(x) => (*x, "LWORD"),
        Value::LInt(x) => (*x as u64, "LINT"),
        Value::ULInt(x) => (*x, "ULINT"),
        Value::LReal(x) => (x.to_bits(), "LREAL"),
        _ => return None,
    })
}

#[derive(Clone, Debug)]
pub struct Bind {
    pub area: char, // I Q M
    pub sz: Sz,
    pub byte: usize,
    pub bit: u8,
    pub ty: &'static str,
    pub in_program: bool, // declared in PROGRAM VAR (true) or configuration VAR_GLOBAL (false)
}
impl Bind {
    fn addr(&self) -> String {
        match self.sz {
            Sz::X => format!("%{}X{}.{}", self.area, self.byte, self.bit),
            s => format!("%{}{}{}", self.area, s.letter(), self.byte),
        }
    }
    /// little-endian model decode
    fn decode(&self, img: &[u8]) -> u64 {
        match self.sz {
            Sz::X => ((img[self.byte] >> self.bit) & 1) as u64,
            s => {
                let mut v = 0u64;
                for i in 0..s.bytes() {
                    v |= (img[self.byte + i] as u64) << (8 * i);
                }
                v
            }
        }
    }
    /// (byte index, bit mask, bit values) triples this binding writes
    fn encode_bits(&self, raw: u64) -> Vec<(usize, u8, u8)> {
        match self.sz {
            Sz::X => vec![(self.byte, 1 << self.bit, ((raw & 1) as u8) << self.bit)],
            s => (0..s.bytes()).map(|i| (self.byte + i, 0xff, (raw >> (8 * i)) as u8)).collect(),
        }
    }
}

fn mask_raw(ty: &str, raw: u64) -> u64 {
    raw_of(&typed(ty, raw)).unwrap().0
}

fn gen_binds(rng: &mut Rng) -> Vec<Bind> {
    let mut out: Vec<Bind> = Vec::new();
    let mut used_q = [0u8; IMG];
    let mut used_m = [0u8; IMG];
    let allow_overlap = rng.chance(1, 5);
    let n_i = 1 + rng.usize(5);
    let n_q = 1 + rng.usize(5);
    let n_m = rng.usize(3);
    for (area, n) in [('I', n_i), ('Q', n_q), ('M', n_m)] {
        let mut made = 0;
        let mut tries = 0;
        while made < n && tries < 50 {
            tries += 1;
            let sz = *rng.pick(&SIZES);
            let byte = match rng.below(4) {
                0 => 0,
                1 => IMG - sz.bytes(),
                _ => rng.usize(IMG - sz.bytes() + 1),
            };
            let bit = rng.below(8) as u8;
            let mask = |s: Sz| if s == Sz::X { 1u8 << bit } else { 0xff };
            let used = match area {
                'Q' => Some(&mut used_q),
                'M' => Some(&mut used_m),
                _ => None,
            };
            if let Some(used) = used {
                let clash = (0..sz.bytes()).any(|i| used[byte + i] & mask(sz) != 0);
                if clash && !(allow_overlap && area == 'Q') {
                    continue;
                }
                for i in 0..sz.bytes() {
                    used[byte + i] |= mask(sz);
                }
            }
            out.push(Bind { area, sz, byte, bit, ty: *rng.pick(sz.types()), in_program: rng.chance(1, 3) });
            made += 1;
        }
    }
    out
}

fn program_text(binds: &[Bind], tasked: bool) -> String {
    let mut g = String::from("CONFIGURATION C\nVAR_GLOBAL\n  trip : BOOL;\n  zero : DINT;\n  boom : DINT;\n");
    let mut ext = String::from("  trip : BOOL;\n  zero : DINT;\n  boom : DINT;\n");
    let mut p2vars = String::new();
    let (mut p1, mut p2a, mut p2b) = (String::new(), String::new(), String::new());
    for (k, b) in binds.iter().enumerate() {
        let t = b.ty;
        let at = b.addr();
        let decl = format!("  v_{k} AT {at} : {t};\n");
        if b.in_program {
            p2vars += &decl;
        } else {
            g += &decl;
            ext += &format!("  v_{k} : {t};\n");
        }
        match b.area {
            'I' => {
                g += &format!("  seen1_{k} : {t};\n  seen2_{k} : {t};\n  junk_{k} : {t};\n");
                ext += &format!("  seen1_{k} : {t};\n  seen2_{k} : {t};\n  junk_{k} : {t};\n");
                if !b.in_program {
                    p1 += &format!("seen1_{k} := v_{k};\n");
                } else {
                    p2a += &format!("seen1_{k} := v_{k};\n");
                }
                // after the last read the program overwrites the input-bound variable: the next latch must restore decode(latched bytes)
                p2b += &format!("seen2_{k} := v_{k};\nv_{k} := junk_{k};\n");
            }
            'Q' => {
                g += &format!("  sa_{k} : {t};\n  sb_{k} : {t};\n");
                ext += &format!("  sa_{k} : {t};\n  sb_{k} : {t};\n");
                if !b.in_program {
                    p1 += &format!("v_{k} := sa_{k};\n");
                } else {
                    p2a += &format!("v_{k} := sa_{k};\n");
                }
                p2b += &format!("v_{k} := sb_{k};\n");
            }
            _ => {
                g += &format!("  seen1_{k} : {t};\n  sb_{k} : {t};\n");
                ext += &format!("  seen1_{k} : {t};\n  sb_{k} : {t};\n");
                if !b.in_program {
                    p1 += &format!("seen1_{k} := v_{k};\n");
                } else {
                    p2a += &format!("seen1_{k} := v_{k};\n");
                }
                p2b += &format!("v_{k} := sb_{k};\n");
            }
        }
    }
    if tasked {
        // every program is bound to a task: a cycle in which no time passed has nothing to execute (idle cycle)
        g += "END_VAR\nTASK Fast (INTERVAL := T#1ms, PRIORITY := 1);\nTASK Slow (INTERVAL := T#1ms, PRIORITY := 2);\nPROGRAM I1 WITH Fast : P1;\nPROGRAM I2 WITH Slow : P2;\nEND_CONFIGURATION\n";
    } else {
        g += "END_VAR\nTASK Fast (INTERVAL := T#1ms, PRIORITY := 1);\nPROGRAM I1 WITH Fast : P1;\nPROGRAM I2 : P2;\nEND_CONFIGURATION\n";
    }
    format!(
        "{g}PROGRAM P1\nVAR_EXTERNAL\n{ext}END_VAR\n{p1}END_PROGRAM\nPROGRAM P2\nVAR_EXTERNAL\n{ext}END_VAR\nVAR\n{p2vars}END_VAR\n{p2a}{p2b}IF trip THEN boom := DINT#1 / zero; END_IF;\nEND_PROGRAM\n"
    )
}

#[derive(Clone, Debug)]
pub struct Cyc {
    pub inputs: Vec<u8>,    // IMG bytes delivered by the two drivers
    pub stim_a: Vec<u64>,   // per binding
    pub stim_b: Vec<u64>,
    pub trip: bool,
    /// no time passes before this cycle (with `tasked` programs nothing is due: an idle cycle)
    pub dt0: bool,
    /// same for every cycle of a case: all programs are bound to tasks (no background program)
    pub tasked: bool,
    /// bytes written straight into the output image before this cycle (as a queued I/O write, a released force or a
    /// safe-state application would): the cycle must publish the encoding of the variables again
    pub poke: Vec<(usize, u8)>,
}

fn case_json(binds: &[Bind], cycles: &[Cyc]) -> J {
    json!({
        "binds": binds.iter().map(|b| json!([b.area.to_string(), b.sz.letter(), b.byte, b.bit, b.ty, b.in_program])).collect::<Vec<_>>(),
        "cycles": cycles.iter().map(|c| json!({"in": c.inputs, "a": c.stim_a.iter().map(|x| x.to_string()).collect::<Vec<_>>(), "b": c.stim_b.iter().map(|x| x.to_string()).collect::<Vec<_>>(), "trip": c.trip, "dt0": c.dt0, "tasked": c.tasked, "poke": c.poke.iter().map(|(a, b)| json!([a, b])).collect::<Vec<_>>()})).collect::<Vec<_>>(),
    })
}

fn parse_case(v: &J) -> (Vec<Bind>, Vec<Cyc>) {
    let binds = v["binds"]
        .as_array()
        .unwrap()
        .iter()
        .map(|b| {
            let sz = *SIZES.iter().find(|s| s.letter() == b[1].as_str().unwrap()).unwrap();
            let ty = sz.types().iter().find(|t| **t == b[4].as_str().unwrap()).unwrap();
            Bind { area: b[0].as_str().unwrap().chars().next().unwrap(), sz, byte: b[2].as_u64().unwrap() as usize, bit: b[3].as_u64().unwrap() as u8, ty, in_program: b[5].as_bool().unwrap() }
        })
        .collect();
    let cycles = v["cycles"]
        .as_array()
        .unwrap()
        .iter()
        .map(|c| Cyc {
            inputs: c["in"].as_array().unwrap().iter().map(|x| x.as_u64().unwrap() as u8).collect(),
            stim_a: c["a"].as_array().unwrap().iter().map(|x| x.as_str().unwrap().parse().unwrap()).collect(),
            stim_b: c["b"].as_array().unwrap().iter().map(|x| x.as_str().unwrap().parse().unwrap()).collect(),
            trip: c["trip"].as_bool().unwrap(),
            dt0: c["dt0"].as_bool().unwrap_or(false),
            tasked: c["tasked"].as_bool().unwrap_or(false),
            poke: c["poke"].as_array().map(|a| a.iter().map(|p| (p[0].as_u64().unwrap_or(0) as usize % IMG, p[1].as_u64().unwrap_or(0) as u8)).collect()).unwrap_or_default(),
        })
        .collect();
    (binds, cycles)
}

fn val_raw(h: &TestHarness, name: &str, ty: &str) -> Result<u64, String> {
    match h.get_output(name) {
        Some(v) => match raw_of(&v) {
            Some((raw, t)) if t == ty => Ok(raw),
            _ => Err(format!("{name} holds {v:?}, declared {ty}")),
        },
        None => Err(format!("{name} not found")),
    }
}

struct Stats {
    pokes: u64,
    cycles: u64,
    seen_checks: u64,
    bits_checked: u64,
    faulted_cycles: u64,
    idle_cycles: u64,
}

fn run_case(binds: &[Bind], cycles: &[Cyc]) -> Result<Stats, (String, String, usize)> {
    let tasked = cycles.first().map(|c| c.tasked).unwrap_or(false);
    let text = program_text(binds, tasked);
    let mut h = TestHarness::from_source(&text).map_err(|e| ("compile".to_string(), format!("{e}\n{text}"), 0))?;
    let log = Arc::new(Log::default());
    let mut scripts: Vec<Arc<Mutex<Script>>> = Vec::new();
    for d in 0..2 {
        let (drv, sc) = ProbeDriver::new(d, log.clone());
        sc.lock().unwrap().lo = d * IMG / 2;
        scripts.push(sc);
        h.runtime_mut().add_io_driver(format!("probe{d}"), Box::new(drv));
    }
    h.runtime_mut().io_mut().resize(IMG, IMG, IMG);
    h.runtime_mut().io_mut().outputs_mut().fill(PATTERN);
    h.runtime_mut().io_mut().memory_mut().fill(PATTERN);
    let mut prev_out = vec![PATTERN; IMG];
    let mut prev_mem = vec![PATTERN; IMG];
    let mut st = Stats { cycles: 0, seen_checks: 0, bits_checked: 0, faulted_cycles: 0, idle_cycles: 0, pokes: 0 };
    // value each output-bound variable holds: what the last executed cycle assigned, initially zero
    let mut eff_b: Vec<u64> = vec![0; binds.len()];
    for (ci, c) in cycles.iter().enumerate() {
        let e = |clause: &str, d: String| (clause.to_string(), format!("cycle {ci}: {d}"), ci);
        for (d, sc) in scripts.iter().enumerate() {
            let mut s = sc.lock().unwrap();
            s.bytes = c.inputs[d * IMG / 2..(d + 1) * IMG / 2].to_vec();
            s.reads_this_cycle = 0;
        }
        for (k, b) in binds.iter().enumerate() {
            match b.area {
                'Q' => {
                    h.set_input(&format!("sa_{k}"), typed(b.ty, c.stim_a[k]));
                    h.set_input(&format!("sb_{k}"), typed(b.ty, c.stim_b[k]));
                }
                'M' => h.set_input(&format!("sb_{k}"), typed(b.ty, c.stim_b[k])),
                _ => h.set_input(&format!("junk_{k}"), typed(b.ty, c.stim_a[k])),
            }
        }
        h.set_input("trip", c.trip);
        for (byte, val) in &c.poke {
            h.runtime_mut().io_mut().outputs_mut()[*byte] = *val;
            prev_out[*byte] = *val;
            st.pokes += 1;
        }
        let expect_idle = tasked && c.dt0 && !c.trip;
        if !expect_idle {
            h.advance_time(Duration::from_millis(1));
        }
        let res = h.cycle();
        let evs: Vec<Ev> = log.take();
        let kinds: Vec<(usize, Kind)> = evs.iter().map(|e| (e.driver, e.kind.clone())).collect();
        st.cycles += 1;
        if c.trip {
            st.faulted_cycles += 1;
            if res.errors.is_empty() {
                return Err(e("fault|not-reported", "division by zero did not fault the cycle".into()));
            }
            // reads happened once each, no program-computed output may be published
            if kinds.iter().filter(|(_, k)| *k == Kind::Read).count() != 2 {
                return Err(e("calls|read-count", format!("driver calls in faulted cycle: {kinds:?}")));
            }
            for ev in evs.iter().filter(|e| e.kind == Kind::Write) {
                if ev.image != prev_out {
                    return Err(e("fault|published-computed-outputs", format!("driver {} received {:02x?} in a faulted cycle, previous published image {:02x?}", ev.driver, ev.image, prev_out)));
                }
            }
            if h.runtime().io().outputs() != &prev_out[..] {
                return Err(e("fault|image-changed", format!("output image changed in a faulted cycle: {:02x?} -> {:02x?}", prev_out, h.runtime().io().outputs())));
            }
            break;
        }
        if let Some(err) = res.errors.first() {
            return Err(e(&format!("runtime-error|{}", format!("{err:?}").split('(').next().unwrap_or("")), format!("unexpected {err:?}")));
        }
        // (1) exactly [read x D] before program code, [write x D] after
        let want = vec![(0, Kind::Read), (1, Kind::Read), (0, Kind::Write), (1, Kind::Write)];
        if kinds != want {
            return Err(e("calls|sequence", format!("driver call sequence {kinds:?}, expected {want:?}")));
        }
        // statement counter: reads before any statement of this cycle, writes after all
        let s_read = evs[1].stmt_count;
        let s_write = evs[2].stmt_count;
        let idle = s_write == s_read;
        if evs[0].stmt_count != s_read || evs[3].stmt_count != s_write || s_write < s_read || idle != expect_idle {
            return Err(e("calls|not-around-program-code", format!("statement counter at calls: {:?} (idle cycle expected: {expect_idle})", evs.iter().map(|e| e.stmt_count).collect::<Vec<_>>())));
        }
        if idle {
            st.idle_cycles += 1;
        } else {
            for (k, b) in binds.iter().enumerate() {
                eff_b[k] = mask_raw(b.ty, c.stim_b[k]);
            }
        }
        // (2) latched values
        let latched = h.runtime().io().inputs().to_vec();
        if latched != c.inputs {
            return Err(e("latch|image", format!("input image {:02x?} != delivered {:02x?}", latched, c.inputs)));
        }
        for (k, b) in binds.iter().enumerate() {
            if idle {
                break; // no program ran: the observer variables keep their previous values
            }
            match b.area {
                'I' => {
                    let want = mask_raw(b.ty, b.decode(&c.inputs));
                    for nm in ["seen1", "seen2"] {
                        let got = val_raw(&h, &format!("{nm}_{k}"), b.ty).map_err(|d| e(&format!("latch|type|{}", b.ty), d))?;
                        st.seen_checks += 1;
                        if got != want {
                            return Err(e(&format!("latch|value|{}|{}", b.sz.letter(), b.ty), format!("{nm}_{k} ({} AT {}) = {got:#x}, latched bytes decode to {want:#x}", b.ty, b.addr())));
                        }
                    }
                }
                'M' => {
                    let want = mask_raw(b.ty, b.decode(&prev_mem));
                    let got = val_raw(&h, &format!("seen1_{k}"), b.ty).map_err(|d| e(&format!("latch|type|{}", b.ty), d))?;
                    st.seen_checks += 1;
                    if got != want {
                        return Err(e(&format!("latch|memory|{}|{}", b.sz.letter(), b.ty), format!("seen1_{k} ({} AT {}) = {got:#x}, memory image decodes to {want:#x}", b.ty, b.addr())));
                    }
                }
                _ => {}
            }
        }
        // (3) published bytes
        let out = h.runtime().io().outputs().to_vec();
        let mem = h.runtime().io().memory().to_vec();
        if evs[2].image != out || evs[3].image != out {
            return Err(e("publish|driver-image-differs", format!("drivers received {:02x?} / {:02x?}, image is {:02x?}", evs[2].image, evs[3].image, out)));
        }
        for (area, img, prev) in [('Q', &out, &prev_out), ('M', &mem, &prev_mem)] {
            if img.len() != IMG {
                return Err(e("publish|image-resized", format!("{area} image length {} != {IMG}", img.len())));
            }
            for byte in 0..IMG {
                for bit in 0..8u8 {
                    let m = 1u8 << bit;
                    let mut covering = false;
                    let mut ok = false;
                    // in an idle cycle %M variables are loaded from and stored back to the image (unchanged), %Q variables keep their value
                    for (k, b) in binds.iter().enumerate().filter(|(_, b)| b.area == area && !(idle && area == 'M')) {
                        for (bi, mask, val) in b.encode_bits(eff_b[k]) {
                            if bi == byte && mask & m != 0 {
                                covering = true;
                                if (val & m) == (img[byte] & m) {
                                    ok = true;
                                }
                            }
                        }
                    }
                    st.bits_checked += 1;
                    if !covering {
                        if (img[byte] & m) != (prev[byte] & m) {
                            return Err(e(&format!("locality|{area}"), format!("bit {bit} of %{area}B{byte} changed ({:#04x} -> {:#04x}) but no binding covers it", prev[byte], img[byte])));
                        }
                    } else if !ok {
                        return Err(e(&format!("publish|value|{area}"), format!("bit {bit} of %{area}B{byte} = {:#04x} does not encode the final value of any covering binding", img[byte])));
                    }
                }
            }
        }
        prev_out = out;
        prev_mem = mem;
    }
    Ok(st)
}

fn gen_cycles(rng: &mut Rng, binds: &[Bind]) -> Vec<Cyc> {
    let mut v = gen_cycles_fresh(rng, binds);
    // a third of the cycles deliver exactly the previous cycle's input image again
    for i in 1..v.len() {
        if rng.chance(1, 3) {
            v[i].inputs = v[i - 1].inputs.clone();
        }
        // a third of the cycles assign the values of the previous cycle again (output variables that do not change)
        if rng.chance(1, 3) {
            v[i].stim_a = v[i - 1].stim_a.clone();
            v[i].stim_b = v[i - 1].stim_b.clone();
        }
        if rng.chance(1, 4) {
            v[i].poke = (0..1 + rng.usize(3)).map(|_| (rng.usize(IMG), rng.next() as u8)).collect();
        }
    }
    v
}

fn gen_cycles_fresh(rng: &mut Rng, binds: &[Bind]) -> Vec<Cyc> {
    let n = 2 + rng.usize(6);
    let trip_last = rng.chance(1, 3);
    (0..n)
        .map(|i| Cyc {
            inputs: (0..IMG).map(|_| match rng.below(6) { 0 => 0, 1 => 0xff, 2 => 0x80, _ => rng.next() as u8 }).collect(),
            stim_a: binds.iter().map(|_| rng.next()).collect(),
            stim_b: binds.iter().map(|_| match rng.below(6) { 0 => 0, 1 => u64::MAX, 2 => 0x8000_0000_8000_8080, _ => rng.next() }).collect(),
            trip: trip_last && i == n - 1,
            dt0: false,
            tasked: false,
            poke: Vec::new(),
        })
        .collect()
}

fn shrink(binds: &[Bind], cycles: &[Cyc], sig: &str) -> (Vec<Bind>, Vec<Cyc>) {
    let fails = |b: &[Bind], c: &[Cyc]| matches!(catch(|| run_case(b, c)), Ok(Err((ref s, _, _))) if s == sig);
    let mut binds = binds.to_vec();
    let mut cycles = cycles.to_vec();
    if let Ok(Err((_, _, at))) = catch(|| run_case(&binds, &cycles)) {
        cycles.truncate(at + 1);
    }
    let mut k = 0;
    while binds.len() > 1 && k < binds.len() {
        let mut b2 = binds.clone();
        b2.remove(k);
        let c2: Vec<Cyc> = cycles.iter().map(|c| { let mut c = c.clone(); c.stim_a.remove(k); c.stim_b.remove(k); c }).collect();
        if fails(&b2, &c2) {
            binds = b2;
            cycles = c2;
        } else {
            k += 1;
        }
    }
    let mut j = 0;
    while cycles.len() > 1 && j + 1 < cycles.len() {
        let mut c2 = cycles.clone();
        c2.remove(j);
        if fails(&binds, &c2) {
            cycles = c2;
        } else {
            j += 1;
        }
    }
    (binds, cycles)
}

fn one(sh: &mut Shard, binds: Vec<Bind>, cycles: Vec<Cyc>) {
    let case = case_json(&binds, &cycles);
    if !sh.begin("image", &case) {
        return;
    }
    match catch(|| run_case(&binds, &cycles)) {
        Err(p) => sh.violation(format!("panic|{}", panic_sig(&p)), p, case.clone()),
        Ok(Err((sig, detail, _))) => {
            if sig == "compile" {
                sh.count("rejected_programs", 1);
                sh.inconclusive(detail.chars().take(300).collect::<String>());
            } else {
                let (b2, c2) = shrink(&binds, &cycles, &sig);
                let d2 = match catch(|| run_case(&b2, &c2)) {
                    Ok(Err((_, d, _))) => d,
                    _ => detail,
                };
                sh.violation(sig, d2, case_json(&b2, &c2));
            }
        }
        Ok(Ok(st)) => {
            sh.count("cycles_checked", st.cycles);
            sh.count("latched_reads_compared", st.seen_checks);
            sh.count("image_bits_checked", st.bits_checked);
            sh.count("faulted_cycles_checked", st.faulted_cycles);
            sh.count("idle_cycles_checked", st.idle_cycles);
            sh.count("output_image_bytes_overwritten_between_cycles", st.pokes);
            let has_i = binds.iter().any(|b| b.area == 'I');
            let has_q = binds.iter().any(|b| b.area == 'Q');
            if has_i && has_q {
                let mut shape: Vec<String> = binds.iter().map(|b| format!("{}{}{}.{}:{}:{}", b.area, b.sz.letter(), b.byte, b.bit, b.ty, b.in_program)).collect();
                shape.sort();
                sh.nontrivial(&shape);
            }
            for b in &binds {
                sh.seen("binding_kinds", format!("%{}{}:{}:{}", b.area, b.sz.letter(), b.ty, if b.in_program { "program" } else { "global" }));
            }
            if sh.want_sample() && binds.len() <= 4 {
                sh.sample(json!({"program": program_text(&binds, cycles.first().map(|c| c.tasked).unwrap_or(false)), "cycles": cycles.len()}));
            }
        }
    }
    sh.end();
}

/// Exhaustive direct-address locality on a bare IoInterface.
fn direct_addresses(sh: &mut Shard) {
    let case = json!({"part": "direct-address-sweep"});
    if !sh.begin("direct", &case) {
        return;
    }
    let res = catch(|| -> Result<u64, (String, String)> {
        let mut n = 0u64;
        for (area, letter) in [(IoArea::Input, 'I'), (IoArea::Output, 'Q'), (IoArea::Memory, 'M')] {
            for sz in SIZES {
                for byte in 0..16usize {
                    for bit in 0..if sz == Sz::X { 8u8 } else { 1 } {
                        for pre in [0x00u8, 0xff, 0xA5] {
                            for raw in [0u64, u64::MAX, 0x0102_0304_0506_0708, 0x8000_0000_0000_0001, 0x5555_5555_5555_5555] {
                                for grow in [false, true] {
                                    let mut io = IoInterface::new();
                                    if !grow {
                                        io.resize(24, 24, 24);
                                        io.inputs_mut().fill(pre);
                                        io.outputs_mut().fill(pre);
                                        io.memory_mut().fill(pre);
                                    }
                                    let b = Bind { area: letter, sz, byte, bit, ty: sz.types()[0], in_program: false };
                                    let text = b.addr();
                                    let addr = IoAddress::parse(&text).map_err(|e| ("direct|parse".to_string(), format!("{text}: {e}")))?;
                                    let val = typed(b.ty, raw);
                                    io.write(&addr, val.clone()).map_err(|e| ("direct|write-error".to_string(), format!("{text}: {e}")))?;
                                    let img = match area {
                                        IoArea::Input => io.inputs().to_vec(),
                                        IoArea::Output => io.outputs().to_vec(),
                                        IoArea::Memory => io.memory().to_vec(),
                                    };
                                    let base = if grow { 0 } else { pre };
                                    let mut model = vec![base; img.len()];
                                    if img.len() < byte + sz.bytes() {
                                        return Err(("direct|image-too-short".into(), format!("{text}: image has {} bytes after write", img.len())));
                                    }
                                    for (bi, mask, v) in b.encode_bits(mask_raw(b.ty, raw)) {
                                        model[bi] = (model[bi] & !mask) | (v & mask);
                                    }
                                    if img != model {
                                        return Err((format!("direct|locality|{}", sz.letter()), format!("write {val:?} to {text} over {base:#04x}: image {:02x?}, model {:02x?}", img, model)));
                                    }
                                    // other areas untouched
                                    for (other, oimg) in [(IoArea::Input, io.inputs()), (IoArea::Output, io.outputs()), (IoArea::Memory, io.memory())] {
                                        if other != area && oimg.iter().any(|x| *x != base) {
                                            return Err(("direct|other-area-touched".into(), format!("write to {text} changed {other:?}")));
                                        }
                                    }
                                    let back = io.read(&addr).map_err(|e| ("direct|read-error".to_string(), format!("{text}: {e}")))?;
                                    if raw_of(&back).map(|x| x.0) != Some(mask_raw(b.ty, raw)) {
                                        return Err((format!("direct|read|{}", sz.letter()), format!("{text}: wrote {val:?}, read {back:?}")));
                                    }
                                    n += 1;
                                }
                            }
                        }
                    }
                }
            }
        }
        Ok(n)
    });
    match res {
        Err(p) => sh.violation(format!("panic|direct|{}", panic_sig(&p)), p, case.clone()),
        Ok(Err((sig, d))) => sh.violation(sig, d, case.clone()),
        Ok(Ok(n)) => {
            sh.count("direct_address_cells_checked", n);
            sh.nontrivial("direct-sweep");
        }
    }
    sh.end();
}

/// Arrays bound to direct addresses (round e): `src AT %I.. : ARRAY[..] OF T` copied element by element to `dst AT %Q..`.
/// The elements of a bound array occupy consecutive image locations in row-major order (last index fastest), so the
/// published output bytes must equal the latched input bytes over the array's span, probes of single elements must
/// equal decode(latched bytes at the element's row-major position), and bytes behind the span stay untouched.
fn compound_bindings(sh: &mut Shard, rng: &mut Rng) {
    // (dimensions, element type, element size)
    let shapes: Vec<(Vec<(i64, i64)>, &str, usize)> = vec![
        (vec![(0, 5)], "INT", 2),
        (vec![(1, 4)], "DINT", 4),
        (vec![(0, 1), (0, 2)], "USINT", 1),
        (vec![(1, 2), (3, 5)], "INT", 2),
        (vec![(0, 1), (0, 2), (0, 1)], "INT", 2),
        (vec![(0, 1), (0, 1), (0, 1)], "DINT", 4),
        (vec![(1, 2), (1, 2), (1, 3)], "USINT", 1),
        (vec![(0, 2), (0, 1), (0, 3)], "BYTE", 1),
        (vec![(0, 1), (0, 1), (0, 1), (0, 1)], "USINT", 1),
        (vec![(0, 0), (0, 2), (0, 0), (0, 3)], "UINT", 2),
    ];
    for (si, (dims, ty, size)) in shapes.iter().enumerate() {
        if si % sh.args.nshards as usize != sh.args.shard as usize {
            continue;
        }
        let n: usize = dims.iter().map(|(l, u)| (u - l + 1) as usize).product();
        let span = n * size;
        let pre = match size {
            1 => "B",
            2 => "W",
            _ => "D",
        };
        let dimtext = dims.iter().map(|(l, u)| format!("{l}..{u}")).collect::<Vec<_>>().join(", ");
        let idx: Vec<String> = (0..dims.len()).map(|k| format!("i{k}")).collect();
        let mut body = format!("dst[{0}] := src[{0}];\n", idx.join(", "));
        for k in (0..dims.len()).rev() {
            body = format!("FOR i{k} := {} TO {} DO\n{body}END_FOR;\n", dims[k].0, dims[k].1);
        }
        // probes: first, last and two random elements
        let mut probes: Vec<Vec<i64>> = vec![dims.iter().map(|d| d.0).collect(), dims.iter().map(|d| d.1).collect()];
        for _ in 0..2 {
            probes.push(dims.iter().map(|(l, u)| l + rng.range(0, u - l)).collect());
        }
        let mut decls = String::new();
        for (k, p) in probes.iter().enumerate() {
            decls += &format!("  p{k} : {ty};\n");
            body += &format!("p{k} := src[{}];\n", p.iter().map(|x| x.to_string()).collect::<Vec<_>>().join(", "));
        }
        let text = format!(
            "PROGRAM Main\nVAR\n  src AT %I{pre}0 : ARRAY[{dimtext}] OF {ty};\n  dst AT %Q{pre}0 : ARRAY[{dimtext}] OF {ty};\n{}{decls}END_VAR\n{body}END_PROGRAM\n",
            idx.iter().map(|i| format!("  {i} : DINT;\n")).collect::<String>()
        );
        for rep in 0..3 {
            let input: Vec<u8> = (0..IMG).map(|_| rng.below(256) as u8).collect();
            let case = json!({"part": "compound", "shape": dimtext, "type": ty, "input": input});
            if !sh.begin("compound", &case) {
                continue;
            }
            let res: Result<(), (String, String)> = (|| {
                let mut h = TestHarness::from_source(&text).map_err(|e| ("compile".to_string(), format!("{e}\n{text}")))?;
                let log = Arc::new(Log::default());
                let (drv, sc) = ProbeDriver::new(0, log.clone());
                h.runtime_mut().add_io_driver("probe0", Box::new(drv));
                h.runtime_mut().io_mut().resize(IMG, IMG, IMG);
                h.runtime_mut().io_mut().outputs_mut().fill(PATTERN);
                sc.lock().unwrap().bytes = input.clone();
                let r = h.cycle();
                if let Some(e) = r.errors.first() {
                    return Err(("compound|cycle-error".into(), format!("{e:?}")));
                }
                let out = h.runtime().io().outputs().to_vec();
                if out[..span] != input[..span] {
                    let at = (0..span).find(|b| out[*b] != input[*b]).unwrap_or(0);
                    return Err((format!("compound|copy-differs|{}d", dims.len()), format!("ARRAY[{dimtext}] OF {ty} copied from %I to %Q: output byte {at} is {:02x}, the latched input byte is {:02x} (span {span} bytes)", out[at], input[at])));
                }
                if out[span..].iter().any(|b| *b != PATTERN) {
                    return Err((format!("compound|bytes-behind-the-span-changed|{}d", dims.len()), format!("ARRAY[{dimtext}] OF {ty}: output bytes behind byte {span} changed")));
                }
                for (k, p) in probes.iter().enumerate() {
                    // row-major position
                    let mut pos = 0usize;
                    for (d, x) in dims.iter().zip(p.iter()) {
                        pos = pos * (d.1 - d.0 + 1) as usize + (x - d.0) as usize;
                    }
                    let mut want = 0u64;
                    for b in 0..*size {
                        want |= (input[pos * size + b] as u64) << (8 * b);
                    }
                    let got = val_raw(&h, &format!("p{k}"), ty).map_err(|e| ("harness".to_string(), e))?;
                    if got != want {
                        return Err((format!("compound|element-latch|{}d", dims.len()), format!("src[{p:?}] of ARRAY[{dimtext}] OF {ty} read {got:#x}, the latched bytes at element position {pos} decode to {want:#x}")));
                    }
                }
                Ok(())
            })();
            match res {
                Ok(()) => {
                    sh.count("compound_binding_cycles_checked", 1);
                    sh.nontrivial(&format!("compound:{dimtext}:{ty}:{rep}"));
                }
                Err((sig, d)) if sig == "compile" || sig == "harness" => sh.inconclusive(format!("{sig}: {d}")),
                Err((sig, d)) => sh.violation(sig, d, case.clone()),
            }
            sh.end();
        }
    }
}

pub fn run(sh: &mut Shard) {
    if let Some(path) = sh.args.replay.clone() {
        let v: J = serde_json::from_str(&std::fs::read_to_string(path).expect("replay")).expect("json");
        let r = if v.get("replay").is_some() { v["replay"].clone() } else { v };
        let r = if r.get("case").is_some() { r["case"].clone() } else { r };
        if r["part"].as_str() == Some("compound") {
            compound_bindings(sh, &mut Rng::new(1));
        } else if r.get("part").is_some() {
            direct_addresses(sh);
        } else {
            let (b, c) = parse_case(&r);
            one(sh, b, c);
        }
        return;
    }
    let rng = Rng::new(sh.args.shard_seed());
    if sh.args.shard == 0 {
        direct_addresses(sh);
    }
    compound_bindings(sh, &mut rng.fork(0x0c07_a77a));
    let mut i = 0u64;
    while sh.time_left() {
        i += 1;
        let mut r = rng.fork(i);
        let binds = gen_binds(&mut r);
        let mut cycles = gen_cycles(&mut r, &binds);
        // a third of the cases bind every program to a task and let no time pass before some cycles (idle cycles)
        if r.chance(1, 3) {
            for c in cycles.iter_mut() {
                c.tasked = true;
                c.dt0 = !c.trip && r.chance(2, 5);
            }
        }
        one(sh, binds, cycles);
    }
}
