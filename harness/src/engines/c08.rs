//! C08 — a fault halts the resource; safe_halt (and watchdog halt/safe_halt) forces safe outputs.
//!
//! Fault enumeration: (site x cycle x kind) inside a fixed program family (2 tasks + background,
//! PROGRAM -> FB -> FUNCTION -> FUNCTION), driver read/write failures per driver, watchdog_timeout(),
//! simulation_fault(); x fault policy x watchdog action x safe-state map.

use crate::ctx::{catch, panic_sig, Shard};
use crate::drv::{Ev, Kind, Log, ProbeDriver, Script};
use crate::engines::c07::{raw_of, typed};
use crate::rng::Rng;
use crate::walk;
use serde_json::{json, Value as J};
use std::sync::{Arc, Mutex};
use trust_runtime::error::RuntimeError;
use trust_runtime::harness::TestHarness;
use trust_runtime::io::{IoAddress, IoSafeState};
use trust_runtime::value::{Duration, Value};
use trust_runtime::watchdog::{FaultPolicy, WatchdogAction, WatchdogPolicy};
use trust_runtime::RestartMode;

const IMG: usize = 16;
pub const SITES: usize = 9;
const KINDS: [&str; 5] = ["div0", "overflow", "index", "null", "stepzero"];

fn fault_stmt(site: usize) -> String {
    // one gate per site; the kind is selected by the global fkind
    format!(
        "IF fsite = {site} THEN\n  CASE fkind OF\n    0: sink := DINT#1 / zero;\n    1: sink := big + big;\n    2: arr[idx] := DINT#1;\n    3: rp^ := DINT#1;\n    4: FOR li := 0 TO 3 BY zero DO sink := sink + DINT#1; END_FOR;\n  END_CASE;\nEND_IF;\n"
    )
}

const EXT: &str = "VAR_EXTERNAL\n  fsite : DINT; fkind : DINT; zero : DINT; big : DINT; idx : DINT; sink : DINT;\n  c1 : DINT; c2 : DINT; c3 : DINT; out_b : BYTE; out_w : WORD; out_x : BOOL;\nEND_VAR\n";
const LOCALS: &str = "VAR\n  arr : ARRAY[0..3] OF DINT; rp : REF_TO DINT; li : DINT;\nEND_VAR\n";

pub fn program_text() -> String {
    let f = |s| fault_stmt(s);
    format!(
        r#"CONFIGURATION C
VAR_GLOBAL
  fsite : DINT := -1; fkind : DINT; zero : DINT; big : DINT := 2147483647; idx : DINT := 99; sink : DINT;
  c1 : DINT; c2 : DINT; c3 : DINT; trig : BOOL;
  out_b AT %QB1 : BYTE; out_w AT %QW2 : WORD; out_x AT %QX0.3 : BOOL;
END_VAR
TASK T1 (INTERVAL := T#1ms, PRIORITY := 1);
TASK T2 (INTERVAL := T#1ms, PRIORITY := 2);
PROGRAM I1 WITH T1 : P1;
PROGRAM I2 WITH T2 : P2;
PROGRAM I3 : P3;
END_CONFIGURATION

FUNCTION F3 : DINT
VAR_INPUT a : DINT; END_VAR
{EXT}{LOCALS}{s6}F3 := a + DINT#1;
END_FUNCTION

FUNCTION F2 : DINT
VAR_INPUT a : DINT; END_VAR
{EXT}{LOCALS}{s5}F2 := F3(a := a) + DINT#1;
{s7}END_FUNCTION

FUNCTION_BLOCK FB1
VAR_INPUT x : DINT; END_VAR
VAR_OUTPUT y : DINT; END_VAR
{EXT}{LOCALS}{s3}y := F2(a := x);
{s4}END_FUNCTION_BLOCK

PROGRAM P1
{EXT}{LOCALS}VAR fb : FB1; END_VAR
{s0}c1 := c1 + DINT#1;
out_b := BYTE#16#11;
fb(x := c1);
{s1}out_w := WORD#16#2222;
END_PROGRAM

PROGRAM P2
{EXT}{LOCALS}{s2}c2 := c2 + DINT#1;
out_x := TRUE;
END_PROGRAM

PROGRAM P3
{EXT}{LOCALS}c3 := c3 + DINT#1;
{s8}out_b := BYTE#16#33;
END_PROGRAM
"#,
        s0 = f(0),
        s1 = f(1),
        s2 = f(2),
        s3 = f(3),
        s4 = f(4),
        s5 = f(5),
        s6 = f(6),
        s7 = f(7),
        s8 = f(8),
    )
}

#[derive(Clone, Debug)]
pub struct Case {
    pub fault: String, // "stmt:<site>:<kind>" | "read:<drv>" | "write:<drv>" | "watchdog" | "simulation"
    pub cycle: u32,    // the fault happens in this cycle (0-based), after `cycle` healthy cycles
    pub policy: String,
    pub wd_action: String,
    pub safe: Vec<(String, String, u64)>, // (address, type, raw)
    pub extra_failing_write_drv: Option<usize>, // a driver whose write_outputs fails from the fault cycle on
    /// restart the (healthy) resource after the healthy cycles and run one more cycle before the fault:
    /// configuration (fault policy, watchdog action, safe state) has to survive a restart
    pub restart_before: Option<String>,
}

fn case_json(c: &Case) -> J {
    json!({"fault": c.fault, "cycle": c.cycle, "policy": c.policy, "wd": c.wd_action,
           "safe": c.safe.iter().map(|(a, t, r)| json!([a, t, r.to_string()])).collect::<Vec<_>>(), "failing_write_drv": c.extra_failing_write_drv, "restart_before": c.restart_before})
}
fn parse_case(v: &J) -> Case {
    Case {
        fault: v["fault"].as_str().unwrap().to_string(),
        cycle: v["cycle"].as_u64().unwrap() as u32,
        policy: v["policy"].as_str().unwrap().to_string(),
        wd_action: v["wd"].as_str().unwrap().to_string(),
        safe: v["safe"].as_array().unwrap().iter().map(|s| (s[0].as_str().unwrap().to_string(), s[1].as_str().unwrap().to_string(), s[2].as_str().unwrap().parse().unwrap())).collect(),
        extra_failing_write_drv: v["failing_write_drv"].as_u64().map(|x| x as usize),
        restart_before: v["restart_before"].as_str().map(|x| x.to_string()),
    }
}

fn safe_maps() -> Vec<Vec<(String, String, u64)>> {
    vec![
        vec![],
        vec![("%QX0.3".into(), "BOOL".into(), 0)],
        vec![("%QB1".into(), "BYTE".into(), 0xEE), ("%QX0.0".into(), "BOOL".into(), 1)],
        vec![("%QW2".into(), "WORD".into(), 0xBEEF), ("%QB1".into(), "BYTE".into(), 0), ("%QX0.3".into(), "BOOL".into(), 0), ("%QX0.7".into(), "BOOL".into(), 1)],
        vec![("%QD4".into(), "DWORD".into(), 0xDEADBEEF), ("%QL8".into(), "LWORD".into(), 0x0102030405060708)],
        vec![("%QB15".into(), "BYTE".into(), 0x5A), ("%QW2".into(), "WORD".into(), 0)],
    ]
}

pub struct Stats {
    pub fired: bool,
    pub refused_cycles: u64,
    pub safe_values_checked: u64,
    pub restart_checked: bool,
    pub debugger_writes_queued_while_halted: u64,
}

fn expect_safe(c: &Case) -> bool {
    if c.fault == "watchdog" {
        matches!(c.wd_action.as_str(), "halt" | "safe_halt")
    } else {
        c.policy == "safe_halt"
    }
}

pub fn run_case(c: &Case) -> Result<Stats, (String, String)> {
    let text = program_text();
    let mut h = TestHarness::from_source(&text).map_err(|e| ("compile".to_string(), format!("{e}")))?;
    let log = Arc::new(Log::default());
    let mut scripts: Vec<Arc<Mutex<Script>>> = Vec::new();
    for d in 0..3 {
        let (drv, sc) = ProbeDriver::new(d, log.clone());
        scripts.push(sc);
        h.runtime_mut().add_io_driver(format!("probe{d}"), Box::new(drv));
    }
    h.runtime_mut().io_mut().resize(IMG, IMG, IMG);
    let policy = match c.policy.as_str() {
        "halt" => FaultPolicy::Halt,
        "safe_halt" => FaultPolicy::SafeHalt,
        _ => FaultPolicy::Restart,
    };
    h.runtime_mut().set_fault_policy(policy);
    let wd = match c.wd_action.as_str() {
        "halt" => WatchdogAction::Halt,
        "safe_halt" => WatchdogAction::SafeHalt,
        _ => WatchdogAction::Restart,
    };
    h.runtime_mut().set_watchdog_policy(WatchdogPolicy { enabled: true, timeout: Duration::from_millis(100), action: wd });
    let mut safe = IoSafeState::default();
    for (a, t, r) in &c.safe {
        safe.outputs.push((IoAddress::parse(a).map_err(|e| ("harness".to_string(), e.to_string()))?, typed(t, *r)));
    }
    h.runtime_mut().set_io_safe_state(safe);

    // healthy cycles
    for i in 0..c.cycle {
        h.advance_time(Duration::from_millis(1));
        let r = h.cycle();
        if let Some(e) = r.errors.first() {
            return Err(("healthy-cycle-error".into(), format!("cycle {i} before the fault raised {e:?}")));
        }
    }
    if let Some(mode) = &c.restart_before {
        let m = if mode == "cold" { trust_runtime::RestartMode::Cold } else { trust_runtime::RestartMode::Warm };
        h.runtime_mut().restart(m).map_err(|e| ("restart-before|error".to_string(), format!("{e:?}")))?;
        h.advance_time(Duration::from_millis(1));
        if let Some(e) = h.cycle().errors.first() {
            return Err(("healthy-cycle-error".into(), format!("cycle after the {mode} restart raised {e:?}")));
        }
    }
    let _ = log.take();
    // arm the fault
    let parts: Vec<&str> = c.fault.split(':').collect();
    let mut expected_err: Option<&str> = None;
    match parts[0] {
        "stmt" => {
            let site: i32 = parts[1].parse().unwrap();
            let kind = KINDS.iter().position(|k| *k == parts[2]).unwrap() as i32;
            h.set_input("fsite", Value::DInt(site));
            h.set_input("fkind", Value::DInt(kind));
            expected_err = Some(match parts[2] {
                "div0" => "DivisionByZero",
                "overflow" => "Overflow",
                "index" => "IndexOutOfBounds",
                "null" => "NullReference",
                _ => "ForStepZero",
            });
        }
        "read" => scripts[parts[1].parse::<usize>().unwrap()].lock().unwrap().fail_read = true,
        "write" => scripts[parts[1].parse::<usize>().unwrap()].lock().unwrap().fail_write = true,
        _ => {}
    }
    if let Some(d) = c.extra_failing_write_drv {
        scripts[d].lock().unwrap().fail_write = true;
    }
    h.advance_time(Duration::from_millis(1));
    let err: Option<RuntimeError> = match parts[0] {
        "watchdog" => Some(h.runtime_mut().watchdog_timeout()),
        "simulation" => Some(h.runtime_mut().simulation_fault("injected")),
        _ => h.cycle().errors.into_iter().next(),
    };
    let evs: Vec<Ev> = log.take();
    let Some(err) = err else {
        return Err(("fault|not-reported".into(), format!("fault {} did not make the cycle fail", c.fault)));
    };
    if let Some(want) = expected_err {
        let got = format!("{err:?}");
        if !got.starts_with(want) {
            return Err((format!("fault|wrong-error|{}", parts[2]), format!("injected {} but the cycle reported {got}", c.fault)));
        }
    }
    let mut st = Stats { fired: true, refused_cycles: 0, safe_values_checked: 0, restart_checked: false, debugger_writes_queued_while_halted: 0 };
    // latch
    if !h.runtime().faulted() {
        return Err(("latch|not-faulted".into(), format!("after {} ({err:?}) faulted() is false", c.fault)));
    }
    if h.runtime().last_fault().is_none() {
        return Err(("latch|no-last-fault".into(), "last_fault() is None after a fault".into()));
    }
    // safe state
    if expect_safe(c) {
        for (a, t, r) in &c.safe {
            let addr = IoAddress::parse(a).unwrap();
            let got = h.runtime().io().read(&addr).map_err(|e| ("harness".to_string(), e.to_string()))?;
            let want = raw_of(&typed(t, *r)).unwrap().0;
            st.safe_values_checked += 1;
            if raw_of(&got).map(|x| x.0) != Some(want) {
                return Err(("safe|image".into(), format!("after {} with policy {}/{}: {a} holds {got:?}, safe value is {:?}", c.fault, c.policy, c.wd_action, typed(t, *r))));
            }
        }
        if !c.safe.is_empty() {
            // every driver must have been handed an image holding all safe values, before the call returned
            let image_now = h.runtime().io().outputs().to_vec();
            for d in 0..3 {
                let got = evs.iter().rev().find(|e| e.driver == d && e.kind == Kind::Write);
                match got {
                    None => {
                        return Err((
                            "safe|driver-not-served".into(),
                            format!("after {} (failing writer: {:?}) driver {d} never received the safe-state image; calls: {:?}", c.fault, c.extra_failing_write_drv, evs.iter().map(|e| (e.driver, e.kind.clone())).collect::<Vec<_>>()),
                        ))
                    }
                    Some(ev) if ev.image != image_now => {
                        return Err(("safe|driver-image-stale".into(), format!("driver {d} last received {:02x?}, image with safe values is {:02x?}", ev.image, image_now)));
                    }
                    _ => {}
                }
            }
        }
    }
    // refusal: later cycles execute nothing and change nothing
    let before = walk::snapshot(h.runtime().storage());
    let out_before = h.runtime().io().outputs().to_vec();
    // every other fault point: a debugger is attached to the halted resource and keeps queueing variable and I/O writes
    // (what a DAP setVariable or a control-endpoint write does); a refused cycle must not apply them
    let with_debugger = (c.cycle as usize + c.fault.len() + c.safe.len() + c.policy.len()) % 2 == 0;
    let dbg = if with_debugger { Some(h.runtime_mut().enable_debug()) } else { None };
    for k in 0..3 {
        if let Some(d) = &dbg {
            d.enqueue_global_write("sink", Value::DInt(4242 + k as i32));
            d.enqueue_global_write("c3", Value::DInt(-7));
            if let Ok(a) = IoAddress::parse("%QB1") {
                d.enqueue_io_write(a, Value::Byte(0xA5));
            }
            st.debugger_writes_queued_while_halted += 3;
        }
        h.advance_time(Duration::from_millis(1));
        let s0 = trust_runtime::verif::stmt_count();
        let r = h.cycle();
        let s1 = trust_runtime::verif::stmt_count();
        match r.errors.first() {
            Some(RuntimeError::ResourceFaulted) => {}
            other => return Err(("refusal|result".into(), format!("cycle {k} after the fault returned {other:?}, expected ResourceFaulted"))),
        }
        if s1 != s0 {
            return Err(("refusal|statements-executed".into(), format!("{} statements executed in a refused cycle", s1 - s0)));
        }
        st.refused_cycles += 1;
    }
    let after = walk::snapshot(h.runtime().storage());
    if let Some(d) = walk::first_diff(&before, &after) {
        return Err((if with_debugger { "refusal|variable-changed|debugger-write-applied".into() } else { "refusal|variable-changed".into() }, format!("a refused cycle changed {d}")));
    }
    if h.runtime().io().outputs() != &out_before[..] {
        return Err((if with_debugger { "refusal|outputs-changed|debugger-write-applied".into() } else { "refusal|outputs-changed".into() }, "a refused cycle changed the output image".into()));
    }
    // restart clears the latch and cycles run again
    for sc in &scripts {
        let mut s = sc.lock().unwrap();
        s.fail_read = false;
        s.fail_write = false;
    }
    h.restart(RestartMode::Cold).map_err(|e| ("restart|error".to_string(), format!("{e:?}")))?;
    if h.runtime().faulted() {
        return Err(("restart|still-faulted".into(), "faulted() still true after restart".into()));
    }
    h.advance_time(Duration::from_millis(1));
    let s0 = trust_runtime::verif::stmt_count();
    let r = h.cycle();
    let s1 = trust_runtime::verif::stmt_count();
    if let Some(e) = r.errors.first() {
        return Err(("restart|cycle-error".into(), format!("first cycle after restart raised {e:?}")));
    }
    if s1 == s0 {
        return Err(("restart|no-statements".into(), "first cycle after restart executed no statement".into()));
    }
    st.restart_checked = true;
    Ok(st)
}

pub fn all_cases(rng: &mut Rng, thorough: bool) -> Vec<Case> {
    let mut faults: Vec<String> = Vec::new();
    for s in 0..SITES {
        for k in KINDS {
            faults.push(format!("stmt:{s}:{k}"));
        }
    }
    for d in 0..3 {
        faults.push(format!("read:{d}"));
        faults.push(format!("write:{d}"));
    }
    faults.push("watchdog".into());
    faults.push("simulation".into());
    let maps = safe_maps();
    let mut out = Vec::new();
    for f in &faults {
        for cycle in [0u32, 1, 4] {
            for policy in ["halt", "safe_halt", "restart"] {
                for wd in ["halt", "safe_halt", "restart"] {
                    // the watchdog action only matters for the watchdog fault
                    if f != "watchdog" && wd != "safe_halt" {
                        continue;
                    }
                    for (mi, m) in maps.iter().enumerate() {
                        for failing in [None, Some(0usize), Some(1), Some(2)] {
                            // a second failing writer is only interesting where safe state is applied
                            if failing.is_some() && (m.is_empty() || !(policy == "safe_halt" || f == "watchdog")) {
                                continue;
                            }
                            let _ = mi;
                            out.push(Case { fault: f.clone(), cycle, policy: policy.into(), wd_action: wd.into(), safe: m.clone(), extra_failing_write_drv: failing, restart_before: None });
                            // the same fault point after a warm / cold restart of the healthy resource (one representative cycle count)
                            if cycle == 1 && failing.is_none() {
                                for mode in ["warm", "cold"] {
                                    out.push(Case { fault: f.clone(), cycle, policy: policy.into(), wd_action: wd.into(), safe: m.clone(), extra_failing_write_drv: None, restart_before: Some(mode.into()) });
                                }
                            }
                        }
                    }
                }
            }
        }
    }
    if !thorough {
        rng.shuffle(&mut out);
    }
    out
}

pub fn run(sh: &mut Shard) {
    if let Some(path) = sh.args.replay.clone() {
        let v: J = serde_json::from_str(&std::fs::read_to_string(path).expect("replay")).expect("json");
        let r = if v.get("replay").is_some() { v["replay"].clone() } else { v };
        let r = if r.get("case").is_some() { r["case"].clone() } else { r };
        one(sh, &parse_case(&r));
        return;
    }
    let thorough = sh.args.thorough();
    // same enumeration in every shard (seeded by VERIF_SEED only), split by index
    let mut rng = Rng::new(sh.args.seed ^ 0xC08);
    let cases = all_cases(&mut rng, thorough);
    sh.count("fault_points_in_family", if sh.args.shard == 0 { cases.len() as u64 } else { 0 });
    let (shard, nshards) = (sh.args.shard as usize, sh.args.nshards as usize);
    let mut done = 0u64;
    for (i, c) in cases.iter().enumerate() {
        if i % nshards != shard {
            continue;
        }
        if !thorough && !sh.time_left() {
            break;
        }
        one(sh, c);
        done += 1;
    }
    sh.count("fault_points_enumerated", done);
    if thorough && sh.args.shard == 0 {
        sh.note("thorough tier enumerated the complete fault-point product of the program family");
    }
}

fn one(sh: &mut Shard, c: &Case) {
    let case = case_json(c);
    let class = c.fault.split(':').next().unwrap_or("").to_string();
    if !sh.begin(&class, &case) {
        return;
    }
    match catch(|| run_case(c)) {
        Err(p) => sh.violation(format!("panic|{}", panic_sig(&p)), p, case.clone()),
        Ok(Err((sig, d))) => {
            if sig == "compile" || sig == "harness" {
                sh.inconclusive(format!("{sig}: {d}"));
            } else {
                // signature: clause + fault class (+ kind for statement faults) + whether a second writer fails
                let fclass = {
                    let p: Vec<&str> = c.fault.split(':').collect();
                    if p[0] == "stmt" { format!("stmt-{}", p[2]) } else { p[0].to_string() }
                };
                let extra = match (c.extra_failing_write_drv.is_some(), c.restart_before.is_some()) {
                    (true, _) => "|failing-writer",
                    (_, true) => "|after-restart",
                    _ => "",
                };
                sh.violation(format!("{sig}|{fclass}{extra}"), d, case.clone());
            }
        }
        Ok(Ok(st)) => {
            if st.fired {
                sh.nontrivial(&case.to_string());
            }
            sh.count("faults_fired", 1);
            sh.count("refused_cycles_checked", st.refused_cycles);
            sh.count("debugger_writes_queued_while_halted", st.debugger_writes_queued_while_halted);
            sh.count("safe_values_checked", st.safe_values_checked);
            sh.count("restarts_checked", st.restart_checked as u64);
            sh.seen("fault_classes", c.fault.clone());
            if sh.want_sample() {
                sh.sample(case);
            }
        }
    }
    sh.end();
}
