//! C12 — parsing is total and lossless for every input text.
//!
//! Monitors (all over the public `trust_syntax` API, on a 2 MiB-stack thread):
//!  L1 token texts concatenate to the input, ranges tile [0,|s|)
//!  L2 tree text == input
//!  L3 every error range inside [0,|s|]
//!  L4 purity: two parses (second on another thread) give the same dump + errors
//!  L5 error-free inputs keep their shape after trivia insertion at token boundaries
//!  L0 no panic / stack overflow (panic via catch_unwind; overflow via journal + supervisor)

use crate::ctx::{catch, fnv, on_stack, panic_sig, Shard};
use crate::rng::Rng;
use serde_json::json;
use trust_syntax::parser::parse;
use trust_syntax::{lex, SyntaxKind};

pub const STACK: usize = 2 * 1024 * 1024;
/// Stated nesting bound D for which totality is claimed (see DESIGN C12).
pub const DEPTH_BOUND: usize = 512;

const VOCAB: &[&str] = &[
    "PROGRAM", "END_PROGRAM", "FUNCTION", "END_FUNCTION", "FUNCTION_BLOCK", "END_FUNCTION_BLOCK",
    "VAR", "VAR_INPUT", "VAR_OUTPUT", "VAR_IN_OUT", "VAR_TEMP", "VAR_GLOBAL", "VAR_EXTERNAL",
    "END_VAR", "CONSTANT", "RETAIN", "NON_RETAIN", "PERSISTENT", "AT", "IF", "THEN", "ELSIF",
    "ELSE", "END_IF", "CASE", "OF", "END_CASE", "FOR", "TO", "BY", "DO", "END_FOR", "WHILE",
    "END_WHILE", "REPEAT", "UNTIL", "END_REPEAT", "EXIT", "CONTINUE", "RETURN", "TYPE",
    "END_TYPE", "STRUCT", "END_STRUCT", "ARRAY", "INT", "DINT", "REAL", "BOOL", "STRING", "TIME",
    "WORD", "LREAL", "UINT", "CONFIGURATION", "END_CONFIGURATION", "RESOURCE", "ON",
    "END_RESOURCE", "TASK", "WITH", "INTERVAL", "PRIORITY", "SINGLE", "CLASS", "END_CLASS",
    "METHOD", "END_METHOD", "INTERFACE", "END_INTERFACE", "EXTENDS", "IMPLEMENTS", "NAMESPACE",
    "END_NAMESPACE", "USING", "THIS", "SUPER", "REF_TO", "REF", "NULL", "AND", "OR", "XOR",
    "NOT", "MOD", "TRUE", "FALSE", "PUBLIC", "PRIVATE", "ABSTRACT", "FINAL", "OVERRIDE",
    "VAR_ACCESS", "VAR_CONFIG", "READ_WRITE", "READ_ONLY", "ACTION", "END_ACTION", "STEP",
    "END_STEP", "TRANSITION", "END_TRANSITION", "INITIAL_STEP", "FROM", "PROPERTY", "GET", "SET",
    "END_PROPERTY", "END_GET", "END_SET", "x", "y", "foo", "Bar_1", "_z", "i", "fb", ":=", "=>",
    "?=", ":", ";", ",", ".", "..", "(", ")", "[", "]", "+", "-", "*", "/", "**", "=", "<>",
    "<", ">", "<=", ">=", "&", "^", "#", "1", "0", "42", "1.5", "1.", "1e10", "1.0E-3", "16#FF",
    "2#1010", "8#77", "INT#5", "T#1s", "T#1h2m3s4ms", "TIME#-5ms", "LT#1ns", "D#2024-01-01",
    "TOD#12:00:00", "DT#2024-01-01-12:00:00", "'str'", "\"wstr\"", "'it$'s'", "'$N$R'", "%IX0.0",
    "%QW1", "%MD4", "%I*", "%", "(* c *)", "(* nested (* c *) *)", "// line\n", "/* c */",
    "{pragma}", "{", "}", "(*", "*)", "'", "\"", "$", "@", "?", "!", "\\", "\n", "\r\n", "\t",
    " ", "  ", "é", "日本", "😀", "\u{0}", "\u{feff}", "\u{2028}",
];

struct Outcome {
    tokens: usize,
    nontrivia: usize,
    errors: usize,
}

fn check_one(s: &str) -> Result<Outcome, (String, String)> {
    // L1
    let toks = lex(s);
    let mut pos: u32 = 0;
    let mut nontrivia = 0;
    for t in &toks {
        let (a, b) = (u32::from(t.range.start()), u32::from(t.range.end()));
        if a != pos {
            return Err(("L1|token-gap-or-overlap".into(), format!("token {:?} starts at {a}, expected {pos}", t.kind)));
        }
        if b < a || b as usize > s.len() {
            return Err(("L1|token-range-out-of-bounds".into(), format!("{a}..{b} len {}", s.len())));
        }
        if !s.is_char_boundary(a as usize) || !s.is_char_boundary(b as usize) {
            return Err(("L1|token-splits-char".into(), format!("{a}..{b}")));
        }
        if b == a {
            return Err(("L1|empty-token".into(), format!("{:?} at {a}", t.kind)));
        }
        if !t.kind.is_trivia() {
            nontrivia += 1;
        }
        pos = b;
    }
    if pos as usize != s.len() {
        return Err(("L1|tokens-do-not-cover-input".into(), format!("covered {pos} of {}", s.len())));
    }
    // L2, L3
    let p = parse(s);
    let root = p.syntax();
    let text = root.text().to_string();
    if text != s {
        let at = text.bytes().zip(s.bytes()).position(|(a, b)| a != b).unwrap_or(text.len().min(s.len()));
        return Err(("L2|tree-text-differs".into(), format!("tree len {} input len {} first diff at {at}", text.len(), s.len())));
    }
    for e in p.errors() {
        let (a, b) = (u32::from(e.range.start()) as usize, u32::from(e.range.end()) as usize);
        if a > b || b > s.len() {
            return Err(("L3|error-range-out-of-bounds".into(), format!("{a}..{b} len {} msg {}", s.len(), e.message)));
        }
    }
    Ok(Outcome { tokens: toks.len(), nontrivia, errors: p.errors().len() })
}

fn dump(s: &str) -> (String, Vec<String>) {
    let p = parse(s);
    (format!("{:#?}", p.syntax()), p.errors().iter().map(|e| e.to_string()).collect())
}

/// Pre-order shape ignoring trivia: node kinds and (token kind, text).
fn shape(s: &str) -> (Vec<String>, usize) {
    let p = parse(s);
    let mut out = Vec::new();
    for ev in p.syntax().preorder_with_tokens() {
        if let rowan::WalkEvent::Enter(el) = ev {
            match el {
                rowan::NodeOrToken::Node(n) => out.push(format!("{:?}", n.kind())),
                rowan::NodeOrToken::Token(t) => {
                    let k: SyntaxKind = t.kind();
                    if !k.is_trivia() {
                        out.push(format!("{:?}:{}", k, t.text()));
                    }
                }
            }
        }
    }
    (out, p.errors().len())
}

fn trivia_insertions(sh: &mut Shard, s: &str, rng: &mut Rng, max_points: usize, label: &str) {
    let toks = lex(s);
    let mut bounds: Vec<usize> = toks.iter().map(|t| u32::from(t.range.start()) as usize).collect();
    bounds.push(s.len());
    let (base, errs) = shape(s);
    if errs != 0 {
        return;
    }
    let all: Vec<usize> = if bounds.len() <= max_points {
        bounds.clone()
    } else {
        (0..max_points).map(|_| *rng.pick(&bounds)).collect()
    };
    let fillers = [" ", "\n", "(* c *)", "\t", "\r\n", " (* a *) "];
    let mut made = 0u64;
    for (i, b) in all.iter().enumerate() {
        // a boundary *between two adjacent tokens*: skip when it sits right after a line comment
        // without newline?  No: inserting there is still "between two adjacent tokens"; the
        // inserted text just joins the comment.  Kept.
        let f = fillers[(i + rng.usize(3)) % if sh.args.thorough() { fillers.len() } else { 3 }];
        let mut t = String::with_capacity(s.len() + f.len());
        t.push_str(&s[..*b]);
        t.push_str(f);
        t.push_str(&s[*b..]);
        let (sh2, e2) = shape(&t);
        made += 1;
        if e2 != 0 || sh2 != base {
            let which = if e2 != 0 { "errors-appear" } else { "shape-changes" };
            // classify by neighbouring token kinds
            let idx = bounds.iter().position(|x| x == b).unwrap_or(0);
            let left = if idx > 0 { format!("{:?}", toks[idx - 1].kind) } else { "BOF".into() };
            let right = if idx < toks.len() { format!("{:?}", toks[idx].kind) } else { "EOF".into() };
            sh.violation(
                format!("L5|{which}|{left}|{right}"),
                format!("inserting {f:?} at byte {b} of an error-free input ({label})"),
                json!({"kind":"trivia","text": s, "at": b, "filler": f}),
            );
        }
    }
    sh.count("trivia_insertions_checked", made);
    if made > 0 {
        sh.count("errorfree_inputs_with_insertions", 1);
    }
}

fn run_case(sh: &mut Shard, class: &str, label: &str, s: String, rng: &mut Rng, trivia_points: usize) {
    let case = json!({"kind":"text","label":label,"text": s});
    if !sh.begin(class, &case) {
        return;
    }
    let s2 = s.clone();
    let res = on_stack(STACK, move || {
        catch(|| {
            let r = check_one(&s2);
            // L4 purity, first parse on this thread
            let d1 = dump(&s2);
            (r, d1)
        })
    });
    match res {
        Err(p) => sh.violation(format!("L0|panic|{}", panic_sig(&p)), format!("{p} ({label})"), case.clone()),
        Ok((Err((sig, detail)), _)) => sh.violation(sig, format!("{detail} ({label})"), case.clone()),
        Ok((Ok(o), d1)) => {
            sh.count("tokens_checked", o.tokens as u64);
            sh.count("inputs_with_errors", (o.errors > 0) as u64);
            sh.count("inputs_error_free", (o.errors == 0) as u64);
            let s3 = s.clone();
            let d2 = on_stack(STACK, move || catch(|| dump(&s3)));
            match d2 {
                Ok(d2) if d2 == d1 => sh.count("purity_compared", 1),
                Ok(_) => sh.violation("L4|parse-not-pure", format!("two parses differ ({label})"), case.clone()),
                Err(p) => sh.violation(format!("L0|panic|{}", panic_sig(&p)), p, case.clone()),
            }
            if o.nontrivia > 0 {
                sh.nontrivial(&fnv(&s));
            }
            if o.errors == 0 && o.nontrivia > 0 && trivia_points > 0 {
                let s4 = s.clone();
                let label = label.to_string();
                // run insertions under catch as well
                let mut r2 = rng.fork(fnv(&s));
                let res = catch(|| trivia_insertions(sh, &s4, &mut r2, trivia_points, &label));
                if let Err(p) = res {
                    sh.violation(format!("L0|panic|{}", panic_sig(&p)), p, case.clone());
                }
            }
            if sh.want_sample() && s.len() < 300 && o.nontrivia > 3 {
                sh.sample(json!({"label": label, "text": s, "tokens": o.tokens, "errors": o.errors}));
            }
        }
    }
    sh.end();
}

pub fn corpus_files() -> Vec<(String, String)> {
    let mut out = Vec::new();
    let mut stack = vec![std::path::PathBuf::from("/repo")];
    while let Some(d) = stack.pop() {
        let Ok(rd) = std::fs::read_dir(&d) else { continue };
        let mut entries: Vec<_> = rd.flatten().map(|e| e.path()).collect();
        entries.sort();
        for p in entries {
            let name = p.file_name().and_then(|n| n.to_str()).unwrap_or("");
            if p.is_dir() {
                if name == "target" || name == ".git" || name == "node_modules" {
                    continue;
                }
                if std::fs::symlink_metadata(&p).map(|m| m.file_type().is_symlink()).unwrap_or(true) {
                    continue;
                }
                stack.push(p);
            } else if name.ends_with(".st") || name.ends_with(".ST") {
                if let Ok(t) = std::fs::read_to_string(&p) {
                    out.push((p.to_string_lossy().to_string(), t));
                }
            }
        }
    }
    out.sort();
    out
}

/// Source snippets embedded as raw strings (r#"..."#) in the repository's own parser / checker tests: they cover the rarely
/// used constructs (VAR_ACCESS, VAR_CONFIG, properties, actions, namespaces, ...) that few .st files contain.
pub fn test_snippets() -> Vec<(String, String)> {
    let mut out = Vec::new();
    for dir in ["/repo/crates/trust-syntax/tests", "/repo/crates/trust-hir/tests"] {
        let Ok(rd) = std::fs::read_dir(dir) else { continue };
        let mut files: Vec<_> = rd.flatten().map(|e| e.path()).filter(|p| p.extension().map(|e| e == "rs").unwrap_or(false)).collect();
        files.sort();
        for f in files {
            let Ok(text) = std::fs::read_to_string(&f) else { continue };
            let mut rest = text.as_str();
            let mut k = 0;
            while let Some(a) = rest.find("r#\"") {
                let body = &rest[a + 3..];
                let Some(e) = body.find("\"#") else { break };
                let snip = &body[..e];
                if snip.len() >= 12 && snip.len() <= 4000 {
                    out.push((format!("{}#{k}", f.file_name().and_then(|n| n.to_str()).unwrap_or("")), snip.to_string()));
                    k += 1;
                }
                rest = &body[e + 2..];
            }
        }
    }
    out
}

fn nest(kind: usize, d: usize) -> (String, &'static str) {
    let wrap = |body: String| format!("PROGRAM P\nVAR x : INT; b : BOOL; a : ARRAY[0..3] OF INT; END_VAR\n{body}\nEND_PROGRAM\n");
    match kind {
        0 => (wrap(format!("x := {}1{};", "(".repeat(d), ")".repeat(d))), "parens"),
        1 => (wrap(format!("x := {}1;", "-".repeat(d))), "unary-minus"),
        2 => (wrap(format!("b := {}TRUE;", "NOT ".repeat(d))), "unary-not"),
        3 => (wrap(format!("x := f{};", "(f".repeat(d) + &")".repeat(d))), "call-chain"),
        4 => (wrap(format!("x := a{}0{};", "[a[".repeat(d / 2), "]]".repeat(d / 2))), "index-chain"),
        5 => (wrap(format!("{}x := 1;{}", "IF b THEN ".repeat(d), " END_IF;".repeat(d))), "if"),
        6 => (wrap(format!("{}x := 1;{}", "WHILE b DO ".repeat(d), " END_WHILE;".repeat(d))), "while"),
        7 => (wrap(format!("{}x := 1;{}", "FOR x := 0 TO 1 DO ".repeat(d), " END_FOR;".repeat(d))), "for"),
        8 => (wrap(format!("{}x := 1;{}", "REPEAT ".repeat(d), " UNTIL b END_REPEAT;".repeat(d))), "repeat"),
        9 => (wrap(format!("{}x := 1;{}", "CASE x OF 1: ".repeat(d), " END_CASE;".repeat(d))), "case"),
        10 => (format!("TYPE T : {}INT; END_TYPE\n", "ARRAY[0..1] OF ".repeat(d)), "array-of-array"),
        11 => (format!("TYPE T : {}INT{}; END_TYPE\n", "STRUCT f : ".repeat(d), "; END_STRUCT".repeat(d)), "nested-struct"),
        12 => (wrap(format!("x := 1{};", " + 1".repeat(d))), "binary-left-chain"),
        13 => (wrap(format!("x := 2{};", " ** 2".repeat(d))), "binary-right-chain"),
        14 => (wrap(format!("x := x{};", ".f".repeat(d))), "field-chain"),
        15 => (wrap(format!("x := x{};", "^".repeat(d))), "deref-chain"),
        16 => (format!("{}{}", "NAMESPACE N ".repeat(d), " END_NAMESPACE".repeat(d)), "namespace"),
        17 => (wrap(format!("x := {}1{};", "(1 + ".repeat(d), ")".repeat(d))), "paren-binary"),
        18 => (wrap(format!("x := {};", "(".repeat(d))), "unclosed-parens"),
        19 => (wrap("IF b THEN ".repeat(d)), "unclosed-if"),
        20 => (wrap(format!("{} x := 1;", "(* ".repeat(d) + &" *)".repeat(d))), "nested-comment"),
        _ => (wrap(format!("x := f(a := {}1{});", "g(a := ".repeat(d), ")".repeat(d))), "named-arg-chain"),
    }
}
const NEST_KINDS: usize = 22;

fn mutate_tokens(rng: &mut Rng, s: &str, other: &str) -> String {
    let toks = lex(s);
    if toks.is_empty() {
        return s.to_string();
    }
    let mut parts: Vec<&str> = toks.iter().map(|t| &s[usize::from(t.range.start())..usize::from(t.range.end())]).collect();
    let n = 1 + rng.usize(3);
    for _ in 0..n {
        if parts.is_empty() {
            break;
        }
        let i = rng.usize(parts.len());
        match rng.below(6) {
            0 => {
                parts.remove(i);
            }
            1 => {
                let p = parts[i];
                parts.insert(i, p);
            }
            2 => {
                let j = rng.usize(parts.len());
                parts.swap(i, j);
            }
            3 => {
                parts[i] = *rng.pick(VOCAB);
            }
            4 => {
                parts.insert(i, *rng.pick(VOCAB));
            }
            _ => {
                // splice a window of the other file
                let ot = lex(other);
                if !ot.is_empty() {
                    let a = rng.usize(ot.len());
                    let b = (a + 1 + rng.usize(12)).min(ot.len());
                    let a0 = usize::from(ot[a].range.start());
                    let b0 = usize::from(ot[b - 1].range.end());
                    parts.insert(i, &other[a0..b0]);
                }
            }
        }
    }
    parts.concat()
}

fn random_unicode(rng: &mut Rng) -> String {
    let n = rng.usize(60);
    let mut s = String::new();
    for _ in 0..n {
        let c = match rng.below(8) {
            0 => char::from_u32(rng.below(0x80) as u32),
            1 => char::from_u32(0x80 + rng.below(0x780) as u32),
            2 => char::from_u32(0x800 + rng.below(0xF000) as u32),
            3 => char::from_u32(0x10000 + rng.below(0x10000) as u32),
            4 => Some(*rng.pick(&['\'', '"', '$', '(', '*', ')', '{', '}', '/', '#', '%', '.', '\n', '\r'])),
            _ => char::from_u32(0x20 + rng.below(0x5f) as u32),
        };
        if let Some(c) = c {
            s.push(c);
        }
    }
    s
}

fn soup(rng: &mut Rng) -> String {
    let n = 1 + rng.usize(40);
    let mut s = String::new();
    for _ in 0..n {
        s.push_str(*rng.pick(VOCAB));
        match rng.below(4) {
            0 => {}
            _ => s.push(' '),
        }
    }
    s
}

pub fn run(sh: &mut Shard) {
    if let Some(path) = sh.args.replay.clone() {
        return replay(sh, &path);
    }
    let thorough = sh.args.thorough();
    let mut rng = Rng::new(sh.args.shard_seed());
    if let Some(d) = sh.args.get("probe-depth").map(|d| d.parse::<usize>().unwrap()) {
        // observation mode: one construct (positional kind index) at depth d
        let k: usize = sh.args.get("probe-kind").and_then(|k| k.parse().ok()).unwrap_or(0);
        let (text, name) = nest(k, d);
        run_case(sh, &format!("probe|{name}|D={d}"), &format!("probe:{name}:{d}"), text, &mut rng, 0);
        return;
    }
    let (shard, nshards) = (sh.args.shard as usize, sh.args.nshards as usize);
    let corpus = corpus_files();
    sh.count("corpus_files", corpus.len() as u64);
    if corpus.is_empty() {
        sh.inconclusive("no .st corpus files found under /repo");
    }

    // 1. nesting generators at the stated bound (every construct, deterministic; sharded)
    for k in 0..NEST_KINDS {
        if k % nshards != shard {
            continue;
        }
        for d in [DEPTH_BOUND / 4, DEPTH_BOUND] {
            let (text, name) = nest(k, d);
            run_case(sh, &format!("nest|{name}|D={d}"), &format!("nest:{name}:{d}"), text, &mut rng, 0);
            sh.seen("nesting_constructs_at_bound", name);
        }
    }
    // 2. corpus as is (+ trivia insertion)
    for (i, (path, text)) in corpus.iter().enumerate() {
        if i % nshards != shard {
            continue;
        }
        let pts = if thorough { 400 } else { 12 };
        run_case(sh, "corpus", path, text.clone(), &mut rng, pts);
    }
    // 2b. snippets of the repository's own tests: as is, and with every (quick: up to 24 evenly spread) single non-trivia
    //     token deleted or doubled, alone and behind another top-level item (error recovery inside every construct)
    let snippets = test_snippets();
    sh.count("test_snippets_scraped", if shard == 0 { snippets.len() as u64 } else { 0 });
    for (i, (label, text)) in snippets.iter().enumerate() {
        if i % nshards != shard {
            continue;
        }
        run_case(sh, "snippet", label, text.clone(), &mut rng, if thorough { 40 } else { 4 });
        let toks: Vec<(usize, usize)> = lex(text).iter().filter(|t| !t.kind.is_trivia()).map(|t| (u32::from(t.range.start()) as usize, u32::from(t.range.end()) as usize)).collect();
        let stride = if thorough { 1 } else { (toks.len() / 24).max(1) };
        let offset = if thorough { 0 } else { rng.usize(stride) };
        for (a, b) in toks.iter().skip(offset).step_by(stride) {
            let deleted = format!("{}{}", &text[..*a], &text[*b..]);
            let doubled = format!("{}{} {}", &text[..*b], &text[*a..*b], &text[*b..]);
            for (what, t) in [("del", deleted), ("dup", doubled)] {
                run_case(sh, "snippet-token-mutant", &format!("{label}:{what}@{a}"), format!("FUNCTION F0 : INT F0 := 1; END_FUNCTION\n{t}"), &mut rng, 0);
                run_case(sh, "snippet-token-mutant", &format!("{label}:{what}@{a}:bare"), t, &mut rng, 0);
                sh.count("snippet_token_mutants", 2);
            }
        }
    }
    // 3. truncation at every char boundary of small corpus files
    let small: Vec<&(String, String)> = corpus.iter().filter(|(_, t)| t.len() <= 4096).collect();
    if !small.is_empty() {
        let nfiles = if thorough { small.len() } else { 3 };
        for j in 0..nfiles {
            let idx = if thorough { j } else { rng.usize(small.len()) };
            if thorough && idx % nshards != shard {
                continue;
            }
            let (path, text) = small[idx];
            let step = if thorough { 1 } else { 7 };
            let mut n = 0;
            for (b, _) in text.char_indices().step_by(step) {
                if !sh.time_left() && !thorough {
                    break;
                }
                run_case(sh, "truncate", &format!("trunc:{path}:{b}"), text[..b].to_string(), &mut rng, 0);
                n += 1;
            }
            sh.count("truncation_points", n);
        }
    }
    // 4. random part until the budget is used
    let mut i = 0u64;
    while sh.time_left() {
        i += 1;
        let mut r = rng.fork(i);
        let (class, label, text, pts) = match r.below(10) {
            0 => ("unicode", "unicode".to_string(), random_unicode(&mut r), 0),
            1 | 2 => ("soup", "soup".to_string(), soup(&mut r), 6),
            3 if !corpus.is_empty() => {
                // random splice of two corpus files at arbitrary char boundaries
                let a = &r.pick(&corpus).1;
                let b = &r.pick(&corpus).1;
                let ia = a.char_indices().map(|x| x.0).nth(r.usize(a.chars().count().max(1))).unwrap_or(0);
                let ib = b.char_indices().map(|x| x.0).nth(r.usize(b.chars().count().max(1))).unwrap_or(0);
                ("splice", "splice".to_string(), format!("{}{}", &a[..ia], &b[ib..]), 0)
            }
            4 => {
                let k = r.usize(NEST_KINDS);
                let d = 1 + r.usize(DEPTH_BOUND);
                let (t, name) = nest(k, d);
                ("nest-random", format!("nest:{name}:{d}"), t, 4)
            }
            _ if !corpus.is_empty() => {
                let a = r.pick(&corpus);
                let b = r.pick(&corpus);
                if a.1.len() > 20000 {
                    continue;
                }
                ("mutant", format!("mut:{}", a.0), mutate_tokens(&mut r, &a.1, &b.1), 6)
            }
            _ => ("soup", "soup".to_string(), soup(&mut r), 6),
        };
        run_case(sh, class, &label, text, &mut r, pts);
    }
    // 5. thorough: probe beyond the bound, as an observation (never a violation)
    if thorough && shard == 0 {
        sh.note(format!("stated nesting bound D={DEPTH_BOUND}; deeper probes are run by the supervisor as separate observation processes"));
    }
}

fn replay(sh: &mut Shard, path: &str) {
    let v: serde_json::Value = serde_json::from_str(&std::fs::read_to_string(path).expect("replay file")).expect("json");
    let r = if v.get("replay").is_some() { v["replay"].clone() } else { v.clone() };
    let r = if r.get("case").is_some() { r["case"].clone() } else { r };
    let mut rng = Rng::new(1);
    match r["kind"].as_str() {
        Some("trivia") => {
            let s = r["text"].as_str().unwrap().to_string();
            let at = r["at"].as_u64().unwrap() as usize;
            let f = r["filler"].as_str().unwrap();
            let t = format!("{}{}{}", &s[..at], f, &s[at..]);
            let (a, ea) = shape(&s);
            let (b, eb) = shape(&t);
            sh.begin("replay", &r);
            if ea == 0 && (eb != 0 || a != b) {
                sh.violation("L5|replay", format!("errors {ea}->{eb}, shape equal: {}", a == b), r.clone());
            }
            sh.end();
        }
        _ => {
            let s = r["text"].as_str().unwrap_or("").to_string();
            run_case(sh, "replay", "replay", s, &mut rng, 400);
        }
    }
}
