//! C16 — rename preserves program meaning and is reversible.

use crate::ctx::{fnv, catch, panic_sig, Shard};
use crate::rng::Rng;
use crate::walk;
use serde_json::{json, Value as J};
use std::collections::BTreeMap;
use text_size::TextSize;
use trust_hir::db::{Database, FileId, SemanticDatabase, SourceDatabase};
use trust_ide::rename::rename;
use trust_runtime::harness::TestHarness;

const POOL: [&str; 14] = ["alpha", "beta", "count", "tmp", "value", "total", "Helper", "Acc", "Main", "gx", "px", "inc", "res", "item"];

/// A two-file project whose identifiers are drawn from a small pool, so that equal names live in
/// different scopes (locals of two POUs, a parameter named like a global, a field named like a variable).
fn project(rng: &mut Rng, unique: bool) -> Vec<String> {
    let mut counter = 0usize;
    let mut pick = |avoid: &[&str]| -> String {
        if unique {
            counter += 1;
            return format!("{}{}", *rng.pick(&POOL), counter);
        }
        for _ in 0..20 {
            let n = *rng.pick(&POOL);
            if !avoid.contains(&n) {
                return n.to_string();
            }
        }
        "fresh".to_string()
    };
    // global-level names must be unique among themselves
    let f = pick(&[]);
    let fb = pick(&[&f]);
    let prog = pick(&[&f, &fb]);
    let ty = pick(&[&f, &fb, &prog]);
    let g = pick(&[&f, &fb, &prog, &ty]);
    let glob = [f.as_str(), fb.as_str(), prog.as_str(), ty.as_str(), g.as_str()];
    // function scope
    let fa = pick(&glob);
    let ft = pick(&[&glob[..], &[fa.as_str()]].concat());
    // fb scope
    let bi = pick(&glob);
    let bo = pick(&[&glob[..], &[bi.as_str()]].concat());
    let bt = pick(&[&glob[..], &[bi.as_str(), bo.as_str()]].concat());
    // struct fields
    let s1 = pick(&[]);
    let s2 = pick(&[&s1]);
    // program scope
    let pa = pick(&glob);
    let pp = pick(&[&glob[..], &[pa.as_str()]].concat());
    let pv = pick(&[&glob[..], &[pa.as_str(), pp.as_str()]].concat());
    let po = pick(&[&glob[..], &[pa.as_str(), pp.as_str(), pv.as_str()]].concat());
    // constants that are used only inside declarations (initial-value expressions), and a second global that may share a local constant's name
    let pc = pick(&[&glob[..], &[pa.as_str(), pp.as_str(), pv.as_str(), po.as_str()]].concat());
    let bc = pick(&[&glob[..], &[bi.as_str(), bo.as_str(), bt.as_str()]].concat());
    let g2_fresh = pick(&glob);
    let g2 = if !unique && fnv(&(pc.as_str(), bc.as_str(), g.as_str())) % 3 == 0 { pc.clone() } else { g2_fresh };
    let file1 = format!(
        "FUNCTION {f} : DINT\nVAR_INPUT {fa} : DINT; END_VAR\nVAR {ft} : DINT := {fa}; END_VAR\n{ft} := {ft} + DINT#1;\n{f} := {ft};\nEND_FUNCTION\n\nFUNCTION_BLOCK {fb}\nVAR_INPUT {bi} : DINT; END_VAR\nVAR_OUTPUT {bo} : DINT; END_VAR\nVAR CONSTANT {bc} : DINT := DINT#4; END_VAR\nVAR {bt} : DINT := {bc}; END_VAR\n{bt} := {bt} + {f}({fa} := {bi});\n{bo} := {bo} + {bt};\nEND_FUNCTION_BLOCK\n"
    );
    let file2 = format!(
        "TYPE {ty} : STRUCT {s1} : DINT; {s2} : DINT; END_STRUCT END_TYPE\n\nPROGRAM {prog}\nVAR CONSTANT {pc} : DINT := DINT#3; END_VAR\nVAR {pa} : {fb}; {pp} : {ty}; {pv} : DINT := {pc}; {po} : DINT := {pc} + DINT#1; END_VAR\nVAR_EXTERNAL {g} : DINT; END_VAR\n{pa}({bi} := {pv});\n{po} := {f}({fa} := {pa}.{bo}) + {pp}.{s1};\n{pp}.{s2} := {po};\n{pv} := {pv} + DINT#1;\n{g} := {g} + {pv};\nEND_PROGRAM\n\nCONFIGURATION Conf\nVAR_GLOBAL {g} : DINT; {g2} : DINT := DINT#100; END_VAR\nPROGRAM P1 : {prog};\nEND_CONFIGURATION\n"
    );
    vec![file1, file2]
}

fn load(files: &[String]) -> Database {
    let mut db = Database::new();
    for (i, t) in files.iter().enumerate() {
        db.set_source_text(FileId(i as u32 + 1), t.clone());
    }
    db
}

fn idents(text: &str) -> Vec<(usize, usize)> {
    trust_syntax::lex(text).iter().filter(|t| format!("{:?}", t.kind) == "Ident").map(|t| (usize::from(t.range.start()), usize::from(t.range.end()))).collect()
}

/// offset mapping through a set of edits (sorted, non-overlapping)
fn map_offset(edits: &[(usize, usize, usize)], o: usize) -> usize {
    // edits: (start, end, new_len)
    let mut delta: isize = 0;
    for (s, e, nl) in edits {
        if *e <= o {
            delta += *nl as isize - (*e as isize - *s as isize);
        } else if *s <= o {
            // inside an edited identifier: map to its start
            return (*s as isize + delta) as usize;
        }
    }
    (o as isize + delta) as usize
}

fn diag_view(db: &Database, files: &[String], rename_from: &str, rename_to: &str, map: Option<&BTreeMap<usize, Vec<(usize, usize, usize)>>>) -> Vec<String> {
    let mut v = Vec::new();
    for i in 0..files.len() {
        for d in db.diagnostics(FileId(i as u32 + 1)).iter() {
            let start = usize::from(d.range.start());
            let start = match map {
                Some(m) => map_offset(m.get(&i).map(|x| x.as_slice()).unwrap_or(&[]), start),
                None => start,
            };
            // messages mention names: normalise the renamed name
            let msg = d.message.replace(rename_from, "\u{1}").replace(&rename_from.to_ascii_uppercase(), "\u{1}").replace(rename_to, "\u{1}");
            v.push(format!("{i}:{start}:{:?}:{msg}", d.code));
        }
    }
    v.sort();
    v
}

/// occurrence -> declaration, as (file, ident index) -> (file, start) of the definition
fn bindings(db: &Database, files: &[String]) -> Vec<Option<(u32, usize)>> {
    let mut v = Vec::new();
    for (i, t) in files.iter().enumerate() {
        for (s, _) in idents(t) {
            let d = trust_ide::goto_definition(db, FileId(i as u32 + 1), TextSize::from(s as u32));
            v.push(d.map(|d| (d.file_id.0, usize::from(d.range.start()))));
        }
    }
    v
}

fn behaviour(files: &[String], from: &str, to: &str) -> Option<Vec<(String, String)>> {
    let refs: Vec<&str> = files.iter().map(|s| s.as_str()).collect();
    let mut h = TestHarness::from_sources(&refs).ok()?;
    let mut out = Vec::new();
    for c in 0..3 {
        h.advance_time(trust_runtime::value::Duration::from_millis(1));
        let r = h.cycle();
        out.push((format!("#{c}.err"), format!("{:?}", r.errors)));
        for (p, v) in walk::snapshot(h.runtime().storage()) {
            // the renamed key compares under a neutral name
            let p2: Vec<String> = p.split('.').map(|seg| if seg.eq_ignore_ascii_case(from) || seg.eq_ignore_ascii_case(to) { "\u{1}".to_string() } else { seg.to_string() }).collect();
            out.push((format!("#{c}.{}", p2.join(".")), v.replace(from, "\u{1}").replace(to, "\u{1}")));
        }
    }
    out.sort();
    Some(out)
}

/// Kind of the symbol declared or referenced at an identifier (via goto_definition + symbol table range lookup).
fn symbol_kind_at(db: &Database, files: &[String], fi: usize, start: usize) -> String {
    let def = trust_ide::goto_definition(db, FileId(fi as u32 + 1), TextSize::from(start as u32));
    let Some(def) = def else { return "unresolved".into() };
    let syms = db.file_symbols(def.file_id);
    let _ = files;
    for s in syms.iter() {
        if s.origin.is_none() && s.range == def.range {
            let k = format!("{:?}", s.kind);
            return k.split(|c| c == '{' || c == '(' || c == ' ').next().unwrap_or("").to_string();
        }
    }
    "field-or-other".into()
}

pub struct Stats {
    trials: u64,
    refused: u64,
    renamed: u64,
    bindings_checked: u64,
    behaviour_compared: u64,
    roundtrips: u64,
}

#[allow(clippy::too_many_arguments)]
fn trial(files: &[String], fi: usize, pos: (usize, usize), new_name: &str, base_diags_cache: &mut Option<Vec<String>>, base_bind: &[Option<(u32, usize)>], st: &mut Stats) -> Result<(), (String, String)> {
    let db = load(files);
    let old = files[fi][pos.0..pos.1].to_string();
    st.trials += 1;
    let Some(res) = rename(&db, FileId(fi as u32 + 1), TextSize::from(pos.0 as u32), new_name) else {
        st.refused += 1;
        return Ok(());
    };
    if res.edit_count() == 0 {
        st.refused += 1;
        return Ok(());
    }
    if new_name == old {
        return Ok(());
    }
    // (1) edits well-formed
    let mut per_file: BTreeMap<usize, Vec<(usize, usize, usize)>> = BTreeMap::new();
    for (fid, edits) in &res.edits {
        let idx = fid.0 as usize - 1;
        let Some(text) = files.get(idx) else { return Err(("edit|unknown-file".into(), format!("edit for file id {}", fid.0))) };
        let mut es: Vec<(usize, usize, usize)> = Vec::new();
        for e in edits {
            let (s, en) = (usize::from(e.range.start()), usize::from(e.range.end()));
            if s > en || en > text.len() || !text.is_char_boundary(s) || !text.is_char_boundary(en) {
                return Err(("edit|out-of-bounds".into(), format!("edit {s}..{en} in a file of {} bytes", text.len())));
            }
            let replaced = &text[s..en];
            if !replaced.eq_ignore_ascii_case(&old) {
                return Err(("edit|replaces-something-else".into(), format!("renaming {old:?} -> {new_name:?}: an edit replaces {replaced:?} at {s}..{en} of file {}", idx + 1)));
            }
            if e.new_text != new_name {
                return Err(("edit|wrong-new-text".into(), format!("edit inserts {:?}", e.new_text)));
            }
            es.push((s, en, e.new_text.len()));
        }
        es.sort();
        es.dedup();
        for w in es.windows(2) {
            if w[0].1 > w[1].0 {
                return Err(("edit|overlapping".into(), format!("edits {:?} and {:?} overlap", w[0], w[1])));
            }
        }
        per_file.insert(idx, es);
    }
    // apply
    let mut files2 = files.to_vec();
    for (idx, es) in &per_file {
        let mut t = files[*idx].clone();
        for (s, e, _) in es.iter().rev() {
            t.replace_range(*s..*e, new_name);
        }
        files2[*idx] = t;
    }
    st.renamed += 1;
    let db2 = load(&files2);
    // (2) diagnostics up to the name
    let d1 = base_diags_cache.get_or_insert_with(|| diag_view(&db, files, "\u{2}", "\u{2}", None)).clone();
    let d1n: Vec<String> = {
        // re-render P's diagnostics with mapped ranges and the name normalised
        diag_view(&db, files, &old, new_name, Some(&per_file))
    };
    let _ = d1;
    let d2 = diag_view(&db2, &files2, &old, new_name, None);
    if d1n != d2 {
        let only2: Vec<&String> = d2.iter().filter(|x| !d1n.contains(x)).collect();
        let only1: Vec<&String> = d1n.iter().filter(|x| !d2.contains(x)).collect();
        return Err(("diagnostics-changed".into(), format!("renaming {old:?} -> {new_name:?} at file {} offset {}: new diagnostics {:?}, vanished {:?}", fi + 1, pos.0, only2.iter().take(3).collect::<Vec<_>>(), only1.iter().take(3).collect::<Vec<_>>())));
    }
    // (3) binding structure: every occurrence resolves to the (mapped) same declaration
    let b2 = bindings(&db2, &files2);
    if b2.len() != base_bind.len() {
        return Err(("binding|identifier-count-changed".into(), format!("{} identifiers before, {} after", base_bind.len(), b2.len())));
    }
    // goto_definition is only trusted for occurrences the rename is about: the renamed occurrences and
    // the pre-existing occurrences of the new name (elsewhere it conflates same-named symbols of other scopes)
    let mut relevant: Vec<bool> = Vec::new();
    for (i, t) in files.iter().enumerate() {
        let es = per_file.get(&i).cloned().unwrap_or_default();
        for (s0, e0) in idents(t) {
            let renamed = es.iter().any(|(a, b, _)| *a == s0 && *b == e0);
            relevant.push(renamed || t[s0..e0].eq_ignore_ascii_case(new_name));
        }
    }
    for (k, (a, b)) in base_bind.iter().zip(b2.iter()).enumerate() {
        if !relevant.get(k).copied().unwrap_or(false) {
            continue;
        }
        st.bindings_checked += 1;
        let mapped = a.map(|(f, s)| (f, map_offset(per_file.get(&(f as usize - 1)).map(|x| x.as_slice()).unwrap_or(&[]), s)));
        if mapped != *b {
            return Err((
                "binding|captured-or-shadowed".into(),
                format!("renaming {old:?} -> {new_name:?} (file {} offset {}): identifier occurrence #{k} resolved to {:?} before (mapped {:?}) and resolves to {:?} after", fi + 1, pos.0, a, mapped, b),
            ));
        }
    }
    // (4) behaviour (when the new name already exists in the project the name-neutral comparison is
    // ambiguous; capture is then decided by the binding map above)
    let name_exists = files.iter().any(|t| idents(t).into_iter().any(|(a, b)| t[a..b].eq_ignore_ascii_case(new_name) && !t[a..b].eq_ignore_ascii_case(&old)));
    if name_exists {
        // nothing
    } else if let Some(beh1) = behaviour(files, &old, new_name) {
        match behaviour(&files2, &old, new_name) {
            None => return Err(("behaviour|renamed-project-does-not-build".into(), format!("renaming {old:?} -> {new_name:?}: the original project builds and runs, the renamed one is rejected"))),
            Some(beh2) => {
                st.behaviour_compared += 1;
                if beh1 != beh2 {
                    let d = beh1.iter().zip(beh2.iter()).find(|(x, y)| x != y).map(|(x, y)| format!("{x:?} vs {y:?}")).unwrap_or_else(|| format!("{} vs {} entries", beh1.len(), beh2.len()));
                    return Err(("behaviour|state-differs".into(), format!("renaming {old:?} -> {new_name:?}: {d}")));
                }
            }
        }
    }
    // (5) rename back restores the text exactly
    let back_pos = map_offset(per_file.get(&fi).map(|x| x.as_slice()).unwrap_or(&[]), pos.0);
    match rename(&db2, FileId(fi as u32 + 1), TextSize::from(back_pos as u32), &old) {
        None => return Err(("roundtrip|rename-back-refused".into(), format!("{old:?} -> {new_name:?} succeeded but renaming back to {old:?} is refused"))),
        Some(r2) => {
            let mut files3 = files2.clone();
            for (fid, edits) in &r2.edits {
                let idx = fid.0 as usize - 1;
                let mut es: Vec<(usize, usize)> = edits.iter().map(|e| (usize::from(e.range.start()), usize::from(e.range.end()))).collect();
                es.sort();
                es.dedup();
                let mut t = files2[idx].clone();
                for (s, e) in es.iter().rev() {
                    if *e <= t.len() && t.is_char_boundary(*s) && t.is_char_boundary(*e) {
                        t.replace_range(*s..*e, &old);
                    }
                }
                files3[idx] = t;
            }
            st.roundtrips += 1;
            // the original spelling at *other* occurrences may differ in case; compare case-insensitively only there
            if files3 != files {
                let same_ci = files3.iter().zip(files.iter()).all(|(a, b)| a.eq_ignore_ascii_case(b));
                if !same_ci {
                    return Err(("roundtrip|text-not-restored".into(), format!("{old:?} -> {new_name:?} -> {old:?} does not restore the project text")));
                }
            }
        }
    }
    Ok(())
}

fn run_project(sh: &mut Shard, files: &[String], rng: &mut Rng, every: usize, suite: &str) {
    let db = load(files);
    // only error-free projects are in scope
    let errors: usize = (0..files.len()).map(|i| db.diagnostics(FileId(i as u32 + 1)).iter().filter(|d| format!("{:?}", d.severity).contains("Error")).count()).sum();
    if errors > 0 {
        sh.count("projects_with_errors_skipped", 1);
        return;
    }
    sh.count("projects", 1);
    let base_bind = bindings(&db, files);
    let mut names: Vec<String> = files.iter().flat_map(|t| idents(t).into_iter().map(|(s, e)| t[s..e].to_string()).collect::<Vec<_>>()).collect();
    names.sort();
    names.dedup();
    let mut st = Stats { trials: 0, refused: 0, renamed: 0, bindings_checked: 0, behaviour_compared: 0, roundtrips: 0 };
    let mut cache = None;
    let mut k = 0usize;
    for (fi, t) in files.iter().enumerate() {
        for (s, e) in idents(t) {
            let old = t[s..e].to_string();
            let mut cands: Vec<String> = vec!["zz_fresh".into(), old.to_ascii_uppercase(), "IF".into(), "1abc".into(), "a b".into(), "END_VAR".into(), "".into(), "DINT".into()];
            cands.extend(names.iter().filter(|n| **n != old).cloned());
            // an existing name typed in another letter case than its declaration and references use (identifiers are case-insensitive)
            cands.extend(names.iter().filter(|n| !n.eq_ignore_ascii_case(&old)).map(|n| if n.to_ascii_uppercase() != **n { n.to_ascii_uppercase() } else { n.to_ascii_lowercase() }).filter(|v| !names.contains(v)));
            for nn in cands {
                k += 1;
                if k % every != rng.usize(every.max(1)) % every.max(1) && every > 1 {
                    continue;
                }
                let case = json!({"files": files, "file": fi, "start": s, "end": e, "new_name": nn});
                let class = if nn == "zz_fresh" { "fresh" } else if names.contains(&nn) { "existing-name" } else if nn.eq_ignore_ascii_case(&old) { "case-variant" } else if names.iter().any(|n| n.eq_ignore_ascii_case(&nn)) { "existing-name-in-another-case" } else { "invalid-or-keyword" };
                if !sh.begin(&format!("{suite}|{class}"), &case) {
                    continue;
                }
                let before = st.renamed;
                match catch(|| trial(files, fi, (s, e), &nn, &mut cache, &base_bind, &mut st)) {
                    Err(p) => sh.violation(format!("panic|{}", panic_sig(&p)), p, case.clone()),
                    Ok(Err((sig, d))) => {
                        let kind = symbol_kind_at(&db, files, fi, s);
                        // what the new name collides with, if anything
                        let clash = if names.contains(&nn) {
                            let at = files.iter().enumerate().find_map(|(j, t)| idents(t).into_iter().find(|(a, b)| t[*a..*b] == nn).map(|(a, _)| (j, a)));
                            at.map(|(j, a)| symbol_kind_at(&db, files, j, a)).unwrap_or_else(|| "?".into())
                        } else {
                            "-".into()
                        };
                        // diagnostics: name the first code that appeared / vanished
                        let code = d.split("new diagnostics [\"").nth(1).and_then(|x| x.split(':').nth(2)).unwrap_or("").to_string();
                        {
                            let _ = &clash;
                            sh.violation(format!("{suite}|{sig}|{class}|sym={kind}|{code}"), d, case.clone())
                        }
                    }
                    Ok(Ok(())) => {
                        if st.renamed > before {
                            sh.nontrivial(&(files.to_vec(), fi, s, nn.clone()));
                            if sh.want_sample() {
                                sh.sample(json!({"rename": old, "to": nn, "file": fi + 1, "offset": s}));
                            }
                        }
                    }
                }
                sh.end();
            }
        }
    }
    sh.count("rename_trials", st.trials);
    sh.count("refused", st.refused);
    sh.count("renames_applied", st.renamed);
    sh.count("bindings_compared", st.bindings_checked);
    sh.count("behaviour_runs_compared", st.behaviour_compared);
    sh.count("rename_back_round_trips", st.roundtrips);
}

pub fn run(sh: &mut Shard) {
    if let Some(path) = sh.args.replay.clone() {
        let v: J = serde_json::from_str(&std::fs::read_to_string(path).expect("replay")).expect("json");
        let r = if v.get("replay").is_some() { v["replay"].clone() } else { v };
        let r = if r.get("case").is_some() { r["case"].clone() } else { r };
        let files: Vec<String> = r["files"].as_array().unwrap().iter().map(|x| x.as_str().unwrap().to_string()).collect();
        let db = load(&files);
        let bb = bindings(&db, &files);
        let mut st = Stats { trials: 0, refused: 0, renamed: 0, bindings_checked: 0, behaviour_compared: 0, roundtrips: 0 };
        sh.begin("replay", &r);
        if let Err((sig, d)) = trial(&files, r["file"].as_u64().unwrap() as usize, (r["start"].as_u64().unwrap() as usize, r["end"].as_u64().unwrap() as usize), r["new_name"].as_str().unwrap(), &mut None, &bb, &mut st) {
            sh.violation(sig, d, r.clone());
        }
        sh.end();
        return;
    }
    let rng = Rng::new(sh.args.shard_seed());
    let every = if sh.args.thorough() { 1 } else { 3 };
    if sh.args.shard == 0 {
        // a fixed project with inheritance: members of a base function block used bare in a derived one
        let files = vec![
            "FUNCTION_BLOCK Base\nVAR speed : DINT; limit : DINT := DINT#10; END_VAR\nspeed := speed + DINT#1;\nEND_FUNCTION_BLOCK\n\nFUNCTION_BLOCK Derived EXTENDS Base\nVAR_OUTPUT outv : DINT; END_VAR\nspeed := speed + DINT#2;\nIF speed > limit THEN\n  speed := DINT#0;\nEND_IF;\noutv := speed;\nEND_FUNCTION_BLOCK\n".to_string(),
            "PROGRAM Main\nVAR d : Derived; r : DINT; END_VAR\nVAR_EXTERNAL gtop : DINT; END_VAR\nd();\nr := d.outv;\ngtop := gtop + r;\nEND_PROGRAM\n\nCONFIGURATION Conf\nVAR_GLOBAL gtop : DINT; top : DINT := DINT#100; END_VAR\nPROGRAM P1 : Main;\nEND_CONFIGURATION\n".to_string(),
        ];
        let mut g = rng.fork(999_999);
        run_project(sh, &files, &mut g, 1, "inherit");
    }
    if sh.args.shard == 1 % sh.args.nshards {
        // a fixed project of files with the same layout (round e): every declaration of file 0 sits at the byte range of another
        // declaration in file 1, so a symbol looked up by its range alone can be confused with its twin in the other file
        let files = vec![
            "FUNCTION_BLOCK Pump\nVAR_INPUT inlet : DINT; END_VAR\nVAR_OUTPUT flow : DINT; END_VAR\nVAR gain : DINT := DINT#2; END_VAR\nflow := inlet * gain;\nEND_FUNCTION_BLOCK\n".to_string(),
            "FUNCTION_BLOCK Tank\nVAR_INPUT level : DINT; END_VAR\nVAR_OUTPUT fill : DINT; END_VAR\nVAR step : DINT := DINT#3; END_VAR\nfill := level + step;\nEND_FUNCTION_BLOCK\n".to_string(),
            "PROGRAM Main\nVAR p : Pump; t : Tank; a : DINT; b : DINT; END_VAR\np(inlet := DINT#4);\nt(level := DINT#5);\na := p.flow;\nb := t.fill;\nEND_PROGRAM\n\nCONFIGURATION Conf\nPROGRAM P1 : Main;\nEND_CONFIGURATION\n".to_string(),
        ];
        let mut g = rng.fork(999_998);
        run_project(sh, &files, &mut g, 1, "twin");
        // and the same twins in the other order (which file is loaded first decides which symbol a range lookup meets first)
        let files2 = vec![files[1].clone(), files[0].clone(), files[2].clone()];
        run_project(sh, &files2, &mut g, 1, "twin");
    }
    if sh.args.shard == 2 % sh.args.nshards {
        // a fixed project whose names also occur where no identifier token / field expression stands (round e, reported by a
        // sub-agent): the prefix of enumeration literals (`E_State#Idle`) and the names in a structure initialiser (`(fa := 3)`)
        let enum_files = vec![
            "TYPE E_State : (Idle, Running, Done); END_TYPE\n".to_string(),
            "PROGRAM Main\nVAR st : E_State; cnt : DINT; END_VAR\nIF st = E_State#Idle THEN\n  st := E_State#Running;\nEND_IF;\ncnt := cnt + DINT#1;\nEND_PROGRAM\n\nCONFIGURATION Conf\nPROGRAM P1 : Main;\nEND_CONFIGURATION\n".to_string(),
        ];
        let struct_files = vec![
            "TYPE Rec : STRUCT fa : DINT; fb : DINT; END_STRUCT END_TYPE\n".to_string(),
            "PROGRAM Main\nVAR r : Rec := (fa := 3, fb := 4); cnt : DINT; END_VAR\ncnt := cnt + r.fa + r.fb;\nEND_PROGRAM\n\nCONFIGURATION Conf\nPROGRAM P1 : Main;\nEND_CONFIGURATION\n".to_string(),
        ];
        let mut g = rng.fork(999_997);
        run_project(sh, &enum_files, &mut g, 1, "literals");
        run_project(sh, &struct_files, &mut g, 1, "literals");
    }
    let mut i = 0u64;
    while sh.time_left() {
        i += 1;
        let mut g = rng.fork(i);
        let unique = i % 2 == 1;
        let files = project(&mut g, unique);
        run_project(sh, &files, &mut g, every, if unique { "unique" } else { "shared" });
    }
}
