//! Minimal stdio Debug Adapter Protocol client for the trust-debug binary.

use serde_json::{json, Value as J};
use std::io::{BufRead, BufReader, Read, Write};
use std::process::{Child, ChildStdin, Command, Stdio};
use std::sync::mpsc::{channel, Receiver};
use std::time::{Duration, Instant};

pub struct Dap {
    child: Child,
    stdin: ChildStdin,
    rx: Receiver<J>,
    seq: u64,
    /// every event received so far, with its arrival time
    pub events: Vec<(Instant, J)>,
}

pub fn dap_binary() -> std::path::PathBuf {
    let target = std::env::var("TPV_TARGET").unwrap_or_else(|_| "/verif/target".into());
    std::path::PathBuf::from(target).join("repo/debug/trust-debug")
}

impl Dap {
    pub fn start(env: &[(&str, String)]) -> Result<Dap, String> {
        let bin = dap_binary();
        if !bin.exists() {
            return Err(format!("{} not built", bin.display()));
        }
        let mut cmd = Command::new(bin);
        cmd.stdin(Stdio::piped()).stdout(Stdio::piped()).stderr(Stdio::null()).env("RUST_LOG", "off");
        for (k, v) in env {
            cmd.env(k, v);
        }
        let mut child = cmd.spawn().map_err(|e| e.to_string())?;
        let stdin = child.stdin.take().unwrap();
        let stdout = child.stdout.take().unwrap();
        let (tx, rx) = channel();
        std::thread::spawn(move || {
            let mut r = BufReader::new(stdout);
            loop {
                let mut len = 0usize;
                loop {
                    let mut line = String::new();
                    match r.read_line(&mut line) {
                        Ok(0) | Err(_) => return,
                        Ok(_) => {}
                    }
                    let l = line.trim_end();
                    if l.is_empty() {
                        break;
                    }
                    if let Some(v) = l.strip_prefix("Content-Length:") {
                        len = v.trim().parse().unwrap_or(0);
                    }
                }
                let mut buf = vec![0u8; len];
                if r.read_exact(&mut buf).is_err() {
                    return;
                }
                if let Ok(v) = serde_json::from_slice::<J>(&buf) {
                    if tx.send(v).is_err() {
                        return;
                    }
                }
            }
        });
        Ok(Dap { child, stdin, rx, seq: 0, events: Vec::new() })
    }

    fn send(&mut self, v: &J) {
        let body = v.to_string();
        let _ = write!(self.stdin, "Content-Length: {}\r\n\r\n{}", body.len(), body);
        let _ = self.stdin.flush();
    }

    fn take(&mut self, v: J) -> Option<J> {
        if v["type"] == "event" {
            if v["event"] != "output" || self.events.len() < 20000 {
                self.events.push((Instant::now(), v));
            }
            None
        } else {
            Some(v)
        }
    }

    /// Send a request and wait for its response; events arriving meanwhile are recorded.
    pub fn request(&mut self, command: &str, arguments: J) -> Result<J, String> {
        self.seq += 1;
        let seq = self.seq;
        let mut m = json!({"seq": seq, "type": "request", "command": command});
        if !arguments.is_null() {
            m["arguments"] = arguments;
        }
        self.send(&m);
        let t0 = Instant::now();
        loop {
            match self.rx.recv_timeout(Duration::from_millis(200)) {
                Ok(v) => {
                    if let Some(r) = self.take(v) {
                        if r["type"] == "response" && r["request_seq"].as_u64() == Some(seq) {
                            return Ok(r);
                        }
                    }
                }
                Err(std::sync::mpsc::RecvTimeoutError::Disconnected) => return Err(format!("adapter closed its output while {command} was pending")),
                Err(_) => {}
            }
            if t0.elapsed().as_secs() >= 20 {
                return Err(format!("no response to {command} within 20 s"));
            }
        }
    }

    /// Send a request whose response is not awaited (it is recorded like any other message when it arrives).
    pub fn request_nowait(&mut self, command: &str, arguments: J) {
        self.seq += 1;
        let mut m = json!({"seq": self.seq, "type": "request", "command": command});
        if !arguments.is_null() {
            m["arguments"] = arguments;
        }
        self.send(&m);
    }

    /// Drain whatever has arrived, waiting at most `d`.
    pub fn pump(&mut self, d: Duration) {
        let t0 = Instant::now();
        loop {
            let left = d.checked_sub(t0.elapsed()).unwrap_or(Duration::ZERO);
            match self.rx.recv_timeout(left.min(Duration::from_millis(20))) {
                Ok(v) => {
                    let _ = self.take(v);
                }
                Err(std::sync::mpsc::RecvTimeoutError::Disconnected) => return,
                Err(_) => {}
            }
            if t0.elapsed() >= d {
                return;
            }
        }
    }

    pub fn stopped_events(&self) -> Vec<(Instant, J)> {
        self.events.iter().filter(|(_, e)| e["event"] == "stopped").cloned().collect()
    }

    pub fn alive(&mut self) -> bool {
        matches!(self.child.try_wait(), Ok(None))
    }

    pub fn wait_exit(&mut self, d: Duration) -> bool {
        let t0 = Instant::now();
        while t0.elapsed() < d {
            if !self.alive() {
                return true;
            }
            std::thread::sleep(Duration::from_millis(10));
        }
        false
    }
}

impl Drop for Dap {
    fn drop(&mut self) {
        let _ = self.child.kill();
        let _ = self.child.wait();
    }
}
