pub mod alloc;
pub mod ctx;
pub mod drv;
pub mod vals;
pub mod walk;
pub mod rng;
pub mod engines;
pub mod gen;
pub mod lsp;
pub mod dap;
pub mod refsem;

use ctx::{Args, Shard};

pub fn main_entry() {
    let argv: Vec<String> = std::env::args().skip(1).collect();
    if argv.is_empty() {
        eprintln!("usage: tpv <engine> [--tier T --seed N --shard i --nshards n --out f --replay f --budget-s S]");
        std::process::exit(2);
    }
    if argv[0] == "run-st" {
        // triage helper: tpv run-st <file.st> [cycles]  -> storage walk after every cycle
        let text = std::fs::read_to_string(&argv[1]).expect("read");
        let n: usize = argv.get(2).and_then(|s| s.parse().ok()).unwrap_or(1);
        match trust_runtime::harness::TestHarness::from_source(&text) {
            Err(e) => println!("REJECTED: {e}"),
            Ok(mut h) => {
                for c in 0..n {
                    h.advance_time(trust_runtime::value::Duration::from_millis(10));
                    let r = h.cycle();
                    println!("-- cycle {c}: errors {:?}", r.errors);
                    for (k, v) in walk::snapshot(h.runtime().storage()) {
                        println!("{k} = {v}");
                    }
                }
            }
        }
        return;
    }
    if argv[0] == "c05-names" {
        engines::c05::debug_names(argv.get(1).and_then(|s| s.parse().ok()).unwrap_or(1));
        return;
    }
    if argv[0] == "c05-child" {
        ctx::install_panic_hook();
        std::process::exit(engines::c05::child(&argv[1..]));
    }
    if argv[0] == "c10-child" {
        std::process::exit(engines::c10::child(&argv[1..]));
    }
    let args = Args::parse(&argv);
    ctx::install_panic_hook();
    let engine = args.engine.clone();
    let mut shard = Shard::new(args);
    if !engines::dispatch(&engine, &mut shard) {
        eprintln!("unknown engine {engine}");
        std::process::exit(2);
    }
    shard.finish();
}
