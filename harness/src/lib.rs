pub mod ctx;
pub mod rng;
pub mod engines;

use ctx::{Args, Shard};

pub fn main_entry() {
    let argv: Vec<String> = std::env::args().skip(1).collect();
    if argv.is_empty() {
        eprintln!("usage: tpv <engine> [--tier T --seed N --shard i --nshards n --out f --replay f --budget-s S]");
        std::process::exit(2);
    }
    let args = Args::parse(&argv);
    ctx::install_panic_hook();
    let engine = args.engine.clone();
    let mut shard = Shard::new(args);
    if !engines::dispatch(&engine, &mut shard) {
        eprintln!("unknown engine {engine}");
        std::process::exit(2);
    }
    shard.finish();
}
