#[global_allocator]
static GLOBAL: tpv::alloc::CountingAlloc = tpv::alloc::CountingAlloc;

fn main() {
    tpv::main_entry();
}
