fn main() { tpv::main_entry(); }
