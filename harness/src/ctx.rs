//! Shard context: argument parsing, case journal, result collection.
//!
//! Every engine runs inside one `Shard`. The shard writes a journal line
//! before and after each case so that the supervisor can attribute an abort,
//! stack overflow or hang to the case in flight, and writes one JSON result
//! file at the end.

use serde_json::{json, Map, Value};
use std::collections::{BTreeMap, BTreeSet};
use std::fs::File;
use std::hash::{Hash, Hasher};
use std::io::Write;
use std::time::Instant;

#[derive(Clone, Debug)]
pub struct Args {
    pub engine: String,
    pub tier: String,
    pub seed: u64,
    pub shard: u64,
    pub nshards: u64,
    pub out: Option<String>,
    pub replay: Option<String>,
    pub budget_s: f64,
    pub resume_after: Option<u64>,
    pub extra: BTreeMap<String, String>,
    pub positional: Vec<String>,
}

impl Args {
    pub fn parse(argv: &[String]) -> Args {
        let mut a = Args {
            engine: argv.first().cloned().unwrap_or_default(),
            tier: "quick".into(),
            seed: 1,
            shard: 0,
            nshards: 1,
            out: None,
            replay: None,
            budget_s: 20.0,
            resume_after: None,
            extra: BTreeMap::new(),
            positional: Vec::new(),
        };
        let mut i = 1;
        while i < argv.len() {
            let k = argv[i].as_str();
            let v = argv.get(i + 1).cloned();
            match k {
                "--tier" => a.tier = v.unwrap(),
                "--seed" => a.seed = v.unwrap().parse().unwrap(),
                "--shard" => a.shard = v.unwrap().parse().unwrap(),
                "--nshards" => a.nshards = v.unwrap().parse().unwrap(),
                "--out" => a.out = v,
                "--replay" => a.replay = v,
                "--budget-s" => a.budget_s = v.unwrap().parse().unwrap(),
                "--resume-after" => a.resume_after = Some(v.unwrap().parse().unwrap()),
                _ if k.starts_with("--") => {
                    a.extra.insert(k[2..].to_string(), v.unwrap_or_default());
                }
                _ => {
                    a.positional.push(k.to_string());
                    i += 1;
                    continue;
                }
            }
            i += 2;
        }
        a
    }
    pub fn thorough(&self) -> bool {
        self.tier == "thorough"
    }
    pub fn get(&self, k: &str) -> Option<&str> {
        self.extra.get(k).map(|s| s.as_str())
    }
    /// Seed for this shard derived from (VERIF_SEED, engine, shard).
    pub fn shard_seed(&self) -> u64 {
        let mut h = Fnv::default();
        self.seed.hash(&mut h);
        self.engine.hash(&mut h);
        self.shard.hash(&mut h);
        h.finish()
    }
}

/// FNV-1a, stable across processes (std's DefaultHasher is too, but this is explicit).
#[derive(Clone)]
pub struct Fnv(u64);
impl Default for Fnv {
    fn default() -> Self {
        Fnv(0xcbf29ce484222325)
    }
}
impl Hasher for Fnv {
    fn finish(&self) -> u64 {
        self.0
    }
    fn write(&mut self, bytes: &[u8]) {
        for b in bytes {
            self.0 ^= *b as u64;
            self.0 = self.0.wrapping_mul(0x100000001b3);
        }
    }
}
pub fn fnv<T: Hash + ?Sized>(t: &T) -> u64 {
    let mut h = Fnv::default();
    t.hash(&mut h);
    h.finish()
}
pub fn fnv_bytes(b: &[u8]) -> u64 {
    let mut h = Fnv::default();
    h.write(b);
    h.finish()
}

pub struct Shard {
    pub args: Args,
    journal: Option<File>,
    pub evaluations: u64,
    nontrivial: BTreeSet<u64>,
    violations: BTreeMap<String, (u64, Value)>,
    samples: Vec<Value>,
    sample_cap: usize,
    counters: BTreeMap<String, u64>,
    sets: BTreeMap<String, BTreeSet<String>>,
    inconclusive: Vec<String>,
    notes: Vec<String>,
    start: Instant,
    case_idx: u64,
    in_case: bool,
}

impl Shard {
    pub fn new(args: Args) -> Shard {
        let journal = args.out.as_ref().map(|o| {
            std::fs::OpenOptions::new()
                .create(true)
                .append(true)
                .open(format!("{o}.journal"))
                .expect("journal")
        });
        Shard {
            args,
            journal,
            evaluations: 0,
            nontrivial: BTreeSet::new(),
            violations: BTreeMap::new(),
            samples: Vec::new(),
            sample_cap: 4,
            counters: BTreeMap::new(),
            sets: BTreeMap::new(),
            inconclusive: Vec::new(),
            notes: Vec::new(),
            start: Instant::now(),
            case_idx: 0,
            in_case: false,
        }
    }
    pub fn elapsed(&self) -> f64 {
        self.start.elapsed().as_secs_f64()
    }
    pub fn time_left(&self) -> bool {
        self.elapsed() < self.args.budget_s
    }
    /// Open a further time box of `secs` seconds from now (for a part that must run even when an earlier part used the budget).
    pub fn extend_budget(&mut self, secs: f64) {
        self.args.budget_s = self.elapsed() + secs * std::env::var("VERIF_BUDGET_SCALE").ok().and_then(|s| s.parse::<f64>().ok()).unwrap_or(1.0);
    }
    /// Begin a case. Returns false when the case must be skipped (resume after a crash).
    /// `class` is the coarse class used for crash signatures; `case` must be enough to replay.
    pub fn begin(&mut self, class: &str, case: &Value) -> bool {
        self.case_idx += 1;
        if let Some(r) = self.args.resume_after {
            if self.case_idx <= r {
                return false;
            }
        }
        if let Some(j) = self.journal.as_mut() {
            let line = format!(
                "B {} {}\n",
                self.case_idx,
                json!({"class": class, "case": case})
            );
            let _ = j.write_all(line.as_bytes());
            let _ = j.flush();
        }
        self.in_case = true;
        self.evaluations += 1;
        true
    }
    pub fn end(&mut self) {
        if let Some(j) = self.journal.as_mut() {
            let _ = j.write_all(format!("E {}\n", self.case_idx).as_bytes());
            let _ = j.flush();
        }
        self.in_case = false;
    }
    pub fn case_idx(&self) -> u64 {
        self.case_idx
    }
    pub fn nontrivial<T: Hash + ?Sized>(&mut self, key: &T) {
        self.nontrivial.insert(fnv(key));
    }
    pub fn nontrivial_count(&self) -> usize {
        self.nontrivial.len()
    }
    pub fn violation(&mut self, sig: impl Into<String>, detail: impl Into<String>, replay: Value) {
        let sig = sig.into();
        let detail = detail.into();
        let size = replay.to_string().len();
        match self.violations.get_mut(&sig) {
            Some((n, v)) => {
                *n += 1;
                // keep the smallest witness
                let old = v["replay"].to_string().len();
                if size < old {
                    *v = json!({"sig": sig, "detail": detail, "replay": replay});
                }
            }
            None => {
                self.violations.insert(
                    sig.clone(),
                    (1, json!({"sig": sig, "detail": detail, "replay": replay})),
                );
            }
        }
    }
    pub fn violation_count(&self) -> usize {
        self.violations.len()
    }
    pub fn count(&mut self, name: &str, n: u64) {
        *self.counters.entry(name.to_string()).or_insert(0) += n;
    }
    pub fn max(&mut self, name: &str, n: u64) {
        let e = self.counters.entry(format!("max:{name}")).or_insert(0);
        if n > *e {
            *e = n;
        }
    }
    /// Record a member of a named set (reported as distinct count + examples).
    pub fn seen(&mut self, set: &str, member: impl Into<String>) {
        let s = self.sets.entry(set.to_string()).or_default();
        if s.len() < 4096 {
            s.insert(member.into());
        }
    }
    pub fn sample(&mut self, v: Value) {
        if self.samples.len() < self.sample_cap {
            self.samples.push(v);
        }
    }
    pub fn want_sample(&self) -> bool {
        self.samples.len() < self.sample_cap
    }
    pub fn inconclusive(&mut self, why: impl Into<String>) {
        let w = why.into();
        if self.inconclusive.len() < 50 {
            self.inconclusive.push(w);
        }
        self.count("inconclusive", 1);
    }
    pub fn note(&mut self, n: impl Into<String>) {
        if self.notes.len() < 50 {
            self.notes.push(n.into());
        }
    }
    pub fn finish(self) {
        let mut m = Map::new();
        m.insert("engine".into(), json!(self.args.engine));
        m.insert("shard".into(), json!(self.args.shard));
        m.insert("evaluations".into(), json!(self.evaluations));
        m.insert(
            "nontrivial".into(),
            Value::Array(
                self.nontrivial
                    .iter()
                    .map(|h| json!(format!("{h:016x}")))
                    .collect(),
            ),
        );
        m.insert(
            "violations".into(),
            Value::Array(
                self.violations
                    .into_iter()
                    .map(|(_, (n, mut v))| {
                        v["count"] = json!(n);
                        v
                    })
                    .collect(),
            ),
        );
        m.insert("samples".into(), Value::Array(self.samples));
        m.insert("counters".into(), json!(self.counters));
        m.insert(
            "sets".into(),
            json!(self
                .sets
                .iter()
                .map(|(k, v)| (k.clone(), v.iter().cloned().collect::<Vec<_>>()))
                .collect::<BTreeMap<_, _>>()),
        );
        m.insert("inconclusive".into(), json!(self.inconclusive));
        m.insert("notes".into(), json!(self.notes));
        m.insert("wall_s".into(), json!(self.start.elapsed().as_secs_f64()));
        let text = Value::Object(m).to_string();
        match &self.args.out {
            Some(o) => {
                let tmp = format!("{o}.tmp");
                std::fs::write(&tmp, text).expect("write result");
                std::fs::rename(&tmp, o).expect("rename result");
            }
            None => println!("{text}"),
        }
    }
}

/// Run `f` catching panics; returns Err(message) on panic.
pub fn catch<T>(f: impl FnOnce() -> T) -> Result<T, String> {
    match std::panic::catch_unwind(std::panic::AssertUnwindSafe(f)) {
        Ok(v) => Ok(v),
        Err(p) => {
            let msg = if let Some(s) = p.downcast_ref::<&str>() {
                s.to_string()
            } else if let Some(s) = p.downcast_ref::<String>() {
                s.clone()
            } else {
                "panic (non-string payload)".to_string()
            };
            let loc = LAST_PANIC_LOC.with(|l| l.borrow().clone());
            Err(format!("{msg} @ {loc}"))
        }
    }
}

thread_local! {
    pub static LAST_PANIC_LOC: std::cell::RefCell<String> = const { std::cell::RefCell::new(String::new()) };
}

/// Install a quiet panic hook that records the location for `catch`.
pub fn install_panic_hook() {
    std::panic::set_hook(Box::new(|info| {
        let loc = info
            .location()
            .map(|l| {
                let f = l.file();
                let f = f.rsplit("/crates/").next().unwrap_or(f);
                format!("{}:{}", f, l.line())
            })
            .unwrap_or_default();
        LAST_PANIC_LOC.with(|l| *l.borrow_mut() = loc);
    }));
}

/// Strip the line number from a "msg @ file:line" panic string to get a stable signature part.
pub fn panic_sig(msg: &str) -> String {
    let (m, loc) = msg.rsplit_once(" @ ").unwrap_or((msg, ""));
    let file = loc.rsplit_once(':').map(|x| x.0).unwrap_or(loc);
    // normalise numbers in the message
    let mut out = String::new();
    let mut last_digit = false;
    for c in m.chars().take(80) {
        if c.is_ascii_digit() {
            if !last_digit {
                out.push('N');
            }
            last_digit = true;
        } else {
            out.push(c);
            last_digit = false;
        }
    }
    format!("{out}@{file}")
}

/// Run a closure on a thread with the given stack size and join it.
pub fn on_stack<T: Send + 'static>(bytes: usize, f: impl FnOnce() -> T + Send + 'static) -> T {
    std::thread::Builder::new()
        .stack_size(bytes)
        .spawn(f)
        .expect("spawn")
        .join()
        .expect("worker thread panicked outside catch")
}
