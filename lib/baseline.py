#!/usr/bin/env python3
"""Run the repository's pinned baseline (hooks OFF) and compare with /root/.vp/BASELINE.json stable_pass."""
import json, subprocess, sys, re
b = json.load(open('/root/.vp/BASELINE.json'))
stable = set(b['stable_pass'])
root = sys.argv[1] if len(sys.argv) > 1 else "/repo"
p = subprocess.run(f"cd {root} && cargo nextest run --workspace --no-fail-fast --test-threads 8 --offline --tool-config-file vf:/verif/lib/nextest.toml --profile vf 2>&1", shell=True, capture_output=True, text=True)
passed, failed = set(), set()
for line in p.stdout.splitlines():
    m = re.match(r"\s+(PASS|FAIL|SIGABRT|SIGSEGV|TIMEOUT|LEAK|FLAKY \d+/\d+|TRY \d+ \w+)\s+\[[^\]]*\]\s+(?:\(\s*\d+/\d+\)\s+)?(\S+)\s+(\S+)", line)
    if m:
        name = f"{m.group(2)}::{m.group(3)}"
        st = m.group(1)
        if st.startswith("TRY"):
            continue  # an intermediate attempt of a retried test; its final line decides
        if st in ("PASS", "LEAK") or st.startswith("FLAKY"):
            passed.add(name)
            failed.discard(name)
        elif name not in passed:
            failed.add(name)
missing = sorted(t for t in stable if t not in passed)
print(f"passed={len(passed)} failed={len(failed - set(x for x in passed))} stable={len(stable)} stable_not_passed={len(missing)}")
for t in missing[:40]:
    print("  NOT PASSED:", t, "(failed)" if t in failed else "(not run)")
if not passed:
    print(p.stdout[-3000:])
sys.exit(1 if missing else 0)
