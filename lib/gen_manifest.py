#!/usr/bin/env python3
"""Regenerate MANIFEST.json from lib/props.py (checks) and properties.jsonl (not_applicable for the rest)."""
import json, os, sys, subprocess
ROOT = os.path.dirname(os.path.dirname(os.path.abspath(__file__)))
sys.path.insert(0, os.path.join(ROOT, "lib"))
from props import PROPS
try:
    from props import NOT_APPLICABLE
except ImportError:
    NOT_APPLICABLE = {}
props = [json.loads(l) for l in open(os.path.join(ROOT, "properties.jsonl"))]
hooks = subprocess.run(["git", "-C", "/repo", "log", "--format=%H %s", "--grep=^verif-hooks:"], capture_output=True, text=True).stdout.strip().splitlines()
checks = []
for p in props:
    c = PROPS.get(p["id"])
    if not c:
        continue
    checks.append({
        "property_id": p["id"],
        "quick_cmd": f"./check {p['id']} --tier quick",
        "thorough_cmd": f"./check {p['id']} --tier thorough",
        "evidence_file": f"evidence/{p['id']}.json",
        "replay_cmd_template": f"./check {p['id']} --replay {{path}}",
        "engine": c["engine"],
        "level_claimed": {"category": c["level"], "text": c["level_text"], "design_ref": c.get("design_ref", "DESIGN.md section 3")},
        "level_note": c["level_note"],
        "technique": c["technique"],
    })
m = {
    "version": 1,
    "setup_cmd": "./setup.sh",
    "hooks": {
        "guard": "cargo feature `verif-hooks` on crate trust-runtime (off by default)",
        "enable": "harness/Cargo.toml path-depends on /repo/crates/trust-runtime with features = [\"debug\", \"verif-hooks\"]; every ./check rebuilds it with `cargo build --offline --profile verif`",
        "baseline_off_cmd": "cd /repo && cargo nextest run --workspace --no-fail-fast --test-threads 8 --offline",
        "source_commits": [h.split()[0] for h in reversed(hooks)],
        "add_only": True,
    },
    "engines": [{"name": "tpv", "path": "harness/", "serves_properties": [c["property_id"] for c in checks],
                 "kind_free_text": "Rust harness linked against /repo/crates/* (feature verif-hooks): workload generators, reference models and runtime monitors; one sub-command per property"},
                {"name": "check", "path": "check", "serves_properties": [c["property_id"] for c in checks],
                 "kind_free_text": "python3 supervisor: rebuild, shard fan-out, crash attribution via case journal, known-finding matching, evidence"},
                {"name": "tpv-miri", "path": "harness_miri/", "serves_properties": ["C12"],
                 "kind_free_text": "second tiny Rust crate interpreted by Miri (cargo +nightly miri run, -Zmiri-disable-stacked-borrows): the C12 lexer / parser monitors plus a full rowan cursor walk on small inputs; auxiliary pass of the thorough tier, never the decider"}],
    "checks": checks,
    "notes": "All checks are runtime monitors over executions of the real code (see DESIGN.md). Exit 3 = inconclusive (too little observed), exit 2 = build/harness error; neither prints VIOLATION.",
    "not_applicable": [{"property_id": p["id"], "reason": NOT_APPLICABLE.get(p["id"], "check not implemented yet (planned, see DESIGN.md section 3)")}
                       for p in props if p["id"] not in PROPS],
}
json.dump(m, open(os.path.join(ROOT, "MANIFEST.json"), "w"), indent=1)
print("checks:", [c["property_id"] for c in checks])
