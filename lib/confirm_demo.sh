#!/bin/bash
# usage: lib/confirm_demo.sh <seeded-dir>
# Runs the seeded change's demonstration (demo/*.rs, an integration test) in the scratch worktree /tmp/basecheck on the
# changed and on the unchanged tree and writes <seeded-dir>/demo_result.txt. Expected: fails on changed, passes on unchanged.
set -u
d=$(realpath "$1")
w=/tmp/basecheck
export CARGO_TARGET_DIR=$w/target CARGO_INCREMENTAL=0 CARGO_PROFILE_DEV_DEBUG=0 CARGO_PROFILE_TEST_DEBUG=0 CARGO_NET_OFFLINE=true
git -C $w checkout -q --detach "$(git -C /repo rev-parse HEAD)" || exit 2
git -C $w checkout -- . && git -C $w clean -fdq -e target
crate=$(grep -oh 'crates/[a-z-]*/tests' "$d"/demo/README.md "$d"/meta.json 2>/dev/null | head -1 | cut -d/ -f2)
crate=${crate:-trust-runtime}
out="$d/demo_result.txt"; : > "$out"
tests=""
for f in "$d"/demo/*.rs; do [ -e "$f" ] || continue; cp "$f" $w/crates/$crate/tests/; tests="$tests --test $(basename "$f" .rs)"; done
# auxiliary sources some demonstrations need next to the test (C shims, data files)
for f in "$d"/demo/*.c "$d"/demo/*.st "$d"/demo/*.json; do [ -e "$f" ] && cp "$f" $w/crates/$crate/tests/; done
if [ -z "$tests" ]; then echo "no demo/*.rs (see README)" >> "$out"; exit 3; fi
(cd $w && timeout 1800 cargo test --offline -p $crate $tests -- --test-threads=1 > /tmp/demo_unchanged.log 2>&1); u=$?
git -C $w apply "$d/patch.diff"
(cd $w && timeout 1800 cargo test --offline -p $crate $tests -- --test-threads=1 > /tmp/demo_changed.log 2>&1); c=$?
echo "crate=$crate tests=$tests" >> "$out"
echo "unchanged tree: exit $u; $(grep -h '^test result' /tmp/demo_unchanged.log | tr '\n' ' ')" >> "$out"
echo "changed tree:   exit $c; $(grep -h '^test result' /tmp/demo_changed.log | tr '\n' ' ')" >> "$out"
grep -h "panicked at\|VIOLATION\|assertion" /tmp/demo_changed.log | head -5 >> "$out"
git -C $w checkout -- . && git -C $w clean -fdq -e target
cat "$out"
[ $u -eq 0 ] && [ $c -ne 0 ]
