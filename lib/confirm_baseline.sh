#!/bin/bash
# usage: lib/confirm_baseline.sh <seeded-dir>
# Applies <seeded-dir>/patch.diff to the scratch worktree /tmp/basecheck (created with
# `git -C /repo worktree add --detach /tmp/basecheck HEAD`), runs the pinned baseline there and writes
# <seeded-dir>/baseline.txt. /repo itself is not touched.
set -u
d=$(realpath "$1")
w=/tmp/basecheck
git -C $w checkout -q --detach "$(git -C /repo rev-parse HEAD)" || exit 2
git -C $w checkout -- . && git -C $w clean -fdq -e target
git -C $w apply "$d/patch.diff" || { echo "patch does not apply" > "$d/baseline.txt"; exit 2; }
export CARGO_TARGET_DIR=$w/target CARGO_INCREMENTAL=0 CARGO_PROFILE_DEV_DEBUG=0 CARGO_PROFILE_TEST_DEBUG=0 CARGO_NET_OFFLINE=true
python3 /verif/lib/baseline.py $w > "$d/baseline.txt" 2>&1
rc=$?
git -C $w checkout -- .
tail -3 "$d/baseline.txt"
exit $rc
