#!/bin/bash
# usage: lib/run_all.sh [quick|thorough] [ID ...]   runs the checks one after the other and prints one summary line each
tier=${1:-quick}; shift
ids=${@:-C01 C02 C03 C04 C05 C06 C07 C08 C09 C10 C11 C12 C13 C14 C15 C16 C17 C18 C19 C20}
fail=0
for id in $ids; do
  out=$(/verif/check $id --tier $tier 2>&1); rc=$?
  line=$(echo "$out" | grep -E "^$id tier=" | head -1)
  kf=$(echo "$out" | grep -c "^KNOWN-FINDING")
  echo "rc=$rc known=$kf $line"
  if [ $rc -ne 0 ]; then fail=1; echo "$out" | grep -E "VIOLATION|violation |INCONCLUSIVE" | head -5 | cut -c1-300; fi
done
exit $fail
