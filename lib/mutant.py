#!/usr/bin/env python3
"""Run checks against a seeded change: apply the patch to /repo, run the given checks, undo the patch.

usage: lib/mutant.py <seeded-dir> [--tier quick|thorough] [--seed N] [ID ...]   (default ID = the property in meta.json)
Writes <seeded-dir>/result.json = {check id: {"exit": rc, "violation": bool, "signatures": [...], "wall_s": t}}.
The patch is never committed; /repo is restored with `git checkout -- .` even when a check crashes."""
import json, os, subprocess, sys, time

# the checks of the tree this script lives in (a git worktree of /verif at a commit works too); the patch always goes to /repo
ROOT = os.path.dirname(os.path.dirname(os.path.abspath(__file__)))

def main():
    args = sys.argv[1:]
    tier, seed = "quick", None
    if "--tier" in args:
        i = args.index("--tier"); tier = args[i + 1]; del args[i:i + 2]
    if "--seed" in args:
        i = args.index("--seed"); seed = args[i + 1]; del args[i:i + 2]
    d = os.path.abspath(args[0])
    meta = json.load(open(os.path.join(d, "meta.json")))
    ids = args[1:] or [meta["property"]]
    patch = os.path.join(d, "patch.diff")
    st = subprocess.run(["git", "-C", "/repo", "status", "--porcelain", "--untracked-files=no"], capture_output=True, text=True).stdout.strip()
    if st:
        sys.exit(f"/repo is not clean:\n{st}")
    subprocess.run(["git", "-C", "/repo", "apply", "--check", patch], check=True)
    subprocess.run(["git", "-C", "/repo", "apply", patch], check=True)
    results = {}
    try:
        for pid in ids:
            env = dict(os.environ)
            if seed:
                env["VERIF_SEED"] = seed
            t0 = time.time()
            p = subprocess.run([os.path.join(ROOT, "check"), pid, "--tier", tier], capture_output=True, text=True, env=env, cwd=ROOT)
            out = p.stdout + p.stderr
            sigs = [l.strip() for l in out.splitlines() if l.strip().startswith("violation ")]
            results[pid] = {"exit": p.returncode, "violation": "VIOLATION property=" in out, "signatures": [s[:300] for s in sigs[:12]],
                            "tier": tier, "wall_s": round(time.time() - t0, 1)}
            print(pid, "exit", p.returncode, "VIOLATION" if results[pid]["violation"] else "silent", f"{results[pid]['wall_s']}s")
            for s in sigs[:6]:
                print("   ", s[:220])
            if p.returncode not in (0, 1):
                print(out[-1500:])
    finally:
        subprocess.run(["git", "-C", "/repo", "checkout", "--", "."], check=True)
        # rebuild from the restored tree so that a later `--no-build` run does not use binaries of the changed tree
        for pid in ids:
            subprocess.run([os.path.join(ROOT, "check"), pid, "--build-only"], capture_output=True, cwd=ROOT)
    rp = os.path.join(d, "result.json")
    old = json.load(open(rp)) if os.path.exists(rp) else {}
    old.update(results)
    json.dump(old, open(rp, "w"), indent=1, sort_keys=True)
    # evidence and replays written by these runs describe the changed tree: drop them (evidence is restored by the next clean run)
    subprocess.run(["git", "-C", ROOT, "checkout", "--", "evidence"], check=False)

if __name__ == "__main__":
    main()
