#!/usr/bin/env python3
"""Validate MANIFEST.json and evidence/*.json against the schemas (uses the tooling venv's jsonschema when present)."""
import json, sys, glob, os
ROOT = os.path.dirname(os.path.dirname(os.path.abspath(__file__)))
try:
    import jsonschema
except ImportError:
    sys.path.insert(0, glob.glob("/opt/veriftools/pyvenv/lib/python3*/site-packages")[0])
    import jsonschema
ok = True
def check(path, schema):
    global ok
    try:
        jsonschema.validate(json.load(open(path)), json.load(open(schema)))
        print("ok  ", path)
    except Exception as e:
        ok = False
        print("FAIL", path, str(e)[:300])
check(os.path.join(ROOT, "MANIFEST.json"), "/root/.vp/MANIFEST.schema.json")
for f in sorted(glob.glob(os.path.join(ROOT, "evidence", "*.json"))):
    check(f, "/root/.vp/EVIDENCE.schema.json")
sys.exit(0 if ok else 1)
