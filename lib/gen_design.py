#!/usr/bin/env python3
"""Regenerate the generated part of DESIGN.md (sections 8-10) from lib/props.py, known_findings.json and seeded/*/.
Everything between the BEGIN/END GENERATED markers is replaced; the rest of DESIGN.md is hand-written."""
import json, os, sys, glob, subprocess
ROOT = os.path.dirname(os.path.dirname(os.path.abspath(__file__)))
sys.path.insert(0, os.path.join(ROOT, "lib"))
from props import PROPS

BEGIN, END = "<!-- BEGIN GENERATED (lib/gen_design.py) -->", "<!-- END GENERATED -->"


def tier(t):
    s = f"{t['shards']} shards x {t['budget_s']} s"
    if t.get("release_pass"):
        s += f" + {t['release_pass']['shards']} x {t['release_pass']['budget_s']} s with release semantics"
    return s


def as_built():
    out = ["## 8. As built: what each check does (generated from `lib/props.py`)", "",
           "This section is authoritative where it differs from the plan in section 3. Every check is `./check <ID> --tier quick|thorough`; "
           "floors are the minimum number of distinct non-trivial cases and the minimum monitor counters below which the run is reported "
           "INCONCLUSIVE (exit 3) instead of held.", ""]
    for pid in sorted(PROPS):
        c = PROPS[pid]
        out += [f"### {pid} — engine `{c['engine']}`" + (f" (`--mode {c['args']['mode']}`)" if c.get("args", {}).get("mode") else "") + f", level `{c['level']}`", ""]
        out += [f"* **Deciding method.** {c['technique']}.", f"* **Oracle.** {c['level_text']}", f"* **Workload and what counts.** {c['rule']}."]
        if c.get("level_note"):
            out.append(f"* **Limits / not covered.** {c['level_note']}")
        if c.get("assumptions"):
            out.append("* **Trusted base / assumptions.** " + "; ".join(c["assumptions"]) + ".")
        out.append(f"* **Tiers.** quick: {tier(c['quick'])}; thorough: {tier(c['thorough'])}. Floors (distinct non-trivial): quick {c.get('floor', {}).get('quick')}, thorough {c.get('floor', {}).get('thorough')}. "
                   f"Required monitor counters (quick): " + (", ".join(f"`{k}` >= {v}" for k, v in c.get("require_counters", {}).get("quick", {}).items()) or "none") + ".")
        if c.get("builds"):
            out.append(f"* **Extra builds.** {', '.join(c['builds'])} (see `check`).")
        out.append("")
    return out


def findings():
    d = json.load(open(os.path.join(ROOT, "known_findings.json")))
    out = ["## 9. Defects found on the pinned tree (generated from `known_findings.json`)", "",
           "### 9.1 Repaired (`fix:` commits in /repo; a fixed entry suppresses nothing)", "", "| property | commit | what failed |", "|---|---|---|"]
    for f in d["fixed"]:
        s = f if isinstance(f, str) else json.dumps(f)
        parts = s.split(" ", 3)
        prop = parts[1].replace("property=", "") if len(parts) > 1 else "?"
        commit = parts[2] if len(parts) > 2 else "?"
        what = parts[3] if len(parts) > 3 else s
        out.append(f"| {prop} | `{commit}` | {what.replace('|', '/')} |")
    out += ["", "### 9.2 Recorded as known findings (check prints `KNOWN-FINDING`, exits 0; any other signature is a VIOLATION)", ""]
    for f in d["findings"]:
        sigs = f.get("signatures", [])
        out += [f"* **{f['id']}** ({f['property']}, {len(sigs)} signature{'s' if len(sigs) != 1 else ''}, e.g. `{sigs[0] if sigs else ''}`) — {f['what']}.",
                f"  *Witness:* `{f.get('witness', '')[:400]}`", f"  *Why not repaired:* {f.get('why_not_fixed', '')}", ""]
    return out


def seeded():
    out = ["## 10. Seeded changes and which checks catch them (generated from `seeded/*/`)", "",
           "Each change was produced by a fresh sub-agent that saw only the property text and a scratch worktree, compiles, passes the pinned baseline "
           "(`baseline.txt`), and comes with a demonstration that fails on the changed tree and passes on the unchanged one (`demo_result.txt`). "
           "`result.json` records what `lib/mutant.py` observed when the patch was applied to /repo (never committed there).", "",
           "| change | property | what it breaks / needs to manifest | baseline | demo (unchanged / changed) | checks that raise VIOLATION | checks run and silent |", "|---|---|---|---|---|---|---|"]
    for d in sorted(glob.glob(os.path.join(ROOT, "seeded", "*"))):
        name = os.path.basename(d)
        try:
            meta = json.load(open(os.path.join(d, "meta.json")))
        except Exception:
            continue
        res = {}
        if os.path.exists(os.path.join(d, "result.json")):
            res = json.load(open(os.path.join(d, "result.json")))
        base = "?"
        if os.path.exists(os.path.join(d, "baseline.txt")):
            t = open(os.path.join(d, "baseline.txt")).read().strip().splitlines()
            base = next((l for l in t if l.startswith("passed=")), "?").replace("stable_not_passed=0", "all 1170 pass").replace("passed=", "").split(" ")[-3:] if t else "?"
            base = " ".join(base) if isinstance(base, list) else base
        demo = "?"
        if os.path.exists(os.path.join(d, "demo_result.txt")):
            t = open(os.path.join(d, "demo_result.txt")).read()
            u = "pass" if "unchanged tree: exit 0" in t else "FAIL"
            c = "fail" if ("changed tree:   exit" in t and "changed tree:   exit 0" not in t) else "pass(!)"
            demo = f"{u} / {c}"
        caught = [f"{k} ({v.get('tier', 'quick')})" for k, v in sorted(res.items()) if v.get("violation")]
        silent = [f"{k} ({v.get('tier', 'quick')})" for k, v in sorted(res.items()) if not v.get("violation")]
        summary = (meta.get("summary", "")[:260] + " **Needs:** " + meta.get("needs_to_manifest", "")[:220]).replace("|", "/").replace("\n", " ")
        out.append(f"| `{name}` | {meta.get('property')} | {summary} | {base} | {demo} | {', '.join(caught) or '—'} | {', '.join(silent) or '—'} |")
    out.append("")
    extra = os.path.join(ROOT, "seeded", "NOTES.md")
    if os.path.exists(extra):
        import re
        txt = open(extra).read().rstrip()
        # pipes inside code spans would split table cells
        txt = re.sub(r"`[^`\n]*`", lambda m: m.group(0).replace("|", "\\|"), txt)
        out += [txt, ""]
    return out


def main():
    p = os.path.join(ROOT, "DESIGN.md")
    s = open(p).read()
    gen = "\n".join([BEGIN, ""] + as_built() + findings() + seeded() + [END])
    if BEGIN in s and END in s:
        s = s[:s.index(BEGIN)] + gen + s[s.index(END) + len(END):]
    else:
        s = s.rstrip() + "\n\n" + gen + "\n"
    open(p, "w").write(s)
    print("DESIGN.md regenerated")


if __name__ == "__main__":
    main()
