#!/bin/bash
# usage: lib/take_seeded.sh <ID-suffix>   copies /tmp/mut/<name>/OUT into /verif/seeded/<name>, queues baseline+demo confirmation
set -e
m=$1
mkdir -p /verif/seeded/$m
cp -r /tmp/mut/$m/OUT/* /verif/seeded/$m/
find /verif/seeded/$m -name '*.log' -size +100k -delete
echo $m >> /tmp/baseq.txt
echo "--- patch:"; cat /verif/seeded/$m/patch.diff | head -60
