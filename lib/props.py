"""Per-property configuration for the supervisor (engine, shards, budgets, evidence texts)."""

PROPS = {}

PROPS["C12"] = {
    "engine": "c12",
    "level": "exploration",
    "technique": "runtime monitors on lexer/parser output (losslessness, tiling, error ranges, purity, trivia-insertion shape) over mutated corpus + generated inputs on a 2 MiB stack",
    "quick": {"shards": 8, "budget_s": 20},
    "thorough": {"shards": 16, "budget_s": 240},
    "floor": {"quick": 2000, "thorough": 20000},
    "require_counters": {"quick": {"trivia_insertions_checked": 500, "purity_compared": 1000},
                         "thorough": {"trivia_insertions_checked": 20000}},
    "rule": "inputs: every .st file under /repo, token-level mutants/splices of them, truncations at char boundaries, "
            "random unicode, token soups, 22 nesting constructs at depth D/4 and D (D=512). distinct = hash of the input text; "
            "non-trivial = the input lexes to >=1 non-trivia token and went through all of L1-L4 (L5 counted separately "
            "in observed.trivia_insertions_checked)",
    "level_text": "Every generated input is lexed and parsed by the real trust_syntax code on a 2 MiB-stack thread while monitors "
                  "check token tiling, tree-text equality, error ranges, purity (second parse on another thread) and shape "
                  "stability under trivia insertion; panics are caught, stack overflows/aborts are attributed through a case "
                  "journal. Decides the property on the executions produced, not for all strings.",
    "level_note": "Trusted: rowan's text()/preorder traversal, my shape extraction; nesting totality claimed only up to depth 512 per construct.",
    "assumptions": ["nesting depth bound D=512 per construct on a 2 MiB stack (half the parser's own MAX_EXPRESSION_DEPTH)",
                    "trivia insertion only at lexer token boundaries of inputs that parse without errors"],
    "design_ref": "DESIGN.md section 8 (as built; plan in section 3), C12",
}

PROPS["C04"] = {
    "engine": "c04",
    "level": "exploration",
    "technique": "differential runtime monitor: interleaved standard-FB instances in generated ST programs vs. independent IEC models, compared after every call",
    "quick": {"shards": 8, "budget_s": 15},
    "thorough": {"shards": 16, "budget_s": 240, "release_pass": {"shards": 16, "budget_s": 60}},
    "floor": {"quick": 1000, "thorough": 20000},
    "require_counters": {"quick": {"instance_steps_compared": 50000}, "thorough": {"instance_steps_compared": 2000000, "evaluations_under_release_semantics": 1000}},
    "rule": "case = (1-6 FB instances of mixed kinds/variants in one PROGRAM, trace of 4-64 cycles with per-instance inputs, call gating and dt "
            "drawn from {0,1ns,1ms,PT-1,PT,PT+1,10PT,2^58,...}; PT/PV incl. 0, negative, type limits). distinct = (FB type list, quantised "
            "trace shape); non-trivial = some instance's Q/QU output changed at least once during the trace (an edge / PT crossing happened)",
    "level_text": "Each trace is executed by the real runtime through TestHarness (advance_time, set_input, cycle, get_output) and every "
                  "instance's outputs are compared after every cycle with an independent model written from the property statement and "
                  "docs/specs/08 (Q, CV, QU/QD exact; ET exact while timing, within [0,PT] after expiry where IEC and the repo docs differ). "
                  "Held on the traces produced; violations are shrunk to a minimal trace.",
    "level_note": "Trusted: the FB models in harness/src/engines/c04.rs (about 120 lines), TestHarness set_input/get_output. Traces with PT changed "
                  "while timing only check output types and absence of panics/errors.",
    "assumptions": ["total trace time < 2^61 ns so the runtime clock itself cannot overflow",
                    "ET after a TOF delay / TP pulse has expired may be anything in [0,PT] (IEC holds PT, docs/specs/08 diagrams drop to 0)"],
    "design_ref": "DESIGN.md section 8 (as built; plan in section 3), C04",
}

PROPS["C10"] = {
    "engine": "c10",
    "level": "fault_enumeration",
    "technique": "LD_PRELOAD crash-point injection at every system call of the real save (before/after/partial write) + bit-exact codec round trip + hostile-file decoding under a counting allocator on a 2 MiB stack",
    "builds": ["shim"],
    "quick": {"shards": 4, "budget_s": 25, "max_restarts": 40},
    "thorough": {"shards": 16, "budget_s": 240, "max_restarts": 60},
    "floor": {"quick": 500, "thorough": 20000},
    "require_counters": {"quick": {"D_acknowledged_saves_verified_on_disk": 1500, "D_saves_refused_by_injected_failure": 400, "B_crash_points_injected": 20, "A_roundtrips_equal": 100, "C_inputs_decoded": 1000},
                         "thorough": {"B_crash_points_injected": 500, "A_roundtrips_equal": 5000}},
    "rule": "snapshot classes: empty, one, small, mixed (random values of all 28 kinds nested up to depth 3), large (2000-10000 scalars), wide (tables of 60-400 structs, 60-200 struct variables, a struct with 100-400 members, arrays of arrays, legal nesting up to depth 32). A: random snapshots over all retainable value shapes (NaN payloads, -0.0, extremes, unicode, nested arrays/structs, 0..10^4 entries), "
            "store->load compared bit-exactly; non-trivial = contains a compound value. B: (s_old,s_new) pairs incl. no previous file, smaller/larger, "
            "multi-write sizes; a dry run under the shim records the save's system-call sequence, then EVERY call n x {die before, die after, "
            "partial write of 1, len/2, len-1 bytes} is injected in a child process; non-trivial = the child really died at the injected point "
            "(exit 137). C: every prefix, every-offset u32/byte patches of a valid file, giant counts, nesting depth up to 10^5, random mutants; "
            "non-trivial = distinct byte string that went through load() under the allocator monitor",
    "level_text": "Crash atomicity is decided by enumerating every system call the real FileRetainStore::store makes (learned at run time from "
                  "the tree under test) and killing the process before/after/inside each one, then calling the real load(): it must return "
                  "s_old or s_new in full. The codec is checked by bit-exact round trips and the decoder by hostile inputs under an allocation "
                  "budget (peak <= 128*|file| + 1 MiB, single request <= 1 GiB) on a 2 MiB stack.",
    "level_note": "Part D drives saves through Runtime::save_retain_store (RetainManager change detection) over a store with injected failures: every save acknowledged with Ok must be loadable from the file and hold the runtime's current program-level and global RETAIN values. Crash model = process death (completed system calls are durable); power-loss reordering of un-fsynced data is outside the property text and "
                  "outside this technique. Exhaustive over the observed call sequence of each sampled save, not over all snapshots.",
    "assumptions": ["std::fs reaches the kernel through libc symbols the shim interposes (verified per run: a dry run with < 2 intercepted calls is inconclusive)",
                    "memory budget for decoding: 128 bytes per input byte + 1 MiB"],
    "design_ref": "DESIGN.md section 8 (as built; plan in section 3), C10",
}

PROPS["C11"] = {
    "engine": "c11",
    "level": "exploration",
    "technique": "totality / memory-budget / round-trip runtime monitors on decode-validate-metadata-apply over CRC-corrected and structure-aware mutants of compiler-emitted containers (counting allocator, 2 MiB stack, process journal)",
    "quick": {"shards": 8, "budget_s": 20, "max_restarts": 30},
    "thorough": {"shards": 16, "budget_s": 300, "max_restarts": 60},
    "floor": {"quick": 3000, "thorough": 50000},
    "require_counters": {"quick": {"decoded_ok": 3000, "validated_ok": 500, "emitted_containers_ok": 4, "emitted_corpus_programs_ok": 300},
                         "thorough": {"decoded_ok": 50000, "validated_ok": 5000}},
    "rule": "seed containers = compiler output for 4 embedded programs (tasks, FBs, structs, enums, OOP, I/O). Mutants: every 4-byte-aligned "
            "offset x 8 hostile u32 values with the CRC recomputed (systematic for containers <= 3000 B; all seeds in thorough), truncation at "
            "every offset with the CRC flag cleared, structure-aware (decode -> mutate BytecodeModule -> encode): type-graph cycles + constant, "
            "dangling/extreme indices in every section, extreme jump operands, missing/duplicate sections, giant process images, unknown task "
            "programs; random multi-patch/splice/random-body. distinct = hash of the byte string; non-trivial = the mutant got past the header/CRC "
            "gate and decode() returned Ok (so section decoding, validate and metadata ran on it)",
    "level_text": "Every mutant runs through the real decode -> validate -> metadata -> encode/decode round trip on a 2 MiB-stack thread under "
                  "a counting allocator (peak <= 64*|b| + 1 MiB, single request <= 1 GiB); containers that validate are then applied to a runtime "
                  "built from the seed program. Emitted containers must validate, re-encode bit-exactly and apply. Panics are caught, aborts and "
                  "stack overflows are attributed through the case journal.",
    "level_note": "Emitted corpus additions (round d): 9 condition shapes x 7 loop/branch statements x 1-3 body statements as the LAST statement of a program, FB and function (constructs the encoder rolls back). The emitted-container clause is also checked over a corpus: 15 programs whose first statement is a WHILE / REPEAT / FOR / IF / CASE (in a program, an FB and a function), every .st file of /repo the harness accepts and 400 (thorough 4000) generated programs must be emitted, validate, re-encode bit-exactly and apply. apply_bytecode_bytes is not exercised for containers declaring a process image above 64 MiB per area (allocating what the "
                  "container legitimately asks for is outside the O(|b|) clause and would exhaust the machine); counted in observed.apply_skipped_image_over_64MiB.",
    "assumptions": ["memory budget 64 bytes per input byte + 1 MiB for decode+validate+metadata",
                    "apply only observed on the four seed runtimes"],
    "design_ref": "DESIGN.md section 8 (as built; plan in section 3), C11",
}

PROPS["C07"] = {
    "engine": "c07",
    "level": "exploration",
    "technique": "instrumented I/O drivers (call log + image copies + statement counter) and a little-endian bit-level image model over generated binding sets; exhaustive direct-address locality sweep",
    "quick": {"shards": 8, "budget_s": 15},
    "thorough": {"shards": 16, "budget_s": 240},
    "floor": {"quick": 1000, "thorough": 20000},
    "require_counters": {"quick": {"output_image_bytes_overwritten_between_cycles": 1000, "cycles_checked": 5000, "direct_address_cells_checked": 17000, "faulted_cycles_checked": 200, "idle_cycles_checked": 1000},
                         "thorough": {"cycles_checked": 200000}},
    "rule": "case = binding set (1-5 %I, 1-5 %Q, 0-2 %M bindings; sizes X/B/W/D/L at offsets incl. 0 and the image end; every type of that size; "
            "global or program-level AT; 20% allow overlapping %Q) x 2-7 cycles of random driver input bytes and output stimuli, optionally ending in a "
            "faulting cycle; in a third of the cases every program is bound to a task and 40% of the cycles let no time pass, so nothing is due (idle cycles: drivers must still be "
            "read and written once, outputs keep encoding the variables' values). distinct = sorted binding-set shape; non-trivial = >=1 input and >=1 output binding exercised with changing driver input. "
            "Plus one exhaustive sweep: 3 areas x 5 sizes x 16 byte offsets x 8 bits x 3 backgrounds x 5 values x {pre-sized, growing image}",
    "level_text": "Two probe drivers log every read_inputs/write_outputs with a global sequence number, a copy of the image and the interpreter's "
                  "statement counter (hook H1). Per cycle the monitor checks: call sequence is exactly [read x D][program code][write x D]; every read of an "
                  "input-bound variable in the first task and in the last background program equals decode(latched bytes); every bit of the %Q/%M image "
                  "either encodes the final value of a covering binding or is unchanged; drivers received exactly the final image; a faulted cycle publishes "
                  "nothing. Direct-address read/write locality is swept exhaustively on a bare IoInterface.",
    "level_note": "Workload additions (round d): a third of the cycles assign the previous values again; before a quarter of the cycles 1-3 output image bytes are overwritten through the I/O interface and must be published from the variables again. Trusted: the 60-line image model in harness/src/engines/c07.rs. With overlapping %Q bindings any covering binding's encoding is accepted per bit.",
    "assumptions": ["process image pre-sized to 32 bytes per area (as bytecode resource metadata would)", "driver i owns input bytes [16i,16i+16)"],
    "coverage_extra": {"exhaustive_subspace": "direct-address sweep (observed.direct_address_cells_checked) is complete for byte offsets 0..15"},
    "design_ref": "DESIGN.md section 8 (as built; plan in section 3), C07",
}

PROPS["C08"] = {
    "engine": "c08",
    "level": "fault_enumeration",
    "technique": "fault-point enumeration (statement site x cycle x fault kind, driver read/write failure per driver, watchdog, simulation fault) x policy x safe-state map with latch / refusal / safe-image monitors (statement counter, storage walk, driver call log)",
    "quick": {"shards": 8, "budget_s": 15},
    "thorough": {"shards": 16, "budget_s": 600},
    "floor": {"quick": 1500, "thorough": 5000},
    "require_counters": {"quick": {"refused_cycles_checked": 4000, "safe_values_checked": 1000, "restarts_checked": 1500}, "thorough": {"faults_fired": 5000}},
    "rule": "program family: CONFIGURATION with 2 periodic tasks + 1 background program, PROGRAM -> FB -> FUNCTION -> FUNCTION, 9 statement sites; fault = "
            "(site x {div0, overflow, index, null deref, FOR step 0}) | driver read/write error at driver 0..2 | watchdog_timeout() | simulation_fault(); "
            "x fault cycle {0,1,4} x policy {halt, safe_halt, restart} x watchdog action x 6 safe-state maps (bit/byte/word/dword/lword, overlapping "
            "bound outputs, empty) x {no second failing writer, driver 0/1/2 write also failing} + the same fault points after a warm / cold restart of the healthy resource (configuration must survive a restart). distinct = the fault point tuple; non-trivial = the "
            "fault actually fired (cycle returned the expected error kind and last_fault is set)",
    "level_text": "For each fault point the real runtime is driven to the fault and monitors check: the error is reported, faulted() latches, three later "
                  "cycles return ResourceFaulted with zero executed statements (hook H1), no variable (storage walk) or output byte changes; when safe state "
                  "applies every safe address holds its value and every driver was handed that image before the call returned; restart clears the latch and "
                  "cycles execute again. Thorough enumerates the product completely (5715 points); quick covers as much as its budget allows in shuffled order.",
    "level_note": "Exhaustive for this program family only; other programs are covered by C01's outcome monitor. Driver error policy wrappers above the Runtime API are not exercised.",
    "assumptions": ["safe-state maps are well-typed for their address size"],
    "design_ref": "DESIGN.md section 8 (as built; plan in section 3), C08",
}

PROPS["C06"] = {
    "engine": "c06",
    "level": "exploration",
    "technique": "differential runtime monitor vs. a 60-line IEC task-model over generated task configurations and timelines, observed through runtime events, body-written sequence counters and overrun counters",
    "quick": {"shards": 8, "budget_s": 15},
    "thorough": {"shards": 16, "budget_s": 240, "release_pass": {"shards": 16, "budget_s": 60}},
    "floor": {"quick": 1000, "thorough": 20000},
    "require_counters": {"quick": {"cycles_compared": 50000, "cycles_with_two_or_more_due_tasks": 5000, "overrun_events_compared": 5000, "timelines_with_a_restart": 300},
                         "thorough": {"cycles_compared": 2000000, "evaluations_under_release_semantics": 1000}},
    "rule": "case = configuration (1-6 tasks: INTERVAL in {0,1,3,4,10 ms} incl. equal pairs, or SINGLE on one of 1-2 shared BOOL globals incl. initially TRUE, "
            "PRIORITY 0-2 with duplicates; 1-6 program instances attached to tasks or left as background; 0-2 FB instances associated with a task through "
            "register_task) x timeline of 20-80 cycles with dt in {0,1ns,1ms,I-1,I,I+1,2.5I,7I,...}, SINGLE edges written externally and by program bodies; a third of the timelines "
            "without API-registered FB tasks contain one warm or cold restart, after which the model starts again from its start-up state (clock 0). "
            "distinct = (task-set shape, timeline length class, overrun class); non-trivial = >=2 tasks due in one cycle at least once, or an overrun occurred",
    "level_text": "Every cycle's executed unit sequence (programs and task-associated FBs, reconstructed from a global sequence counter the bodies write), "
                  "TaskStart/TaskEnd/TaskOverrun events and task_overrun_count are compared with a model written from the property statement: due set, "
                  "priority / due-time / declaration-order tie-breaks, at most once per cycle, background programs last, missed activations counted not replayed.",
    "level_note": "Whether task_overrun_count survives a restart is not part of the task model: the model continues from the value the runtime shows after the restart. Tasks have either INTERVAL>0 or SINGLE, never both (the statement leaves 'last activation' open for the combination). SINGLE is sampled once per "
                  "cycle after the input latch in model and code.",
    "assumptions": ["runtime clock starts at 0 and task timers start at registration time"],
    "design_ref": "DESIGN.md section 8 (as built; plan in section 3), C06",
}

PROPS["C18"] = {
    "engine": "c18",
    "level": "fault_enumeration",
    "technique": "credential x request-type x configuration enumeration against a real ControlServer on a unix socket with an effect observer (before/after diff of debugger state, probe-runtime variables and I/O, resource commands and state, settings, tokens, pairing data, project files)",
    "quick": {"shards": 8, "budget_s": 25, "watchdog_s": 400},
    "thorough": {"shards": 16, "budget_s": 600, "watchdog_s": 3000},
    "floor": {"quick": 2000, "thorough": 10000},
    "require_counters": {"quick": {"endpoints_with_pairing_store_read_back_from_file": 10, "replies_checked": 3000, "requests_with_effect": 150, "requests_refused": 1000, "malformed_lines_survived": 19},
                         "thorough": {"replies_checked": 12000}},
    "rule": "request types are scraped at check time from the working tree (match arms of control/handlers/*.rs plus the literals of the role table and the debug-class "
            "list) plus unknown/garbled names; x 9 credentials {none, wrong, admin token, pairing viewer/operator/engineer, expired, revoked, revoked twin = a token sharing its per-second id with another one} x 13 endpoint configs "
            "{token set/unset x debug on/off x pairing present/absent x control mode} x param variants {plausible (reaches the handler's effect), none, generic fuzz}. "
            "Thorough enumerates the product completely; quick a shuffled part. distinct = (config, type, variant, credential); non-trivial = the request was "
            "answered with a parseable reply, i.e. reached the role decision",
    "level_text": "Every request goes over the socket to the real server; afterwards an observer diffs everything a request could change. Oracle (from observation, not a copy of "
                  "the role table): a refused request (forbidden/unauthorized/debug disabled) has no effect; allowed(c1) and role(c1)<=role(c2) implies allowed(c2); any type that "
                  "shows an effect under the admin credential must be refused for the viewer token; with a token configured and no valid credential nothing changes, the reply has "
                  "only id/ok/error and contains no planted marker; debug-class types (dispatcher files debug.rs/variables.rs) are refused while debugging is disabled; 19 malformed "
                  "lines each get an error reply and the next valid request is served.",
    "level_note": "Every other endpoint is built on a pairing store read back from its file after the credentials were issued, expired and revoked (a restarted runtime). hmi.write is exercised for its role check only (the default HMI customization is read-only, so its effect is never reached). Queued/forced writes are observed by "
                  "cycling a statement-free probe runtime attached to the same DebugControl. shutdown is observed on a real resource thread held at its start gate.",
    "assumptions": ["pairing never issues admin tokens (requested admin is capped to engineer) - taken from observation of the store, used only to rank credentials"],
    "design_ref": "DESIGN.md section 8 (as built; plan in section 3), C18",
}

PROPS["C19"] = {
    "engine": "c19",
    "level": "exploration",
    "technique": "whole-tree file-system snapshot diff + marker scan around every IDE file operation on a sentinel tree (hostile paths x ops x session kinds), and an offline version-chain checker over recorded concurrent write histories with delays injected at failpoint H3",
    "quick": {"shards": 8, "budget_s": 15, "watchdog_s": 600},
    "thorough": {"shards": 16, "budget_s": 300, "watchdog_s": 3000},
    "floor": {"quick": 3000, "thorough": 20000},
    "require_counters": {"quick": {"B_files_replaced_by_delete_and_create": 300, "A_calls": 3000, "A_calls_that_changed_the_tree": 40, "B_histories_with_overlapping_writers": 300, "B_successful_writes": 10000, "B_conflicts": 5000, "B_bystander_operations": 20000},
                         "thorough": {"B_histories_with_overlapping_writers": 10000}},
    "rule": "A: 19 operations {list, tree, open, create file/dir, write, rename from/to, delete, search, format, diagnostics, symbols, workspace symbols, rename_symbol without / with an unsaved buffer, definition, references, hover} x ~57 path strings "
            "(.., absolute, ./, //, backslashes, hidden, through a directory symlink / file symlink / symlink cycle, NUL, unicode look-alikes, trailing dots/spaces, 4 kB long, "
            "percent-encoded, random compositions) x {editor, viewer, expired, bogus token, editor with write disabled}; enumerated completely in every tier. distinct = "
            "(op, path, session, write flag); non-trivial = the call returned (Ok or refusal) and both snapshots were compared. B: 2-8 editor sessions x 5-50 optimistic writes "
            "with unique ids on 1-2 files (half of the histories on `pump.st` / `lib_io/x.st`), a third of the writes with the version the client already holds, delay probability "
            "{0,10,50,100}% at the failpoint, plus a bystander editor that creates/deletes directories whose names are string prefixes of the tracked files and renames/lists unrelated entries; distinct = sequence of (client, success?) ; non-trivial = >=2 clients had overlapping "
            "calls on one file",
    "level_text": "Confinement is decided by diffing a snapshot of the whole sentinel tree (which never follows links) before/after every call, including refused calls, and by scanning "
                  "replies for text and names of outside and hidden files; only non-hidden paths under the project may change, and only for an editor session with writing enabled. "
                  "Lost updates are decided offline: successes ordered by returned version must each be based on the content written by the previous success, no two share a version, "
                  "and disk and a fresh open_source equal the last success.",
    "level_note": "Round d: the sentinel tree has a link to a hidden directory of the project itself; the part B bystander renames prefix-sharing directories away and back. In a third of the part B histories a writer sometimes replaces a tracked file by delete + create; versions restart there, so those files are judged by a necessary condition over call / return instants alone (the content a successful write was based on must not have been replaced by an operation lying entirely between its producer and the write; the disk must hold the content of an operation not followed by another). set_active_project / browse_directory are project-selection features outside the listed file operations and are not called. Session expiry uses hook H4 (injected clock).",
    "assumptions": ["the snapshot walker and the marker strings are the trusted base", "writers re-open after every attempt (well-behaved optimistic clients)"],
    "design_ref": "DESIGN.md section 8 (as built; plan in section 3), C19",
}

_GEN_RULE = ("programs: (a) systematic single-feature cells - every binary operator x every pair of the 10 numeric types x boundary operands (min, min+1, -1, 0, 1, 2, max-1, max; "
             "reals 0, +-1, near-max, tiny; sampled in quick, complete in thorough), unary minus, FOR over every integer control type at the type limits incl. step 0, CASE on every integer "
             "selector type, assignment / array element / struct field / function parameter / return / FB input / FB output for every (declared type, assignable source type) pair, and "
             "13 feature-switch cells (EN/ENO calls from program, function and FB bodies, case variation, untyped literals, RETURN in PROGRAM, fb() without arguments, subrange overflow, enum CASE, negative exponent, recursion, TIME, bit "
             "ops, strings), the standard functions at their boundaries (every <X>_TO_<Y> conversion at the limits of X and with an argument of a narrower type, SHL/SHR/ROL/ROR by 0, 1, width-1, width, more and -1, "
             "LEFT/RIGHT/MID/INSERT/DELETE/REPLACE with lengths and positions 0, 1, len, len+1, type maxima and -1, numeric functions outside their domain), JMP in every relation between jump and label "
             "(same list, out of IF / CASE / FOR / WHILE, backwards, into a nested list, endless) and faults raised while a callee's locals are initialised; (b) every .st file under /repo that builds stand-alone; (c) seeded type-directed random programs (<= 3 functions, <= 3 FB types with state, arrays, structs, "
             "IF/CASE/FOR/WHILE/REPEAT/EXIT/CONTINUE/RETURN, short-circuit guard patterns, FOR bounds over variables the body changes, loops ending at the type limit, direct widening "
             "assignments; typed literals and exact-case identifiers unless a feature switch says otherwise), 3-5 cycles with boundary-biased inputs and clock steps. distinct = (feature "
             "set, program hash bucket, final outcome); non-trivial = the compiler accepted the program and >= 1 statement executed (hook H1)")

PROPS["C01"] = {
    "engine": "c01", "args": {"mode": "c01"},
    "level": "exploration",
    "technique": "outcome-class / frame-stack / logical-step monitors over generated and corpus ST programs in an overflow-checked build on a 2 MiB stack (panics caught, aborts attributed by journal)",
    "quick": {"shards": 8, "budget_s": 30, "watchdog_s": 900},
    "thorough": {"shards": 16, "budget_s": 420, "watchdog_s": 3600, "release_pass": {"shards": 16, "budget_s": 90}},
    "floor": {"quick": 5000, "thorough": 50000},
    "require_counters": {"quick": {"task_bound_fb_cells_executed": 4, "programs_executed": 8000, "cycles_executed": 20000}, "thorough": {"programs_executed": 100000, "evaluations_under_release_semantics": 5000}},
    "rule": _GEN_RULE,
    "level_text": "Every accepted program runs 3-5 cycles in the real runtime built with overflow checks and debug assertions; per cycle the monitor requires outcome in {Ok} u {DivisionByZero, "
                  "ModuloByZero, Overflow, IndexOutOfBounds, NullReference, ForStepZero, DateTimeRange, ExecutionTimeout}, an empty frame stack, no panic; an ExecutionTimeout counts as "
                  "non-termination only when the statement counter (hook H1) exceeds the program's static step bound.",
    "level_note": "Programs that call ASSERT_* may fail their assertions. Only programs for which TestHarness::from_source returns Ok count as accepted.",
    "assumptions": ["10 s wall-clock execution deadline per cycle is only a backstop; termination is judged on counted statements"],
    "design_ref": "DESIGN.md section 8 (as built; plan in section 3), C01",
}

PROPS["C02"] = {
    "engine": "c01", "args": {"mode": "c02"},
    "level": "exploration",
    "technique": "differential runtime monitor: every variable after every cycle and every fault class compared with an independently written IEC reference evaluator over the generator's own AST",
    "quick": {"shards": 8, "budget_s": 30, "watchdog_s": 900},
    "thorough": {"shards": 16, "budget_s": 420, "watchdog_s": 3600, "release_pass": {"shards": 16, "budget_s": 90}},
    "floor": {"quick": 5000, "thorough": 50000},
    "require_counters": {"quick": {"variables_compared": 1000000, "faults_agreed": 3000, "cycles_compared": 20000, "semantic_cells_checked": 16, "semantic_cell_values_compared": 107}, "thorough": {"variables_compared": 20000000, "evaluations_under_release_semantics": 5000}},
    "rule": "seeded type-directed random programs of the C02 core grammar (see DESIGN C02): elementary-type expressions over one signedness family per operation, assignments incl. implicit "
            "widening, IF/CASE/FOR/WHILE/REPEAT/EXIT/CONTINUE/RETURN, arrays, structs, user functions (positional and named calls), FB instances with state and omitted inputs, "
            "short-circuit guard patterns, FOR bounds evaluated once, loops ending at the type limit; 3-5 cycles of boundary-biased inputs. distinct = (feature set, program hash bucket, "
            "final outcome); non-trivial = accepted and >= 1 statement executed",
    "level_text": "The reference (harness/src/refsem.rs, about 450 lines, shares no code with the repo) evaluates the generator AST with exact integers in the promoted operand type, faults on "
                  "overflow and division by zero, truncating division, MOD with the dividend's sign, IEEE single/double reals with non-finite results faulting, short-circuit AND/OR, FOR test "
                  "before each iteration, by-value inputs, persistent FB state. After every cycle every Main variable, array element, struct field and FB member is compared by declared type "
                  "(numeric value / bit pattern), and the fault class must agree.",
    "level_note": "Excluded from the generated C02 grammar (still run by C01): mixed signedness, conversions and standard functions, untyped literals, TIME arithmetic, strings. '**', "
                  "operator precedence/associativity, VAR_IN_OUT (plain, through array elements / struct fields / nested FBs, and aliased), by-value inputs, default values of omitted inputs, initial values of FB inputs/outputs, EN/ENO gating of functions and FBs (also from nested callers) and output bindings (to variables, array elements, struct fields) are covered by 13 "
                  "hand-derived semantic cells (harness/src/engines/c02cells.rs, 107 expected values worked out from IEC Table 71 and the by-reference rule) that run in every tier.",
    "assumptions": ["the reference evaluator is the trusted base", "value of a FOR control variable after the loop is not compared (re-assigned by the generated program)"],
    "design_ref": "DESIGN.md section 8 (as built; plan in section 3), C02",
}

PROPS["C03"] = {
    "engine": "c01", "args": {"mode": "c03"},
    "level": "exploration",
    "technique": "storage-wide invariant hook: after every cycle every value reachable from a program instance is checked against the declared TypeId of the runtime's own POU definitions (tag, subrange bounds, array/struct shape)",
    "quick": {"shards": 8, "budget_s": 30, "watchdog_s": 900},
    "thorough": {"shards": 16, "budget_s": 420, "watchdog_s": 3600},
    "floor": {"quick": 5000, "thorough": 50000},
    "require_counters": {"quick": {"type_walks": 20000}, "thorough": {"type_walks": 200000}},
    "rule": _GEN_RULE,
    "level_text": "After every cycle the monitor walks every program instance: each variable's stored Value must carry the tag of its declared type after alias/subrange resolution, lie inside the "
                  "subrange, and arrays/structs/FB instances are descended recursively using FunctionBlockDef/ClassDef declarations. Generated programs are role-partitioned (assign, array "
                  "element, struct field, parameter, FB input/output/state, FOR control) so a drifting slot identifies the write path.",
    "level_note": "Configuration-level globals are not walked (their declared types are not public); I/O latching is covered by C07's typed comparisons, debugger writes by C18's probe runtime.",
    "assumptions": ["declared types are read from the runtime's own lowered definitions (ProgramDef.vars / Param.type_id + TypeRegistry)"],
    "design_ref": "DESIGN.md section 8 (as built; plan in section 3), C03",
}

PROPS["C05"] = {
    "engine": "c05",
    "level": "exploration",
    "technique": "cross-process / cross-thread / re-run digest equality monitor: the same job is compiled and executed in several OS processes (distinct hash seeds, ASLR, environment size, start time), on two threads each, twice in a row",
    "quick": {"shards": 4, "budget_s": 25, "watchdog_s": 900, "parallel": 4},
    "thorough": {"shards": 4, "budget_s": 420, "watchdog_s": 3600, "parallel": 4},
    "floor": {"quick": 200, "thorough": 5000},
    "require_counters": {"quick": {"job_executions_compared": 5000, "jobs_with_20_or_more_names": 100, "child_processes_completed": 100, "jobs_with_sibling_fb_io_bindings": 100, "jobs_with_several_background_programs": 100},
                         "thorough": {"job_executions_compared": 200000}},
    "rule": "job = (sources, input+clock trace): programs with 12-21 shuffled names of every kind (enums, structs, functions, FBs with strings, interfaces + classes with methods, 3 tasks incl. an "
            "event task), programs with 3-8 sibling plus nested FB instances whose types declare AT %I/%Q/%M variables on shared addresses (binding registration order reaches the container and "
            "decides which writer wins), the C11 seed programs, and random generator programs (core and extended); 4-6 cycles. Each job runs in P processes (4 quick / 16 thorough) x {run 1, run 2, second "
            "thread}. distinct = hash of the sources; non-trivial = compiled, >= 2 processes produced output, all runs compared",
    "level_text": "For every job all P x 3 executions must produce the same STBC byte hash+length and the same per-cycle digest sequence of (storage walk by name path, drained runtime events, "
                  "output image, error). std's RandomState differs per process and per thread, so any HashMap-ordered emission or iteration that reaches an observable would differ.",
    "level_note": "Only nondeterminism sources that vary between processes/threads on one machine (hash seeds, ASLR, thread, wall clock, environment size) are exercised.",
    "assumptions": ["digests use FNV over canonical renderings; instance ids are not part of the rendering"],
    "design_ref": "DESIGN.md section 8 (as built; plan in section 3), C05",
}

PROPS["C09"] = {
    "engine": "c09",
    "level": "exploration",
    "technique": "shadow-runtime differential monitor: after every restart/power cycle the runtime under test is compared, state and every later cycle, with a brand-new runtime into which exactly the model's retained variables were copied",
    "quick": {"shards": 8, "budget_s": 20, "watchdog_s": 900},
    "thorough": {"shards": 16, "budget_s": 300, "watchdog_s": 3600},
    "floor": {"quick": 1000, "thorough": 20000},
    "require_counters": {"quick": {"restarts_checked": 5000, "variables_compared": 500000, "retained_values_injected_into_model": 3000}, "thorough": {"restarts_checked": 100000}},
    "rule": "declarations: 3-10 variables crossing qualifier {RETAIN, NON_RETAIN, none, PERSISTENT} x scope {configuration global, task program VAR, background program VAR} x type {BOOL, INT, DINT, "
            "LINT, UINT, REAL, LREAL, TIME, STRING, WORD, ARRAY OF INT, STRUCT}; every (scope, qualifier, type) cell also runs once with a fixed history containing warm, power cycle, fault and cold "
            "restart (complete in every tier). Fixed frame: 3 tasks incl. an event task, a background program, local and global FB instances, program-level AT %IX/%QX/%IW/%QW/%MW bindings, a "
            "probe I/O driver. Histories of 10-25 ops {cycle with random driver input, warm, cold, save+new runtime+load, faulting cycle} ending in a restart and a 4-cycle continuation. distinct = "
            "(declaration shape, history shape); non-trivial = a retained and a non-retained variable present and >= 1 restart",
    "level_text": "The model is executable: a brand-new runtime from the same sources (cold), plus exactly the RETAIN/PERSISTENT global and program-level variables of retainable type copied from the "
                  "pre-restart state (warm, power cycle). Immediately after the restart and after every later cycle the monitor compares all variables by name path (storage walk), the bytes handed "
                  "to the I/O driver, drained runtime events (task activations), current time, cycle counter and fault latch.",
    "level_note": "RETAIN members declared inside FB types are not generated (the property text speaks of global or program-level variables). The power cycle uses a new Runtime in the same process: "
                  "only the retain file carries state.",
    "assumptions": ["the copy of retained variables into the shadow uses the public storage API (set_global / set_instance_var)"],
    "design_ref": "DESIGN.md section 8 (as built; plan in section 3), C09",
}

PROPS["C13"] = {
    "engine": "c13",
    "env": {"TRUST_HIR_SALSA_EVENT_METRICS": "1"},
    "level": "exploration",
    "technique": "incremental-vs-fresh differential monitor over the public trust_hir::Database API after edit/remove/re-add/query histories, with idempotence checks, salsa memoisation counters as non-triviality witness and a concurrent reader variant",
    "quick": {"shards": 8, "budget_s": 25, "watchdog_s": 900},
    "thorough": {"shards": 16, "budget_s": 420, "watchdog_s": 3600},
    "floor": {"quick": 300, "thorough": 5000},
    "require_counters": {"quick": {"answers_compared": 2000000, "salsa_cache_hits": 5000, "salsa_recomputes": 20000, "histories_with_concurrent_reader": 50}, "thorough": {"answers_compared": 50000000}},
    "rule": "1-5 files with cross-file references (functions, FB types, struct/enum types, configuration globals, a namespace); per file a pool of 6-7 texts (valid, changed signature, renamed symbol, "
            "syntax error, empty, duplicate declaration) plus token-level mutants; histories of 5-60 ops {set, remove, re-add, query(kind,file)} with queries in random order so different memo sets "
            "exist before each edit; 20% of histories run with a reader thread querying through an RwLock while the edits are applied. distinct = the history; non-trivial = the salsa counters show "
            ">= 1 cache hit and >= 1 recompute over the history (reuse path and invalidation path both on trial)",
    "level_text": "After every op (quick: every 3rd and the last) every file's answers from the long-lived database are compared with a brand-new database loaded with the same texts under the same "
                  "FileIds: diagnostics as a sorted multiset (code, severity, range, message, related), symbols canonicalised to (qualified name, kind, type name, range, imported?), the type name of "
                  "the expression at every 3rd offset, and analyze() summaries; every query batch is issued twice (idempotence). Raw SymbolId/TypeId numbers are never compared.",
    "level_note": "Pool additions (round d): library variants that differ only in the EXTENDS / IMPLEMENTS target (equal length) and a dependent that uses inherited members and an interface assignment. Eight file slots: five roles (functions, program, FB, types, configuration) and three second providers of the same global names with other signatures; the initial project is loaded in random id order and each comparison also checks that a brand-new database loaded in descending order answers like the one loaded ascending. The fresh database is loaded in ascending FileId order. The LSP document store above the database is covered by C14.",
    "assumptions": ["TRUST_HIR_SALSA_EVENT_METRICS=1 only enables counters; it does not change query results"],
    "design_ref": "DESIGN.md section 8 (as built; plan in section 3), C13",
}

PROPS["C14"] = {
    "engine": "c14",
    "builds": ["lsp"],
    "level": "exploration",
    "technique": "two real trust-lsp processes over stdio (one fed the change notifications, one fed the final text) + a UTF-16 editor buffer model: answer equality, position validity on the editor's text, prepareRename round trips",
    "quick": {"shards": 8, "budget_s": 30, "watchdog_s": 900},
    "thorough": {"shards": 16, "budget_s": 420, "watchdog_s": 3600},
    "floor": {"quick": 150, "thorough": 1200},
    "require_counters": {"quick": {"semantic_token_range_answers_compared_with_full": 300, "watched_file_events_for_open_documents": 150, "answers_compared": 1500, "positions_validated_on_editor_text": 8000, "prepare_rename_round_trips": 1500, "histories_editing_after_non_ascii": 100}, "thorough": {"answers_compared": 10000}},
    "rule": "initial texts: 5 base programs (incl. a CRLF one) salted with Latin-1, CJK, BMP symbols and astral emoji in comments, pragmas and strings placed *before* code on the same line; 1-30 "
            "didChange notifications of 1-3 incremental changes each (insert/delete/replace on valid UTF-16 boundaries, biased to positions right after a wide character, CRLF inserts, occasional "
            "full-text change). distinct = the history; non-trivial = >= 1 incremental change on a line whose prefix is non-ASCII, or >= 3 changes",
    "level_text": "O1: formatting, semanticTokens/full, documentSymbol, pull diagnostics, foldingRange and hovers of the server that received the changes must equal those of a second server that got the "
                  "editor's final text in one didOpen. O2: every range in those answers must lie on character boundaries of the editor's text measured in UTF-16 units, semantic tokens must not be empty or "
                  "split a surrogate pair, documentSymbol selection ranges must cover the symbol's name. O3: prepareRename at every identifier start returns exactly that identifier's range.",
    "level_note": "Workload additions (round d): a third of the documents exist as files holding the text at open time; workspace/didChangeWatchedFiles (created/changed) notifications for the open document arrive between the changes. Every third such event removes the file and reports it deleted. Only valid ranges are sent (what a conforming editor sends). The server binary is the workspace's trust-lsp built from the working tree into /verif/target/repo.",
    "assumptions": ["the UTF-16 editor model in harness/src/lsp.rs (lines split on LF, CR belongs to the terminator) is the trusted base"],
    "design_ref": "DESIGN.md section 8 (as built; plan in section 3), C14",
}

PROPS["C15"] = {
    "engine": "c15",
    "builds": ["lsp"],
    "level": "exploration",
    "technique": "token-sequence oracle (trust_syntax::lex before/after) over edits returned by the real trust-lsp binary for full, range and on-type formatting under random configurations, applied with a UTF-16 editor model; same oracle on the web IDE formatter",
    "quick": {"shards": 8, "budget_s": 30, "watchdog_s": 900},
    "thorough": {"shards": 16, "budget_s": 420, "watchdog_s": 3600},
    "floor": {"quick": 100, "thorough": 1200},
    "require_counters": {"quick": {"reported_inputs_formatted": 6, "full_formats_checked": 100, "range_formats_checked": 300, "ontype_formats_checked": 300, "webide_formats_checked": 100}, "thorough": {"full_formats_checked": 1200}},
    "rule": "texts: 12 built-in programs (all statement kinds, CRLF, comments/pragmas/strings mixed on one line, long lines, syntax errors), token-level mutants of them, every .st file < 6 kB under "
            "/repo and mutants of those, and the adjacent-token gluing matrix (39 x 39 token pairs, spaced and unspaced; cells are consumed round-robin, thorough completes it). configs: random subsets "
            "of indentWidth {1,2,4,8}, insertSpaces, keywordCase, alignVarDecls, alignAssignments, maxLineLength {10,20,40,80,120}, spacingStyle, endKeywordStyle via didChangeConfiguration + "
            "FormattingOptions. distinct = (text, config); non-trivial = formatting changed the text or range/on-type returned >= 1 edit",
    "level_text": "For each (text, config): full formatting -> non-trivia tokens equal (keywords case-insensitively, everything else byte-exact), comments/pragmas/string literals equal and in order; "
                  "formatting the result again changes nothing; 3 random line ranges through rangeFormatting and 3 on-type positions (after ';' and newline) -> the returned edits must apply on "
                  "character boundaries, not overlap, and preserve the same token sequence.",
    "level_note": "Text class `composed` (round d): statement lists drawn from long comma lists, assignments of different widths, commented-out assignments, pragmas and string literals containing := / =>, nested in IFs. Comments are compared line-wise with surrounding blanks trimmed (re-indenting continuation lines of a block comment is layout). Vendor profiles need a workspace config file and are not exercised.",
    "assumptions": ["trust_syntax::lex is the token oracle (its own totality/losslessness is C12)"],
    "design_ref": "DESIGN.md section 8 (as built; plan in section 3), C15",
}

PROPS["C16"] = {
    "engine": "c16",
    "level": "exploration",
    "technique": "rename monitor over the public trust_ide::rename API: edit well-formedness, diagnostics up to the name, binding map via goto_definition, K-cycle behaviour via the real runtime, rename-back round trip, for every identifier occurrence x new-name class",
    "quick": {"shards": 8, "budget_s": 30, "watchdog_s": 900},
    "thorough": {"shards": 16, "budget_s": 420, "watchdog_s": 3600},
    "floor": {"quick": 2000, "thorough": 50000},
    "require_counters": {"quick": {"rename_trials": 12000, "renames_applied": 4000, "rename_back_round_trips": 5000, "behaviour_runs_compared": 1000, "bindings_compared": 20000}, "thorough": {"rename_trials": 500000}},
    "rule": "two-file projects (function, FB with inputs/outputs/locals, struct type, program with FB instance / struct / externals, configuration with a global and a program instance); suite `unique`: "
            "every identifier declared once; suite `shared`: identifiers drawn from a 14-name pool so equal names live in several scopes. Rename position = every identifier token of both files; new "
            "name in {fresh, every other identifier of the project, upper-case variant, IF, END_VAR, DINT, `1abc`, `a b`, empty}; quick samples a third of the (position, name) pairs, thorough all. "
            "distinct = (project, position, new name); non-trivial = rename returned edits (refusals counted separately)",
    "level_text": "rename must refuse, or: every edit is in bounds, non-overlapping and replaces an occurrence of the old identifier; the edited project has the same diagnostics (code, mapped position, "
                  "message with the name normalised); every renamed occurrence and every pre-existing occurrence of the new name resolves (goto_definition) to the same declaration as before; if the "
                  "project builds, the renamed one builds and 3 cycles give the same storage walk modulo the renamed key; renaming back at the mapped position restores the text.",
    "level_note": "New names (round d): every existing name is also offered in another letter case than the project spells it (class existing-name-in-another-case). goto_definition is trusted only for occurrences the rename is about (renamed ones and same-named ones). Behaviour is not compared when the new name already exists elsewhere in the project "
                  "(name-neutral comparison would be ambiguous); capture is then decided by the binding map and diagnostics.",
    "assumptions": ["projects are error-free before the rename (others are skipped and counted)"],
    "design_ref": "DESIGN.md section 8 (as built; plan in section 3), C16",
}

PROPS["C17"] = {
    "engine": "c17",
    "builds": ["dap"],
    "level": "exploration",
    "technique": "two-thread stress of the real DebugControl (cycle thread vs. random command scripts with injected delays) with an offline trace-specification checker over the product's own mutex-ordered debug trace, a bounded resume-progress monitor, a wedge watchdog and a state-digest differential against an undebugged run",
    "quick": {"shards": 8, "budget_s": 20, "watchdog_s": 600},
    "thorough": {"shards": 16, "budget_s": 600, "watchdog_s": 3000},
    "floor": {"quick": 3000, "thorough": 100000},
    "require_counters": {"quick": {"debug_expressions_accepted_and_attached": 2000, "stops": 10000, "resume_actions_while_stopped": 10000, "step_semantics_checked": 1000, "cycles_compared_with_undebugged_run": 10000, "trace_events_checked": 1000000, "write_force_cycles_compared_with_boundary_model": 5000,
                                   "dap_sessions": 40, "dap_stopped_events": 250, "dap_blocked_states_announced": 100, "dap_stop_locations_compared": 100, "dap_final_pause_stops": 40},
                         "thorough": {"stops": 1000000, "step_semantics_checked": 100000}},
    "rule": "program with a 4-deep call chain (PROGRAM -> FB -> FUNCTION with FOR loop -> FUNCTION), a WHILE loop, two cyclic tasks sharing a global and a background program, run for 2-12 cycles; "
            "scripts of 5-200 commands from {Pause, Continue, StepIn, StepOver, StepOut (each with and without a thread id 1..3), set 1-3 breakpoints at statement locations, clear breakpoints, "
            "sleep 1us..1ms, yield} issued by a second OS thread; after half of the resume commands the controller waits for progress. distinct = sequence of (command, index of the statement "
            "visit it landed in) read back from the trace, i.e. the observed interleaving; non-trivial = the run had >= 1 stop and >= 1 resume applied while the cycle thread was blocked",
    "level_text": "Each run is decided from what was observed: (1) the trace (written under the debug mutex, so its order is the order of state changes) must parse into stop episodes - the thread "
                  "only blocks after a stop line, one stop per episode, stop location = the statement being visited, no statement begins while an episode is open, stop lines = notifications on the "
                  "stop channel; (2) a step issued while stopped and aimed at the stopped thread: StepIn stops at that thread's very next statement visit, StepOver/StepOut never at a larger call "
                  "depth than the origin; (3) after Continue/Step the thread writes a new trace line or finishes within 3 s, and after the script a janitor (clear breakpoints + Continue every ms) "
                  "must see the thread finish - no completed cycle for 5 s is a wedge; (4) per-cycle digests of all storage equal the undebugged run.",
    "level_note": "Script additions (round d): conditional breakpoints and logpoints from a pool of 14 expressions (pure; user calls directly, nested in and following allowed calls; SPLIT_DATE with output arguments) compiled by the product's parse_debug_expression; accepted ones are attached and the transparency oracle applies. Part B (every fourth shard, harness/src/engines/c17dap.rs) drives the trust-debug binary over stdio as a DAP client: random continue / pause / next / stepIn / stepOut with "
                  "thread ids and setBreakpoints with changing line sets on a two-task program paced in real time; the adapter process inherits ST_DEBUG_TRACE, so the trace tells whether the "
                  "cycle thread is blocked. At quiescent points a blocked thread must have been announced by a `stopped` event that arrived after the last resume request (else: execution "
                  "stopped without notification), the top stack frame must be on the line of the runtime's stop location, and at the end clear-breakpoints + continue + pause must yield a "
                  "`stopped` event within 5 s. Part C (every non-DAP shard, 300 / 3000 trials): queued writes, forces and releases of a shared global at random cycle boundaries of the debugged runtime are compared cycle by cycle with the undebugged runtime in which the same value is set through the harness exactly where it must act (write: start of the next cycle; force: start and end of every cycle while active). Part A scripts never write values, so there every state difference is a transparency violation. The 3 s / 5 s bounds are watchdogs for a thread that needs microseconds; the thread is proven "
                  "blocked (not starved) by the trace ending in hook.wait. Remote-attach sessions of the adapter (stop_remote.rs) are not driven.",
    "assumptions": ["trace lines are appended while the debug mutex is held (true for every trace_debug call in control.rs)", "interleavings are those the OS scheduler and the injected delays produce, not all"],
    "env": {},
    "design_ref": "DESIGN.md section 8 (as built; plan in section 3), C17",
}

PROPS["C20"] = {
    "engine": "c20",
    "level": "exploration",
    "technique": "multi-thread stress of real resource threads (ResourceRunner::spawn_with_shared, 2-4 per trial; a quarter of the trials ResourceRunner::spawn, resources that share nothing) with conservation / paired-variable / torn-read monitors on the shared store (online monotone bracket checks from an observer thread, exact checks at provably quiescent points), an in-order command sentinel deciding cycles-while-paused, a join watchdog, a recording retain store and planted faults",
    "quick": {"shards": 8, "budget_s": 25, "watchdog_s": 600},
    "thorough": {"shards": 16, "budget_s": 600, "watchdog_s": 3000},
    "floor": {"quick": 800, "thorough": 20000},
    "require_counters": {"quick": {"stops_followed_by_clock_ticks": 300, "cycles_executed": 1000000, "pause_episodes_verified_cycle_free": 5000, "resumes_followed_by_a_cycle": 1500, "stops_verified": 2500, "stops_at_closed_gate": 300,
                                   "quiescent_conservation_checks": 4000, "online_bracket_checks": 5000000, "samples_with_two_resources_advancing": 20000, "faults_isolated": 200,
                                   "solo_trials": 300, "solo_stops_verified": 800, "solo_pause_episodes_verified_cycle_free": 1500, "solo_resumes_followed_by_a_cycle": 400},
                         "thorough": {"cycles_executed": 20000000, "stops_verified": 60000}},
    "rule": "trial = N in 2..4 resources, each with interval {0 (free running), 1 ms}, own or common ManualClock, start gate (1/4), spin between the paired writes {0,3,30}, at most one resource "
            "with a planted division by zero at its k-th cycle (k in 0..40); controller script of 10-60 ops from {advance a clock 1-4 ms, pause, resume, open gate, stop via handle / via control, "
            "sleep 1us-1ms, quiesce}; remaining resources are stopped in random order at the end. distinct = (trial, observed outcome sequence); non-trivial = the observer saw >= 2 resources "
            "advance within one sampling interval (true overlap) and >= 1 stop was fully verified",
    "level_text": "Shared store: every cycle does a++ ; spin ; total++ ; b++ ; cnt_i++ and counts cycles that start with a <> b. Exact check when every live resource is provably paused or stopped: "
                  "total = sum cnt_i, a = b = total, torn = 0. Online, from a third thread using only SharedGlobals::get: sum(cnt before) <= total <= sum(cnt after), a1 <= b <= a2, nothing "
                  "decreases. Pause: after Pause + an answered in-order Snapshot sentinel the state must be Paused and cnt_i must not change until the monitor itself sends Resume. Resume: state "
                  "Running and a further cycle within the watchdog. Stop (from Running, Paused, sleeping on the clock, waiting at the gate): join returns, state Stopped, exactly one retain "
                  "store call whose keepg equals the cycles executed (0 or 1 calls for a resource that never passed its gate). Fault: the faulting resource never cycles past its fault, another "
                  "running resource does cycle afterwards, no resource thread panics.",
    "level_note": "Round d: half of the stop requests are followed at once by three 1 ns clock advances before join(). Interleavings are those the OS scheduler produces under the perturbations, not all. 10-15 s watchdogs guard operations that need microseconds. Round e: a quarter of the trials drive the "
                  "single-resource loop (ResourceRunner::spawn, run_resource_loop without shared globals - what a one-resource runtime uses) with the same scripts; cycles are counted by an I/O driver the runtime "
                  "calls once per completed cycle, and the pause / resume / stop / retain-save / fault oracles apply unchanged (the conservation oracles do not: nothing is shared). StdClock/ScaledClock resources are not driven.",
    "assumptions": ["SharedGlobals::get and ResourceControl::state are the observation boundary", "ResourceCommand::Snapshot is answered in command order (it is handled in the same drain loop)"],
    "env": {},
    "design_ref": "DESIGN.md section 8 (as built; plan in section 3), C20",
}

# ---------------------------------------------------------------------------------------------------------------------
# Round e (2026-09-26): workload additions made after the fifth round of seeded changes, and the monitor counters that
# must be reached for a run to count (a run that did not reach the new situations is INCONCLUSIVE, not held).
ROUND_E = {
    "C01": ("budget cells: 12 loops that cannot finish inside a 300 ms execution budget (FOR / WHILE / REPEAT / JMP with empty, one-statement and nested bodies, in a program, a function and an FB) "
            "run on a watchdog thread; the cycle must come back (ExecutionTimeout or Ok) within 20 s, a cycle that does not is reported as non-termination (it cannot be interrupted, so this part runs last and stops at the first hang).",
            {"budget_cells_returned": 12}),
    "C02": ("semantic cell `comparisons-at-type-limits`: =, <>, <, <=, >, >= and MAX on ULINT values above 2^63 (reached by computation), UDINT / UINT / USINT above their signed ranges and the most negative LINT (16 expected values).",
            {"semantic_cells_checked": 17, "semantic_cell_values_compared": 123}),
    "C03": ("cells `subrange defaults` / `subrange of alias default`: variables, array elements, struct fields, FB inputs / outputs / state of subrange types that exclude 0, never assigned - the range clause applies from the first cycle boundary on.", {}),
    "C04": ("a sixth of the traces change PT between calls; for TON the exact model is replaced there by what the property states for every trace: ET <= current PT, Q only while IN is TRUE and has been TRUE (by the attribution rule) for at least the current PT.", {}),
    "C05": ("retain save cadence: with a retain store and a save interval the same program and clock trace (including a warm / cold restart that takes the runtime clock back) run twice, once at full speed and once with 1.5 ms host-time pauses between cycles; "
            "the recorded store calls (cycle index, content) must be identical.", {"retain_cadence_runs_compared": 6}),
    "C06": ("reconfiguration: the task set of a running resource is replaced through apply_bytecode_bytes (12 ordered pairs of 4 configurations: both programs on a task, no task, one on a task, one on a slow task); afterwards programs without a task must run in every cycle, "
            "programs with a task at most once per cycle and when due.", {"reconfigurations_checked": 12}),
    "C07": ("arrays bound to direct addresses: 10 shapes with 1-4 dimensions (non-zero lower bounds, element sizes 1 / 2 / 4 bytes) copied element by element from %I to %Q; published bytes = latched bytes over the span, element probes = decode at the row-major position, bytes behind the span untouched.",
            {"compound_binding_cycles_checked": 30}),
    "C08": ("every other fault point attaches a debugger to the halted resource and queues variable and I/O writes before each refused cycle: a refused cycle must not apply them.", {"debugger_writes_queued_while_halted": 3000}),
    "C09": ("restarts that fail part-way: a program variable whose initial value divides by a retained global that is 0 makes a warm restart fail; 4 scripts (warm-cold, warm-warm-cold, warm-cycle-cold, twice over) - the following cold restart must succeed and equal a newly built runtime immediately and over 4 cycles.",
            {"failed_warm_restarts_followed_by_a_cold_restart": 4}),
    "C10": ("part A: a third of the round trips store over an existing snapshot of another class at the same path (larger, smaller, non-empty before empty).", {"A_stores_over_an_existing_snapshot": 30}),
    "C11": ("structure mutants `task-fb-ref:extreme-index`: a task's FB list names a reference into an array (lower bounds 0, 1, -2; the compiler emits such references for literal-index accesses) whose index values are i64::MIN, MIN+1, MIN+2, MAX, MAX-1, -1, +-2^62; the containers validate and are applied.", {}),
    "C12": ("corpus `snippet`: every raw-string source snippet of the repository's own parser / checker tests (they cover VAR_ACCESS, VAR_CONFIG, properties, actions, namespaces ...), as is and with every (quick: up to 24 evenly spread) single non-trivia token deleted or doubled, alone and behind another top-level item.",
            {"snippet_token_mutants": 6000}),
    "C13": ("a fifth of the histories query the database (diagnostics, symbols, analyze, expression types) before it has ever held a file.", {"queries_before_the_first_file": 100}),
    "C14": ("a tenth of the initial texts start with a byte order mark (one UTF-16 unit of line 0 in the editor's text).", {"histories_on_texts_starting_with_a_byte_order_mark": 10}),
    "C15": ("text class `composed` gained 10 lines whose string literals hold comment / pragma delimiters (`'http://..'`, `'(* x *)'`, `'{p}'`, `'*) // (*'`) followed by real comments.", {}),
    "C16": ("fixed project `twin`: two function-block files of identical layout (every declaration of one sits at the byte range of a declaration of the other) and a program using both, in both load orders. Fixed projects `literals`: an enumeration whose literals are written `E_State#Idle` and a structure initialised with `(fa := 3, fb := 4)` - names that occur where no identifier token / field expression stands.", {}),
    "C18": ("part X (parameters at the extremes): for every request type each plausible parameter (for config.set every key scraped from handle_config_set, except control.auth_token) is replaced in turn by 27 extreme values (integer limits, the ms->ns overflow boundary, 1e308, empty / 70 kB / NUL strings, absurd addresses and durations, null, arrays, objects, 100-fold nesting) "
            "and sent with the admin credential: one parseable reply line, config.get still served afterwards, and a caller without a credential still refused.", {"X_extreme_requests": 3000, "X_unauthenticated_follow_ups_refused": 1500}),
    "C19": ("part B2: one file under two path names inside the project (a hard link), two editor sessions that each use their own name, strictly alternating calls: a write based on a content that is no longer the file's content must be refused whichever name it comes through.",
            {"B2_alias_histories_checked": 500, "B2_stale_writes_refused": 500}),
    "C20": ("controller scripts also send mesh updates for names that are not shared (empty map / unknown name) to idle and running resources: they must not disturb the shared store.", {"mesh_updates_for_unshared_names_sent": 1000}),
}
for _pid, (_note, _req) in ROUND_E.items():
    PROPS[_pid]["level_note"] = (PROPS[_pid].get("level_note", "") + " Round e: " + _note).strip()
    PROPS[_pid].setdefault("require_counters", {}).setdefault("quick", {}).update(_req)

# Auxiliary Miri pass (thorough tier of C12): see DESIGN 7.5.  Never required: a missing toolchain leaves a note in the evidence.
PROPS["C12"]["thorough"]["miri"] = {"bin": "msyntax", "processes": 12, "count": 60, "timeout_s": 1500}
PROPS["C12"]["level_note"] += (" Thorough tier, auxiliary: 12 processes of harness_miri/src/bin/msyntax.rs (monitors L1-L4, a full cursor walk and clone_for_update over about 700 small inputs, purity pairs on two threads) are interpreted by Miri "
                               "(-Zmiri-disable-stacked-borrows: rowan 0.15 is known not to satisfy either experimental aliasing model, which is outside this repository; use-after-free, out-of-bounds, uninitialised reads, misalignment and data races in the unsafe code of rowan / logos / smol_str reached by the parser are reported as `miri|undefined-behaviour|...`).")
