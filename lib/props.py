"""Per-property configuration for the supervisor (engine, shards, budgets, evidence texts)."""

PROPS = {}

PROPS["C12"] = {
    "engine": "c12",
    "level": "exploration",
    "technique": "runtime monitors on lexer/parser output (losslessness, tiling, error ranges, purity, trivia-insertion shape) over mutated corpus + generated inputs on a 2 MiB stack",
    "quick": {"shards": 8, "budget_s": 20},
    "thorough": {"shards": 16, "budget_s": 240},
    "floor": {"quick": 2000, "thorough": 20000},
    "require_counters": {"quick": {"trivia_insertions_checked": 500, "purity_compared": 1000},
                         "thorough": {"trivia_insertions_checked": 20000}},
    "rule": "inputs: every .st file under /repo, token-level mutants/splices of them, truncations at char boundaries, "
            "random unicode, token soups, 22 nesting constructs at depth D/4 and D (D=512). distinct = hash of the input text; "
            "non-trivial = the input lexes to >=1 non-trivia token and went through all of L1-L4 (L5 counted separately "
            "in observed.trivia_insertions_checked)",
    "level_text": "Every generated input is lexed and parsed by the real trust_syntax code on a 2 MiB-stack thread while monitors "
                  "check token tiling, tree-text equality, error ranges, purity (second parse on another thread) and shape "
                  "stability under trivia insertion; panics are caught, stack overflows/aborts are attributed through a case "
                  "journal. Decides the property on the executions produced, not for all strings.",
    "level_note": "Trusted: rowan's text()/preorder traversal, my shape extraction; nesting totality claimed only up to depth 512 per construct.",
    "assumptions": ["nesting depth bound D=512 per construct on a 2 MiB stack (half the parser's own MAX_EXPRESSION_DEPTH)",
                    "trivia insertion only at lexer token boundaries of inputs that parse without errors"],
    "design_ref": "DESIGN.md section 3, C12",
}
