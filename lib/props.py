"""Per-property configuration for the supervisor (engine, shards, budgets, evidence texts)."""

PROPS = {}

PROPS["C12"] = {
    "engine": "c12",
    "level": "exploration",
    "technique": "runtime monitors on lexer/parser output (losslessness, tiling, error ranges, purity, trivia-insertion shape) over mutated corpus + generated inputs on a 2 MiB stack",
    "quick": {"shards": 8, "budget_s": 20},
    "thorough": {"shards": 16, "budget_s": 240},
    "floor": {"quick": 2000, "thorough": 20000},
    "require_counters": {"quick": {"trivia_insertions_checked": 500, "purity_compared": 1000},
                         "thorough": {"trivia_insertions_checked": 20000}},
    "rule": "inputs: every .st file under /repo, token-level mutants/splices of them, truncations at char boundaries, "
            "random unicode, token soups, 22 nesting constructs at depth D/4 and D (D=512). distinct = hash of the input text; "
            "non-trivial = the input lexes to >=1 non-trivia token and went through all of L1-L4 (L5 counted separately "
            "in observed.trivia_insertions_checked)",
    "level_text": "Every generated input is lexed and parsed by the real trust_syntax code on a 2 MiB-stack thread while monitors "
                  "check token tiling, tree-text equality, error ranges, purity (second parse on another thread) and shape "
                  "stability under trivia insertion; panics are caught, stack overflows/aborts are attributed through a case "
                  "journal. Decides the property on the executions produced, not for all strings.",
    "level_note": "Trusted: rowan's text()/preorder traversal, my shape extraction; nesting totality claimed only up to depth 512 per construct.",
    "assumptions": ["nesting depth bound D=512 per construct on a 2 MiB stack (half the parser's own MAX_EXPRESSION_DEPTH)",
                    "trivia insertion only at lexer token boundaries of inputs that parse without errors"],
    "design_ref": "DESIGN.md section 3, C12",
}

PROPS["C04"] = {
    "engine": "c04",
    "level": "exploration",
    "technique": "differential runtime monitor: interleaved standard-FB instances in generated ST programs vs. independent IEC models, compared after every call",
    "quick": {"shards": 8, "budget_s": 15},
    "thorough": {"shards": 16, "budget_s": 240},
    "floor": {"quick": 1000, "thorough": 20000},
    "require_counters": {"quick": {"instance_steps_compared": 50000}, "thorough": {"instance_steps_compared": 2000000}},
    "rule": "case = (1-6 FB instances of mixed kinds/variants in one PROGRAM, trace of 4-64 cycles with per-instance inputs, call gating and dt "
            "drawn from {0,1ns,1ms,PT-1,PT,PT+1,10PT,2^58,...}; PT/PV incl. 0, negative, type limits). distinct = (FB type list, quantised "
            "trace shape); non-trivial = some instance's Q/QU output changed at least once during the trace (an edge / PT crossing happened)",
    "level_text": "Each trace is executed by the real runtime through TestHarness (advance_time, set_input, cycle, get_output) and every "
                  "instance's outputs are compared after every cycle with an independent model written from the property statement and "
                  "docs/specs/08 (Q, CV, QU/QD exact; ET exact while timing, within [0,PT] after expiry where IEC and the repo docs differ). "
                  "Held on the traces produced; violations are shrunk to a minimal trace.",
    "level_note": "Trusted: the FB models in harness/src/engines/c04.rs (about 120 lines), TestHarness set_input/get_output. Traces with PT changed "
                  "while timing only check output types and absence of panics/errors.",
    "assumptions": ["total trace time < 2^61 ns so the runtime clock itself cannot overflow",
                    "ET after a TOF delay / TP pulse has expired may be anything in [0,PT] (IEC holds PT, docs/specs/08 diagrams drop to 0)"],
    "design_ref": "DESIGN.md section 3, C04",
}
